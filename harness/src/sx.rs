//! Serialisation of the parsed ASTs (what the implementation actually consumes) to the
//! S-expression format read by the Coq model (coq/theories/Sexp.v).
use graphql_tools::static_graphql::{query as q, schema as s};
use std::fmt::Write;

pub fn hex(bytes: &[u8]) -> String {
    let mut o = String::with_capacity(bytes.len() * 2);
    for b in bytes {
        write!(o, "{:02x}", b).unwrap();
    }
    o
}

pub fn ty(t: &q::Type) -> String {
    match t {
        q::Type::NamedType(n) => n.clone(),
        q::Type::ListType(c) => format!("(l {})", ty(c)),
        q::Type::NonNullType(c) => format!("(n {})", ty(c)),
    }
}

pub fn value(v: &q::Value) -> String {
    match v {
        q::Value::Variable(n) => format!("(var {})", n),
        q::Value::Int(n) => format!("(int {})", n.as_i64().unwrap()),
        q::Value::Float(f) => format!("(flt {})", f.to_bits()),
        q::Value::String(st) => {
            if st.is_empty() {
                "(str)".to_string()
            } else {
                format!("(str {})", hex(st.as_bytes()))
            }
        }
        q::Value::Boolean(b) => format!("(bool {})", if *b { "t" } else { "f" }),
        q::Value::Null => "null".to_string(),
        q::Value::Enum(n) => format!("(enum {})", n),
        q::Value::List(l) => {
            let mut o = String::from("(list");
            for x in l {
                o.push(' ');
                o.push_str(&value(x));
            }
            o.push(')');
            o
        }
        q::Value::Object(m) => {
            let mut o = String::from("(obj");
            for (k, x) in m.iter() {
                write!(o, " ({} {})", k, value(x)).unwrap();
            }
            o.push(')');
            o
        }
    }
}

fn args(a: &[(String, q::Value)]) -> String {
    let mut o = String::from("(");
    for (i, (n, v)) in a.iter().enumerate() {
        if i > 0 {
            o.push(' ');
        }
        write!(o, "({} {})", n, value(v)).unwrap();
    }
    o.push(')');
    o
}

fn dirs(d: &[q::Directive]) -> String {
    let mut o = String::from("(");
    for (i, x) in d.iter().enumerate() {
        if i > 0 {
            o.push(' ');
        }
        write!(o, "(d {} {} {} {})", x.position.line, x.position.column, x.name, args(&x.arguments)).unwrap();
    }
    o.push(')');
    o
}

fn oname(o: &Option<String>) -> String {
    match o {
        Some(n) => n.clone(),
        None => "-".to_string(),
    }
}

fn selset(ss: &q::SelectionSet) -> String {
    let mut o = format!(
        "{} {} {} {} (",
        ss.span.0.line, ss.span.0.column, ss.span.1.line, ss.span.1.column
    );
    for (i, x) in ss.items.iter().enumerate() {
        if i > 0 {
            o.push(' ');
        }
        o.push_str(&selection(x));
    }
    o.push(')');
    o
}

pub fn selection(x: &q::Selection) -> String {
    match x {
        q::Selection::Field(f) => format!(
            "(f {} {} {} {} {} {} {})",
            f.position.line,
            f.position.column,
            oname(&f.alias),
            f.name,
            args(&f.arguments),
            dirs(&f.directives),
            selset(&f.selection_set)
        ),
        q::Selection::FragmentSpread(f) => format!(
            "(s {} {} {} {})",
            f.position.line,
            f.position.column,
            f.fragment_name,
            dirs(&f.directives)
        ),
        q::Selection::InlineFragment(f) => {
            let tc = match &f.type_condition {
                Some(q::TypeCondition::On(n)) => n.clone(),
                None => "-".to_string(),
            };
            format!(
                "(i {} {} {} {} {})",
                f.position.line,
                f.position.column,
                tc,
                dirs(&f.directives),
                selset(&f.selection_set)
            )
        }
    }
}

fn vardefs(v: &[q::VariableDefinition]) -> String {
    let mut o = String::from("(");
    for (i, x) in v.iter().enumerate() {
        if i > 0 {
            o.push(' ');
        }
        let dv = match &x.default_value {
            Some(v) => format!("(some {})", value(v)),
            None => "-".to_string(),
        };
        write!(o, "(v {} {} {} {} {})", x.position.line, x.position.column, x.name, ty(&x.var_type), dv).unwrap();
    }
    o.push(')');
    o
}

pub fn document(d: &q::Document) -> String {
    let mut o = String::from("(doc");
    for def in &d.definitions {
        o.push(' ');
        match def {
            q::Definition::Operation(op) => match op {
                q::OperationDefinition::SelectionSet(ss) => {
                    write!(o, "(op sel 0 0 - () () {})", selset(ss)).unwrap();
                }
                q::OperationDefinition::Query(x) => {
                    write!(o, "(op query {} {} {} {} {} {})", x.position.line, x.position.column, oname(&x.name),
                        vardefs(&x.variable_definitions), dirs(&x.directives), selset(&x.selection_set)).unwrap();
                }
                q::OperationDefinition::Mutation(x) => {
                    write!(o, "(op mutation {} {} {} {} {} {})", x.position.line, x.position.column, oname(&x.name),
                        vardefs(&x.variable_definitions), dirs(&x.directives), selset(&x.selection_set)).unwrap();
                }
                q::OperationDefinition::Subscription(x) => {
                    write!(o, "(op subscription {} {} {} {} {} {})", x.position.line, x.position.column, oname(&x.name),
                        vardefs(&x.variable_definitions), dirs(&x.directives), selset(&x.selection_set)).unwrap();
                }
            },
            q::Definition::Fragment(f) => {
                let q::TypeCondition::On(tc) = &f.type_condition;
                write!(o, "(fr {} {} {} {} {} {})", f.position.line, f.position.column, f.name, tc,
                    dirs(&f.directives), selset(&f.selection_set)).unwrap();
            }
        }
    }
    o.push(')');
    o
}

fn ivs(v: &[s::InputValue]) -> String {
    let mut o = String::from("(");
    for (i, x) in v.iter().enumerate() {
        if i > 0 {
            o.push(' ');
        }
        let dv = match &x.default_value {
            Some(v) => format!("(some {})", value(v)),
            None => "-".to_string(),
        };
        write!(o, "(iv {} {} {})", x.name, ty(&x.value_type), dv).unwrap();
    }
    o.push(')');
    o
}

fn fds(v: &[s::Field]) -> String {
    let mut o = String::from("(");
    for (i, x) in v.iter().enumerate() {
        if i > 0 {
            o.push(' ');
        }
        write!(o, "(fd {} {} {})", x.name, ivs(&x.arguments), ty(&x.field_type)).unwrap();
    }
    o.push(')');
    o
}

fn names(v: &[String]) -> String {
    format!("({})", v.join(" "))
}

pub fn schema(d: &s::Document) -> String {
    let mut o = String::from("(sdoc");
    for def in &d.definitions {
        o.push(' ');
        match def {
            s::Definition::SchemaDefinition(x) => {
                write!(o, "(schema {} {} {})", oname(&x.query), oname(&x.mutation), oname(&x.subscription)).unwrap();
            }
            s::Definition::TypeDefinition(t) => match t {
                s::TypeDefinition::Object(x) => {
                    write!(o, "(object {} {} {})", x.name, names(&x.implements_interfaces), fds(&x.fields)).unwrap()
                }
                s::TypeDefinition::Interface(x) => {
                    write!(o, "(interface {} {} {})", x.name, names(&x.implements_interfaces), fds(&x.fields)).unwrap()
                }
                s::TypeDefinition::Union(x) => write!(o, "(union {} {})", x.name, names(&x.types)).unwrap(),
                s::TypeDefinition::Scalar(x) => write!(o, "(scalar {})", x.name).unwrap(),
                s::TypeDefinition::Enum(x) => {
                    let vs: Vec<String> = x.values.iter().map(|v| v.name.clone()).collect();
                    write!(o, "(enum {} {})", x.name, names(&vs)).unwrap()
                }
                s::TypeDefinition::InputObject(x) => write!(o, "(input {} {})", x.name, ivs(&x.fields)).unwrap(),
            },
            s::Definition::TypeExtension(e) => {
                let n = match e {
                    graphql_tools::parser::schema::TypeExtension::Scalar(x) => &x.name,
                    graphql_tools::parser::schema::TypeExtension::Object(x) => &x.name,
                    graphql_tools::parser::schema::TypeExtension::Interface(x) => &x.name,
                    graphql_tools::parser::schema::TypeExtension::Union(x) => &x.name,
                    graphql_tools::parser::schema::TypeExtension::Enum(x) => &x.name,
                    graphql_tools::parser::schema::TypeExtension::InputObject(x) => &x.name,
                };
                write!(o, "(ext {})", n).unwrap();
            }
            s::Definition::DirectiveDefinition(x) => {
                let locs: Vec<String> = x.locations.iter().map(|l| l.as_str().to_string()).collect();
                write!(o, "(directive {} {} {} {})", x.name, ivs(&x.arguments),
                    if x.repeatable { "t" } else { "f" }, names(&locs)).unwrap();
            }
        }
    }
    o.push(')');
    o
}

/// GraphQL notation of a type (same as the parser's Display, written out so that the harness
/// does not depend on it).
pub fn ty_display(t: &q::Type) -> String {
    match t {
        q::Type::NamedType(n) => n.clone(),
        q::Type::ListType(c) => format!("[{}]", ty_display(c)),
        q::Type::NonNullType(c) => format!("{}!", ty_display(c)),
    }
}

//! C15 / C16: a recording OperationVisitor and SchemaVisitor.
use crate::render::*;
use crate::sx;
use graphql_tools::ast::{visit_document, OperationVisitor, OperationVisitorContext, SchemaVisitor};
use graphql_tools::static_graphql::{query as q, schema as s};
use std::collections::BTreeMap;

pub struct Recorder;
type Log = Vec<String>;

fn rec(log: &mut Log, c: &OperationVisitorContext, sign: char, payload: String) {
    log.push(format!("{}{} | {}", sign, payload, answers(c)));
}

fn s_op(o: &q::OperationDefinition) -> String {
    match o {
        q::OperationDefinition::SelectionSet(_) => "Op sel - -".to_string(),
        q::OperationDefinition::Query(x) => format!("Op query {} {}", pos(&x.position), oname(&x.name)),
        q::OperationDefinition::Mutation(x) => format!("Op mutation {} {}", pos(&x.position), oname(&x.name)),
        q::OperationDefinition::Subscription(x) => format!("Op subscription {} {}", pos(&x.position), oname(&x.name)),
    }
}
fn s_frag(f: &q::FragmentDefinition) -> String {
    let q::TypeCondition::On(tc) = &f.type_condition;
    format!("Frag {} {} {}", pos(&f.position), f.name, tc)
}
fn s_var(v: &q::VariableDefinition) -> String {
    format!("Var {} {} {}", pos(&v.position), v.name, sx::ty_display(&v.var_type))
}
fn s_dir(d: &q::Directive) -> String {
    format!("Dir {} {} {}", pos(&d.position), d.name, d.arguments.len())
}
fn s_sel(ss: &q::SelectionSet) -> String {
    format!("Sel {}-{} {}", pos(&ss.span.0), pos(&ss.span.1), ss.items.len())
}
fn s_field(f: &q::Field) -> String {
    format!("Field {} {} {} {} {} {}", pos(&f.position), oname(&f.alias), f.name, f.arguments.len(), f.directives.len(), f.selection_set.items.len())
}
fn s_spread(f: &q::FragmentSpread) -> String {
    format!("Spread {} {} {}", pos(&f.position), f.fragment_name, f.directives.len())
}
fn s_inline(f: &q::InlineFragment) -> String {
    let tc = match &f.type_condition {
        Some(q::TypeCondition::On(n)) => n.clone(),
        None => "-".to_string(),
    };
    format!("Inline {} {} {} {}", pos(&f.position), tc, f.directives.len(), f.selection_set.items.len())
}

impl<'a> OperationVisitor<'a, Log> for Recorder {
    fn enter_document(&mut self, c: &mut OperationVisitorContext<'a>, l: &mut Log, d: &'a q::Document) {
        rec(l, c, '+', format!("Doc {}", d.definitions.len()));
    }
    fn leave_document(&mut self, c: &mut OperationVisitorContext<'a>, l: &mut Log, d: &q::Document) {
        rec(l, c, '-', format!("Doc {}", d.definitions.len()));
    }
    fn enter_operation_definition(&mut self, c: &mut OperationVisitorContext<'a>, l: &mut Log, o: &'a q::OperationDefinition) {
        rec(l, c, '+', s_op(o));
    }
    fn leave_operation_definition(&mut self, c: &mut OperationVisitorContext<'a>, l: &mut Log, o: &q::OperationDefinition) {
        rec(l, c, '-', s_op(o));
    }
    fn enter_fragment_definition(&mut self, c: &mut OperationVisitorContext<'a>, l: &mut Log, f: &'a q::FragmentDefinition) {
        rec(l, c, '+', s_frag(f));
    }
    fn leave_fragment_definition(&mut self, c: &mut OperationVisitorContext<'a>, l: &mut Log, f: &q::FragmentDefinition) {
        rec(l, c, '-', s_frag(f));
    }
    fn enter_variable_definition(&mut self, c: &mut OperationVisitorContext<'a>, l: &mut Log, v: &'a q::VariableDefinition) {
        rec(l, c, '+', s_var(v));
    }
    fn leave_variable_definition(&mut self, c: &mut OperationVisitorContext<'a>, l: &mut Log, v: &q::VariableDefinition) {
        rec(l, c, '-', s_var(v));
    }
    fn enter_directive(&mut self, c: &mut OperationVisitorContext<'a>, l: &mut Log, d: &q::Directive) {
        rec(l, c, '+', s_dir(d));
    }
    fn leave_directive(&mut self, c: &mut OperationVisitorContext<'a>, l: &mut Log, d: &q::Directive) {
        rec(l, c, '-', s_dir(d));
    }
    fn enter_argument(&mut self, c: &mut OperationVisitorContext<'a>, l: &mut Log, a: &'a (String, q::Value)) {
        rec(l, c, '+', format!("Arg {} {}", a.0, sx::value(&a.1)));
    }
    fn leave_argument(&mut self, c: &mut OperationVisitorContext<'a>, l: &mut Log, a: &(String, q::Value)) {
        rec(l, c, '-', format!("Arg {} {}", a.0, sx::value(&a.1)));
    }
    fn enter_selection_set(&mut self, c: &mut OperationVisitorContext<'a>, l: &mut Log, ss: &'a q::SelectionSet) {
        rec(l, c, '+', s_sel(ss));
    }
    fn leave_selection_set(&mut self, c: &mut OperationVisitorContext<'a>, l: &mut Log, ss: &q::SelectionSet) {
        rec(l, c, '-', s_sel(ss));
    }
    fn enter_field(&mut self, c: &mut OperationVisitorContext<'a>, l: &mut Log, f: &q::Field) {
        rec(l, c, '+', s_field(f));
    }
    fn leave_field(&mut self, c: &mut OperationVisitorContext<'a>, l: &mut Log, f: &q::Field) {
        rec(l, c, '-', s_field(f));
    }
    fn enter_fragment_spread(&mut self, c: &mut OperationVisitorContext<'a>, l: &mut Log, f: &'a q::FragmentSpread) {
        rec(l, c, '+', s_spread(f));
    }
    fn leave_fragment_spread(&mut self, c: &mut OperationVisitorContext<'a>, l: &mut Log, f: &q::FragmentSpread) {
        rec(l, c, '-', s_spread(f));
    }
    fn enter_inline_fragment(&mut self, c: &mut OperationVisitorContext<'a>, l: &mut Log, f: &q::InlineFragment) {
        rec(l, c, '+', s_inline(f));
    }
    fn leave_inline_fragment(&mut self, c: &mut OperationVisitorContext<'a>, l: &mut Log, f: &q::InlineFragment) {
        rec(l, c, '-', s_inline(f));
    }
    fn enter_null_value(&mut self, c: &mut OperationVisitorContext<'a>, l: &mut Log, _: ()) {
        rec(l, c, '+', "Null".to_string());
    }
    fn leave_null_value(&mut self, c: &mut OperationVisitorContext<'a>, l: &mut Log, _: ()) {
        rec(l, c, '-', "Null".to_string());
    }
    fn enter_scalar_value(&mut self, c: &mut OperationVisitorContext<'a>, l: &mut Log, v: &q::Value) {
        rec(l, c, '+', format!("Scalar {}", sx::value(v)));
    }
    fn leave_scalar_value(&mut self, c: &mut OperationVisitorContext<'a>, l: &mut Log, v: &q::Value) {
        rec(l, c, '-', format!("Scalar {}", sx::value(v)));
    }
    fn enter_enum_value(&mut self, c: &mut OperationVisitorContext<'a>, l: &mut Log, v: &String) {
        rec(l, c, '+', format!("Enum {}", v));
    }
    fn leave_enum_value(&mut self, c: &mut OperationVisitorContext<'a>, l: &mut Log, v: &String) {
        rec(l, c, '-', format!("Enum {}", v));
    }
    fn enter_variable_value(&mut self, c: &mut OperationVisitorContext<'a>, l: &mut Log, v: &'a str) {
        rec(l, c, '+', format!("Variable {}", v));
    }
    fn leave_variable_value(&mut self, c: &mut OperationVisitorContext<'a>, l: &mut Log, v: &String) {
        rec(l, c, '-', format!("Variable {}", v));
    }
    fn enter_list_value(&mut self, c: &mut OperationVisitorContext<'a>, l: &mut Log, v: &Vec<q::Value>) {
        rec(l, c, '+', format!("List {}", sx::value(&q::Value::List(v.clone()))));
    }
    fn leave_list_value(&mut self, c: &mut OperationVisitorContext<'a>, l: &mut Log, v: &Vec<q::Value>) {
        rec(l, c, '-', format!("List {}", sx::value(&q::Value::List(v.clone()))));
    }
    fn enter_object_value(&mut self, c: &mut OperationVisitorContext<'a>, l: &mut Log, v: &BTreeMap<String, q::Value>) {
        rec(l, c, '+', format!("Object {}", sx::value(&q::Value::Object(v.clone()))));
    }
    fn leave_object_value(&mut self, c: &mut OperationVisitorContext<'a>, l: &mut Log, v: &BTreeMap<String, q::Value>) {
        rec(l, c, '-', format!("Object {}", sx::value(&q::Value::Object(v.clone()))));
    }
    fn enter_object_field(&mut self, c: &mut OperationVisitorContext<'a>, l: &mut Log, kv: &(String, q::Value)) {
        rec(l, c, '+', format!("OField {} {}", kv.0, sx::value(&kv.1)));
    }
    fn leave_object_field(&mut self, c: &mut OperationVisitorContext<'a>, l: &mut Log, kv: &(String, q::Value)) {
        rec(l, c, '-', format!("OField {} {}", kv.0, sx::value(&kv.1)));
    }
}

pub fn run_trace(schema: &s::Document, doc: &q::Document) -> Vec<String> {
    let mut log: Log = vec![];
    let mut ctx = OperationVisitorContext::new(doc, schema);
    visit_document(&mut Recorder, doc, &mut ctx, &mut log);
    #[cfg(graphql_tools_rs_verif)]
    {
        let d = ctx.verif_stack_depths();
        log.push(format!("DEPTHS {},{},{},{},{},{}", d[0], d[1], d[2], d[3], d[4], d[5]));
    }
    #[cfg(not(graphql_tools_rs_verif))]
    {
        log.push("DEPTHS 0,0,0,0,0,0".to_string());
    }
    log
}

// ---- schema visitor ----
pub struct SRecorder;
type SLog = Vec<String>;
fn sfd(f: &s::Field) -> String {
    format!("{}:{}", f.name, sx::ty_display(&f.field_type))
}
fn siv(f: &s::InputValue) -> String {
    format!("{}:{}", f.name, sx::ty_display(&f.value_type))
}
impl SchemaVisitor<SLog> for SRecorder {
    fn enter_document(&self, d: &s::Document, l: &mut SLog) {
        l.push(format!("+Doc {}", d.definitions.len()));
    }
    fn leave_document(&self, d: &s::Document, l: &mut SLog) {
        l.push(format!("-Doc {}", d.definitions.len()));
    }
    fn enter_schema_definition(&self, x: &s::SchemaDefinition, l: &mut SLog) {
        l.push(format!("+SchemaDef {} {} {}", oname(&x.query), oname(&x.mutation), oname(&x.subscription)));
    }
    fn leave_schema_definition(&self, x: &s::SchemaDefinition, l: &mut SLog) {
        l.push(format!("-SchemaDef {} {} {}", oname(&x.query), oname(&x.mutation), oname(&x.subscription)));
    }
    fn enter_directive_definition(&self, x: &s::DirectiveDefinition, l: &mut SLog) {
        l.push(format!("+DirectiveDef {}", x.name));
    }
    fn leave_directive_definition(&self, x: &s::DirectiveDefinition, l: &mut SLog) {
        l.push(format!("-DirectiveDef {}", x.name));
    }
    fn enter_type_definition(&self, t: &s::TypeDefinition, l: &mut SLog) {
        l.push(format!("+TypeDef {}", td(t)));
    }
    fn leave_type_definition(&self, t: &s::TypeDefinition, l: &mut SLog) {
        l.push(format!("-TypeDef {}", td(t)));
    }
    fn enter_interface_type(&self, t: &s::InterfaceType, l: &mut SLog) {
        l.push(format!("+Interface I:{}", t.name));
    }
    fn leave_interface_type(&self, t: &s::InterfaceType, l: &mut SLog) {
        l.push(format!("-Interface I:{}", t.name));
    }
    fn enter_interface_type_field(&self, f: &s::Field, t: &s::InterfaceType, l: &mut SLog) {
        l.push(format!("+InterfaceField {} I:{}", sfd(f), t.name));
    }
    fn leave_interface_type_field(&self, f: &s::Field, t: &s::InterfaceType, l: &mut SLog) {
        l.push(format!("-InterfaceField {} I:{}", sfd(f), t.name));
    }
    fn enter_object_type(&self, t: &s::ObjectType, l: &mut SLog) {
        l.push(format!("+Object O:{}", t.name));
    }
    fn leave_object_type(&self, t: &s::ObjectType, l: &mut SLog) {
        l.push(format!("-Object O:{}", t.name));
    }
    fn enter_object_type_field(&self, f: &s::Field, t: &s::ObjectType, l: &mut SLog) {
        l.push(format!("+ObjectField {} O:{}", sfd(f), t.name));
    }
    fn leave_object_type_field(&self, f: &s::Field, t: &s::ObjectType, l: &mut SLog) {
        l.push(format!("-ObjectField {} O:{}", sfd(f), t.name));
    }
    fn enter_input_object_type(&self, t: &s::InputObjectType, l: &mut SLog) {
        l.push(format!("+InputObject N:{}", t.name));
    }
    fn leave_input_object_type(&self, t: &s::InputObjectType, l: &mut SLog) {
        l.push(format!("-InputObject N:{}", t.name));
    }
    fn enter_input_object_type_field(&self, f: &s::InputValue, t: &s::InputObjectType, l: &mut SLog) {
        l.push(format!("+InputField {} N:{}", siv(f), t.name));
    }
    fn leave_input_object_type_field(&self, f: &s::InputValue, t: &s::InputObjectType, l: &mut SLog) {
        l.push(format!("-InputField {} N:{}", siv(f), t.name));
    }
    fn enter_union_type(&self, t: &s::UnionType, l: &mut SLog) {
        l.push(format!("+Union U:{}", t.name));
    }
    fn leave_union_type(&self, t: &s::UnionType, l: &mut SLog) {
        l.push(format!("-Union U:{}", t.name));
    }
    fn enter_scalar_type(&self, t: &s::ScalarType, l: &mut SLog) {
        l.push(format!("+Scalar S:{}", t.name));
    }
    fn leave_scalar_type(&self, t: &s::ScalarType, l: &mut SLog) {
        l.push(format!("-Scalar S:{}", t.name));
    }
    fn enter_enum_type(&self, t: &s::EnumType, l: &mut SLog) {
        l.push(format!("+Enum E:{}", t.name));
    }
    fn leave_enum_type(&self, t: &s::EnumType, l: &mut SLog) {
        l.push(format!("-Enum E:{}", t.name));
    }
    fn enter_enum_value(&self, v: &s::EnumValue, t: &s::EnumType, l: &mut SLog) {
        l.push(format!("+EnumValue {} E:{}", v.name, t.name));
    }
    fn leave_enum_value(&self, v: &s::EnumValue, t: &s::EnumType, l: &mut SLog) {
        l.push(format!("-EnumValue {} E:{}", v.name, t.name));
    }
}

pub fn run_strace(schema: &s::Document) -> Vec<String> {
    let mut log: SLog = vec![];
    SRecorder.visit_schema_document(schema, &mut log);
    log
}

//! C20: introspection results.  JSON trees with ordered (possibly duplicated) members, the
//! spec-conformant introspection result of a schema under an optional-member policy, structural
//! mutations, and the reader checks (chunking, injected I/O errors, serialise/parse round trip).
use graphql_tools::introspection::{parse_introspection, parse_introspection_from_string};
use graphql_tools::static_graphql::{query as q, schema as s};
use std::io::Read;

#[derive(Clone, Debug, PartialEq)]
pub enum J {
    Null,
    Bool(bool),
    Num(i64),
    Str(String),
    Arr(Vec<J>),
    Obj(Vec<(String, J)>),
}

impl J {
    pub fn text(&self, o: &mut String) {
        match self {
            J::Null => o.push_str("null"),
            J::Bool(b) => o.push_str(if *b { "true" } else { "false" }),
            J::Num(n) => o.push_str(&n.to_string()),
            J::Str(s) => o.push_str(&serde_json::to_string(s).unwrap()),
            J::Arr(l) => {
                o.push('[');
                for (i, x) in l.iter().enumerate() {
                    if i > 0 {
                        o.push(',');
                    }
                    x.text(o);
                }
                o.push(']');
            }
            J::Obj(l) => {
                o.push('{');
                for (i, (k, x)) in l.iter().enumerate() {
                    if i > 0 {
                        o.push(',');
                    }
                    o.push_str(&serde_json::to_string(k).unwrap());
                    o.push(':');
                    x.text(o);
                }
                o.push('}');
            }
        }
    }
    pub fn sexp(&self, o: &mut String) {
        fn hx(s: &str) -> String {
            if s.is_empty() {
                "-".to_string()
            } else {
                crate::sx::hex(s.as_bytes())
            }
        }
        match self {
            J::Null => o.push_str("null"),
            J::Bool(b) => o.push_str(if *b { "(b t)" } else { "(b f)" }),
            J::Num(n) => o.push_str(&format!("(n {})", n)),
            J::Str(s) => o.push_str(&format!("(s {})", hx(s))),
            J::Arr(l) => {
                o.push_str("(a");
                for x in l {
                    o.push(' ');
                    x.sexp(o);
                }
                o.push(')');
            }
            J::Obj(l) => {
                o.push_str("(o");
                for (k, x) in l {
                    o.push_str(&format!(" ({} ", hx(k)));
                    x.sexp(o);
                    o.push(')');
                }
                o.push(')');
            }
        }
    }
    pub fn from_value(v: &serde_json::Value) -> Option<J> {
        Some(match v {
            serde_json::Value::Null => J::Null,
            serde_json::Value::Bool(b) => J::Bool(*b),
            serde_json::Value::Number(n) => J::Num(n.as_i64()?),
            serde_json::Value::String(s) => J::Str(s.clone()),
            serde_json::Value::Array(l) => J::Arr(l.iter().map(J::from_value).collect::<Option<Vec<_>>>()?),
            serde_json::Value::Object(m) => J::Obj(m.iter().map(|(k, v)| J::from_value(v).map(|x| (k.clone(), x))).collect::<Option<Vec<_>>>()?),
        })
    }
}

#[derive(Clone, Copy, PartialEq)]
pub enum Policy {
    Null,
    Absent,
}

fn opt(members: &mut Vec<(String, J)>, key: &str, v: Option<J>, pol: Policy) {
    match v {
        Some(x) => members.push((key.to_string(), x)),
        None => {
            if pol == Policy::Null {
                members.push((key.to_string(), J::Null))
            }
        }
    }
}

fn kind_of(schema: &s::Document, n: &str) -> &'static str {
    for d in &schema.definitions {
        if let s::Definition::TypeDefinition(t) = d {
            let (name, k) = match t {
                s::TypeDefinition::Scalar(x) => (&x.name, "SCALAR"),
                s::TypeDefinition::Object(x) => (&x.name, "OBJECT"),
                s::TypeDefinition::Interface(x) => (&x.name, "INTERFACE"),
                s::TypeDefinition::Union(x) => (&x.name, "UNION"),
                s::TypeDefinition::Enum(x) => (&x.name, "ENUM"),
                s::TypeDefinition::InputObject(x) => (&x.name, "INPUT_OBJECT"),
            };
            if name == n {
                return k;
            }
        }
    }
    "SCALAR"
}

fn type_ref(schema: &s::Document, t: &q::Type, pol: Policy) -> J {
    match t {
        q::Type::NamedType(n) => {
            let mut m = vec![("kind".to_string(), J::Str(kind_of(schema, n).to_string())), ("name".to_string(), J::Str(n.clone()))];
            opt(&mut m, "ofType", None, pol);
            J::Obj(m)
        }
        q::Type::ListType(c) => J::Obj(vec![("kind".into(), J::Str("LIST".into())), ("name".into(), J::Null), ("ofType".into(), type_ref(schema, c, pol))]),
        q::Type::NonNullType(c) => J::Obj(vec![("kind".into(), J::Str("NON_NULL".into())), ("name".into(), J::Null), ("ofType".into(), type_ref(schema, c, pol))]),
    }
}

fn input_value(schema: &s::Document, v: &s::InputValue, pol: Policy) -> J {
    let mut m = vec![("name".to_string(), J::Str(v.name.clone()))];
    opt(&mut m, "description", v.description.clone().map(J::Str), pol);
    m.push(("type".into(), type_ref(schema, &v.value_type, pol)));
    opt(&mut m, "defaultValue", v.default_value.as_ref().map(|d| J::Str(format!("{}", d))), pol);
    opt(&mut m, "isDeprecated", if pol == Policy::Null { Some(J::Bool(false)) } else { None }, pol);
    opt(&mut m, "deprecationReason", None, pol);
    J::Obj(m)
}

fn field(schema: &s::Document, f: &s::Field, pol: Policy) -> J {
    let mut m = vec![("name".to_string(), J::Str(f.name.clone()))];
    opt(&mut m, "description", f.description.clone().map(J::Str), pol);
    m.push(("args".into(), J::Arr(f.arguments.iter().map(|a| input_value(schema, a, pol)).collect())));
    m.push(("type".into(), type_ref(schema, &f.field_type, pol)));
    opt(&mut m, "isDeprecated", Some(J::Bool(false)), pol);
    opt(&mut m, "deprecationReason", None, pol);
    J::Obj(m)
}

fn named(kind: &str, n: &str) -> J {
    J::Obj(vec![("kind".into(), J::Str(kind.into())), ("name".into(), J::Str(n.into())), ("ofType".into(), J::Null)])
}

/// the introspection result of `schema` as the specification prescribes it
pub fn render(schema: &s::Document, pol: Policy) -> J {
    let mut types = vec![];
    let objects: Vec<&s::ObjectType> = schema.definitions.iter().filter_map(|d| match d {
        s::Definition::TypeDefinition(s::TypeDefinition::Object(o)) => Some(o),
        _ => None,
    }).collect();
    for d in &schema.definitions {
        if let s::Definition::TypeDefinition(t) = d {
            let mut m: Vec<(String, J)> = vec![];
            let full = pol == Policy::Null; // a full result lists every member, null where not applicable
            match t {
                s::TypeDefinition::Scalar(x) => {
                    m.push(("kind".into(), J::Str("SCALAR".into())));
                    m.push(("name".into(), J::Str(x.name.clone())));
                    opt(&mut m, "description", x.description.clone().map(J::Str), pol);
                    opt(&mut m, "specifiedByURL", None, pol);
                    if full {
                        for k in ["fields", "interfaces", "possibleTypes", "enumValues", "inputFields"] {
                            m.push((k.into(), J::Null));
                        }
                    }
                }
                s::TypeDefinition::Object(x) => {
                    m.push(("kind".into(), J::Str("OBJECT".into())));
                    m.push(("name".into(), J::Str(x.name.clone())));
                    opt(&mut m, "description", x.description.clone().map(J::Str), pol);
                    m.push(("fields".into(), J::Arr(x.fields.iter().map(|f| field(schema, f, pol)).collect())));
                    m.push(("interfaces".into(), J::Arr(x.implements_interfaces.iter().map(|i| named("INTERFACE", i)).collect())));
                    if full {
                        for k in ["possibleTypes", "enumValues", "inputFields"] {
                            m.push((k.into(), J::Null));
                        }
                    }
                }
                s::TypeDefinition::Interface(x) => {
                    m.push(("kind".into(), J::Str("INTERFACE".into())));
                    m.push(("name".into(), J::Str(x.name.clone())));
                    opt(&mut m, "description", x.description.clone().map(J::Str), pol);
                    m.push(("fields".into(), J::Arr(x.fields.iter().map(|f| field(schema, f, pol)).collect())));
                    opt(&mut m, "interfaces", if x.implements_interfaces.is_empty() && pol == Policy::Absent { None } else {
                        Some(J::Arr(x.implements_interfaces.iter().map(|i| named("INTERFACE", i)).collect())) }, pol);
                    m.push(("possibleTypes".into(), J::Arr(objects.iter().filter(|o| o.implements_interfaces.contains(&x.name)).map(|o| named("OBJECT", &o.name)).collect())));
                    if full {
                        for k in ["enumValues", "inputFields"] {
                            m.push((k.into(), J::Null));
                        }
                    }
                }
                s::TypeDefinition::Union(x) => {
                    m.push(("kind".into(), J::Str("UNION".into())));
                    m.push(("name".into(), J::Str(x.name.clone())));
                    opt(&mut m, "description", x.description.clone().map(J::Str), pol);
                    m.push(("possibleTypes".into(), J::Arr(x.types.iter().map(|o| named("OBJECT", o)).collect())));
                    if full {
                        for k in ["fields", "interfaces", "enumValues", "inputFields"] {
                            m.push((k.into(), J::Null));
                        }
                    }
                }
                s::TypeDefinition::Enum(x) => {
                    m.push(("kind".into(), J::Str("ENUM".into())));
                    m.push(("name".into(), J::Str(x.name.clone())));
                    opt(&mut m, "description", x.description.clone().map(J::Str), pol);
                    m.push(("enumValues".into(), J::Arr(x.values.iter().map(|v| {
                        let mut e = vec![("name".to_string(), J::Str(v.name.clone()))];
                        opt(&mut e, "description", v.description.clone().map(J::Str), pol);
                        opt(&mut e, "isDeprecated", Some(J::Bool(false)), pol);
                        opt(&mut e, "deprecationReason", None, pol);
                        J::Obj(e)
                    }).collect())));
                    if full {
                        for k in ["fields", "interfaces", "possibleTypes", "inputFields"] {
                            m.push((k.into(), J::Null));
                        }
                    }
                }
                s::TypeDefinition::InputObject(x) => {
                    m.push(("kind".into(), J::Str("INPUT_OBJECT".into())));
                    m.push(("name".into(), J::Str(x.name.clone())));
                    opt(&mut m, "description", x.description.clone().map(J::Str), pol);
                    m.push(("inputFields".into(), J::Arr(x.fields.iter().map(|f| input_value(schema, f, pol)).collect())));
                    if full {
                        for k in ["fields", "interfaces", "possibleTypes", "enumValues"] {
                            m.push((k.into(), J::Null));
                        }
                    }
                }
            }
            types.push(J::Obj(m));
        }
    }
    let sd = schema.definitions.iter().find_map(|d| match d {
        s::Definition::SchemaDefinition(x) => Some(x),
        _ => None,
    });
    let has_obj = |n: &str| objects.iter().any(|o| o.name == n);
    let root = |explicit: Option<&Option<String>>, dflt: &str| -> Option<String> {
        match explicit {
            Some(e) => e.clone().filter(|n| has_obj(n)),
            None => if has_obj(dflt) { Some(dflt.to_string()) } else { None },
        }
    };
    let q = root(sd.map(|x| &x.query), "Query").unwrap_or_else(|| "Query".to_string());
    let mu = root(sd.map(|x| &x.mutation), "Mutation");
    let su = root(sd.map(|x| &x.subscription), "Subscription");
    let mut sm: Vec<(String, J)> = vec![];
    opt(&mut sm, "description", None, pol);
    sm.push(("queryType".into(), J::Obj(vec![("name".into(), J::Str(q))])));
    opt(&mut sm, "mutationType", mu.map(|n| J::Obj(vec![("name".into(), J::Str(n))])), pol);
    opt(&mut sm, "subscriptionType", su.map(|n| J::Obj(vec![("name".into(), J::Str(n))])), pol);
    sm.push(("types".into(), J::Arr(types)));
    let dirs: Vec<J> = schema.definitions.iter().filter_map(|d| match d {
        s::Definition::DirectiveDefinition(x) => {
            let mut m = vec![("name".to_string(), J::Str(x.name.clone()))];
            opt(&mut m, "description", x.description.clone().map(J::Str), pol);
            opt(&mut m, "isRepeatable", Some(J::Bool(x.repeatable)), pol);
            m.push(("locations".into(), J::Arr(x.locations.iter().map(|l| J::Str(l.as_str().to_string())).collect())));
            m.push(("args".into(), J::Arr(x.arguments.iter().map(|a| input_value(schema, a, pol)).collect())));
            Some(J::Obj(m))
        }
        _ => None,
    }).collect();
    sm.push(("directives".into(), J::Arr(dirs)));
    J::Obj(vec![("__schema".into(), J::Obj(sm))])
}

// ---------------------------------------------------------------- structural mutations
pub const MUTATIONS: &[&str] = &["remove-member", "change-kind", "wrong-type", "duplicate-member", "null-required", "extra-member", "reorder-members", "unicode-strings"];

/// texts with 1-, 2-, 3- and 4-byte characters, escapes and control characters
const TEXTS: &[&str] = &["plain", "caf\u{e9}", "\u{20ac} 12", "an emoji \u{1F600} here", "\u{1F600}", "x\u{1F600}\u{1F601}y", "q\"uote\\back", "tab\tnl\nend", "\u{7}bell", "\u{10FFFF}",
    "\u{e9}\u{20ac}\u{1F600}", "ab\u{1F600}", "abc\u{1F600}", ""];

fn set_strings(j: &mut J, rng: &mut crate::rng::Rng) {
    match j {
        J::Obj(l) => {
            for (k, v) in l.iter_mut() {
                if (k == "description" || k == "deprecationReason" || k == "specifiedByURL") && matches!(v, J::Null | J::Str(_)) {
                    if rng.pct(60) {
                        let mut t = String::new();
                        for _ in 0..rng.range(1, 3) {
                            t.push_str(*rng.pick(TEXTS));
                        }
                        *v = J::Str(t);
                    }
                } else {
                    set_strings(v, rng);
                }
            }
        }
        J::Arr(l) => {
            for v in l.iter_mut() {
                set_strings(v, rng);
            }
        }
        _ => {}
    }
}

fn collect_paths(j: &J, cur: &mut Vec<usize>, out: &mut Vec<Vec<usize>>) {
    match j {
        J::Obj(l) => {
            out.push(cur.clone());
            for (i, (_, v)) in l.iter().enumerate() {
                cur.push(i);
                collect_paths(v, cur, out);
                cur.pop();
            }
        }
        J::Arr(l) => {
            for (i, v) in l.iter().enumerate() {
                cur.push(i);
                collect_paths(v, cur, out);
                cur.pop();
            }
        }
        _ => {}
    }
}
fn at_mut<'a>(j: &'a mut J, path: &[usize]) -> &'a mut J {
    if path.is_empty() {
        return j;
    }
    match j {
        J::Obj(l) => at_mut(&mut l[path[0]].1, &path[1..]),
        J::Arr(l) => at_mut(&mut l[path[0]], &path[1..]),
        _ => j,
    }
}

pub fn mutate(j: &J, kind: &str, rng: &mut crate::rng::Rng) -> Option<J> {
    let mut out = j.clone();
    if kind == "unicode-strings" {
        set_strings(&mut out, rng);
        return Some(out);
    }
    let mut paths = vec![];
    collect_paths(j, &mut vec![], &mut paths);
    if paths.is_empty() {
        return None;
    }
    let p = paths[rng.below(paths.len())].clone();
    let target = at_mut(&mut out, &p);
    if let J::Obj(members) = target {
        if members.is_empty() {
            return None;
        }
        let i = rng.below(members.len());
        match kind {
            "remove-member" => {
                members.remove(i);
            }
            "change-kind" => {
                let k = members.iter().position(|(k, _)| k == "kind")?;
                members[k].1 = J::Str(rng.pick(&["SCALAR", "OBJECT", "LIST", "NON_NULL", "ENUM", "INTERFACE", "UNION", "INPUT_OBJECT", "NOPE"]).to_string());
            }
            "wrong-type" => {
                members[i].1 = match &members[i].1 {
                    J::Str(_) => J::Num(1),
                    J::Arr(_) => J::Obj(vec![]),
                    J::Obj(_) => J::Arr(vec![]),
                    J::Bool(_) => J::Str("true".into()),
                    J::Null => J::Num(0),
                    J::Num(_) => J::Str("1".into()),
                };
            }
            "duplicate-member" => {
                let c = members[i].clone();
                members.push(c);
            }
            "null-required" => {
                members[i].1 = J::Null;
            }
            "extra-member" => {
                members.insert(i, ("zzExtra".into(), J::Arr(vec![J::Num(1), J::Null])));
            }
            "reorder-members" => {
                members.reverse();
            }
            _ => return None,
        }
        return Some(out);
    }
    None
}

// ---------------------------------------------------------------- readers
struct Chunked<'a> {
    data: &'a [u8],
    pos: usize,
    chunk: usize,
    fail_at: Option<usize>,
}
impl<'a> Read for Chunked<'a> {
    fn read(&mut self, buf: &mut [u8]) -> std::io::Result<usize> {
        if let Some(f) = self.fail_at {
            if self.pos >= f {
                return Err(std::io::Error::new(std::io::ErrorKind::Other, "injected"));
            }
        }
        let mut n = self.chunk.min(buf.len()).min(self.data.len() - self.pos);
        if let Some(f) = self.fail_at {
            n = n.min(f - self.pos).max(if f > self.pos { 1 } else { 0 });
        }
        buf[..n].copy_from_slice(&self.data[self.pos..self.pos + n]);
        self.pos += n;
        Ok(n)
    }
}

fn dump(q: &graphql_tools::introspection::IntrospectionQuery) -> String {
    serde_json::to_string(&serde_json::to_value(q).unwrap()).unwrap()
}

pub fn run_introspect_text(text: &str, offsets_budget: usize) -> Vec<String> {
    let mut out = vec![];
    let base = std::panic::catch_unwind(|| parse_introspection_from_string(text));
    let base = match base {
        Ok(r) => r,
        Err(_) => return vec!["PANIC".into()],
    };
    let base_dump = base.as_ref().ok().map(dump);
    match &base_dump {
        Some(d) => {
            out.push("OK".into());
            out.push(format!("JSON {}", d));
        }
        None => out.push("ERR".into()),
    }
    // every chunking gives the same outcome as the full string
    let bytes = text.as_bytes();
    let mut chunks_ok = true;
    for c in [1usize, 2, 3, 4, 5, 7, 13, 4096, bytes.len().max(1)] {
        let r = std::panic::catch_unwind(|| parse_introspection(Chunked { data: bytes, pos: 0, chunk: c, fail_at: None }));
        match r {
            Ok(r) => {
                if r.as_ref().ok().map(dump) != base_dump {
                    chunks_ok = false;
                }
            }
            Err(_) => chunks_ok = false,
        }
    }
    out.push(format!("CHUNKS {}", if chunks_ok { "ok" } else { "BAD" }));
    // an I/O error at any byte offset gives Err, never a panic
    let mut faults_ok = true;
    let step = (bytes.len() / offsets_budget.max(1)).max(1);
    let mut off = 0;
    while off < bytes.len() {
        let r = std::panic::catch_unwind(|| parse_introspection(Chunked { data: bytes, pos: 0, chunk: 7, fail_at: Some(off) }));
        match r {
            Ok(Ok(_)) => faults_ok = false, // the failing reader never delivered the whole input
            Ok(Err(_)) => {}
            Err(_) => faults_ok = false,
        }
        off += step;
    }
    out.push(format!("FAULTS {}", if faults_ok { "ok" } else { "BAD" }));
    // serialise and parse again
    let rt_ok = match &base {
        Ok(q) => match parse_introspection_from_string(&serde_json::to_string(q).unwrap()) {
            Ok(q2) => Some(dump(&q2)) == base_dump,
            Err(_) => false,
        },
        Err(_) => true,
    };
    out.push(format!("ROUNDTRIP {}", if rt_ok { "ok" } else { "BAD" }));
    out
}

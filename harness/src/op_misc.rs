//! C19 (collect_fields), C18 (helper traits), C12 (purity) operations.
use graphql_tools::ast::*;
use graphql_tools::static_graphql::{query as q, schema as s};

fn selsets<'a>(ss: &'a q::SelectionSet, out: &mut Vec<&'a q::SelectionSet>) {
    out.push(ss);
    for x in &ss.items {
        match x {
            q::Selection::Field(f) => selsets(&f.selection_set, out),
            q::Selection::InlineFragment(f) => selsets(&f.selection_set, out),
            _ => {}
        }
    }
}

pub fn all_selection_sets(doc: &q::Document) -> Vec<&q::SelectionSet> {
    let mut out = vec![];
    for def in &doc.definitions {
        match def {
            q::Definition::Operation(op) => selsets(op.selection_set(), &mut out),
            q::Definition::Fragment(f) => selsets(&f.selection_set, &mut out),
        }
    }
    out
}

/// collect_fields on every selection set of the document paired with every object type
pub fn run_collect(schema: &s::Document, doc: &q::Document) -> Vec<String> {
    let ctx = OperationVisitorContext::new(doc, schema);
    let mut lines = vec![];
    for ss in all_selection_sets(doc) {
        for def in &schema.definitions {
            if let s::Definition::TypeDefinition(td @ s::TypeDefinition::Object(o)) = def {
                let map = collect_fields(ss, td, &ctx.known_fragments, &ctx);
                let mut groups: Vec<String> = map
                    .iter()
                    .map(|(k, fs)| {
                        let ps: Vec<String> = fs.iter().map(|f| format!("{}@{}:{}", f.name, f.position.line, f.position.column)).collect();
                        format!("{}={}", k, ps.join(","))
                    })
                    .collect();
                groups.sort();
                lines.push(format!("S {}:{} {} | {}", ss.span.0.line, ss.span.0.column, o.name, groups.join(";")));
            }
        }
    }
    let mut out = vec!["#UNORDERED".to_string()];
    out.extend(lines);
    out.push("#ORDERED".to_string());
    out
}

// ---------------------------------------------------------------- C18: helper traits, exhaustively per schema
use graphql_tools::validation::rules::do_types_overlap;

fn tdname(t: &s::TypeDefinition) -> String {
    crate::render::td(t)
}

/// all type references over `names` with wrappers up to `depth` (including shapes the grammar
/// cannot express, such as T!!, which the helper functions must still handle totally)
pub fn type_refs(names: &[String], depth: usize) -> Vec<q::Type> {
    let mut cur: Vec<q::Type> = names.iter().map(|n| q::Type::NamedType(n.clone())).collect();
    let mut all = cur.clone();
    for _ in 0..depth {
        let mut next = vec![];
        for t in &cur {
            next.push(q::Type::ListType(Box::new(t.clone())));
            next.push(q::Type::NonNullType(Box::new(t.clone())));
        }
        all.extend(next.clone());
        cur = next;
    }
    all
}

pub fn value_pool() -> Vec<q::Value> {
    use std::collections::BTreeMap;
    let atoms: Vec<q::Value> = vec![
        q::Value::Variable("a".into()),
        q::Value::Variable("b".into()),
        graphql_tools::parser::parse_query::<String>("{f(x:1)}").map(|d| first_arg(&d.into_static())).unwrap(),
        graphql_tools::parser::parse_query::<String>("{f(x:2)}").map(|d| first_arg(&d.into_static())).unwrap(),
        q::Value::Float(1.5),
        q::Value::Float(0.0),
        q::Value::Float(-0.0),
        // neighbours at machine precision, tiny and huge magnitudes, infinity (NaN cannot be written in a document)
        q::Value::Float(0.3),
        q::Value::Float(0.30000000000000004),
        q::Value::Float(1e-20),
        q::Value::Float(2e-20),
        q::Value::Float(1e-300),
        q::Value::Float(1e300),
        q::Value::Float(1e300 * 1.0000000000000002),
        q::Value::Float(f64::INFINITY),
        q::Value::String("x".into()),
        q::Value::String("".into()),
        q::Value::Boolean(true),
        q::Value::Boolean(false),
        q::Value::Null,
        q::Value::Enum("A".into()),
        q::Value::Enum("a".into()),
    ];
    let mut out = atoms.clone();
    let small: Vec<q::Value> = atoms.iter().take(5).cloned().chain([q::Value::Null]).collect();
    out.push(q::Value::List(vec![]));
    for x in &small {
        out.push(q::Value::List(vec![x.clone()]));
        for y in small.iter().take(3) {
            out.push(q::Value::List(vec![x.clone(), y.clone()]));
        }
    }
    out.push(q::Value::Object(BTreeMap::new()));
    for x in small.iter().take(4) {
        for k in ["a", "b"] {
            let mut m = BTreeMap::new();
            m.insert(k.to_string(), x.clone());
            out.push(q::Value::Object(m.clone()));
            m.insert("c".to_string(), q::Value::List(vec![x.clone(), q::Value::Variable("a".into())]));
            out.push(q::Value::Object(m));
        }
    }
    // depth 3
    let l1 = q::Value::List(vec![q::Value::List(vec![q::Value::Variable("a".into())]), q::Value::List(vec![])]);
    let l2 = q::Value::List(vec![q::Value::List(vec![q::Value::Variable("a".into())])]);
    let mut m = BTreeMap::new();
    m.insert("a".to_string(), l1.clone());
    out.push(l1);
    out.push(l2);
    out.push(q::Value::Object(m));
    out
}

fn first_arg(d: &q::Document) -> q::Value {
    if let q::Definition::Operation(q::OperationDefinition::SelectionSet(ss)) = &d.definitions[0] {
        if let q::Selection::Field(f) = &ss.items[0] {
            return f.arguments[0].1.clone();
        }
    }
    q::Value::Null
}

fn bits<I: Iterator<Item = bool>>(it: I) -> String {
    it.map(|b| if b { '1' } else { '0' }).collect()
}

/// C18 with a history: other schemas with the SAME number of definitions (definitions reversed;
/// the implements-lists of the objects rotated; the member lists of the unions rotated; one object
/// renamed) take turns in ONE variable (same address) and are queried before the real schema is
/// put back into that variable and queried for the answers that count: a helper must answer from
/// the schema it is given, not from whatever it remembers about an earlier one.
pub fn run_ext_with_history(schema: &s::Document, depth: usize) -> Vec<String> {
    let mut variants: Vec<s::Document> = vec![];
    let mut reversed = schema.clone();
    reversed.definitions.reverse();
    variants.push(reversed);
    {
        let mut v = schema.clone();
        let lists: Vec<Vec<String>> = v.definitions.iter().filter_map(|d| match d {
            s::Definition::TypeDefinition(s::TypeDefinition::Object(o)) => Some(o.implements_interfaces.clone()),
            _ => None,
        }).collect();
        let mut k = 0usize;
        for d in v.definitions.iter_mut() {
            if let s::Definition::TypeDefinition(s::TypeDefinition::Object(o)) = d {
                k += 1;
                o.implements_interfaces = lists[k % lists.len()].clone();
            }
        }
        variants.push(v);
    }
    {
        let mut v = schema.clone();
        let lists: Vec<Vec<String>> = v.definitions.iter().filter_map(|d| match d {
            s::Definition::TypeDefinition(s::TypeDefinition::Union(u)) => Some(u.types.clone()),
            _ => None,
        }).collect();
        let mut k = 0usize;
        for d in v.definitions.iter_mut() {
            if let s::Definition::TypeDefinition(s::TypeDefinition::Union(u)) = d {
                k += 1;
                u.types = lists[k % lists.len()].clone();
                let r = 1.min(u.types.len());
                u.types.rotate_left(r);
                if u.types.len() > 1 {
                    u.types.pop();
                }
            }
        }
        variants.push(v);
    }
    {
        let mut v = schema.clone();
        for d in v.definitions.iter_mut().rev() {
            if let s::Definition::TypeDefinition(s::TypeDefinition::Object(o)) = d {
                o.name = format!("{}Zz", o.name);
                break;
            }
        }
        variants.push(v);
    }
    let mut slot: s::Document = schema.clone();
    for v in variants {
        slot = v;
        let _ = std::panic::catch_unwind(std::panic::AssertUnwindSafe(|| run_ext(&slot, 1)));
        slot = schema.clone();
        let _ = std::panic::catch_unwind(std::panic::AssertUnwindSafe(|| run_ext(&slot, 1)));
    }
    slot = schema.clone();
    run_ext(&slot, depth)
}

pub fn run_ext(schema: &s::Document, depth: usize) -> Vec<String> {
    let mut out = vec![];
    let tdefs: Vec<&s::TypeDefinition> = schema
        .definitions
        .iter()
        .filter_map(|d| match d {
            s::Definition::TypeDefinition(t) => Some(t),
            _ => None,
        })
        .collect();
    let mut names: Vec<String> = tdefs.iter().map(|t| t.name().to_string()).collect();
    names.push("ZzAbsent".to_string());
    // look-ups
    for n in &names {
        out.push(format!("TBN {} {}", n, crate::render::otd(schema.type_by_name(n))));
        out.push(format!("OBN {} {}", n, schema.object_type_by_name(n).map(|o| o.name.clone()).unwrap_or("-".into())));
        out.push(format!("TMAP {} {}", n, schema.type_map().get(n.as_str()).map(|t| tdname(t)).unwrap_or("-".into())));
    }
    for d in &schema.definitions {
        if let s::Definition::DirectiveDefinition(dd) = d {
            out.push(format!("DBN {} {}", dd.name, schema.directive_by_name(&dd.name).map(|x| x.arguments.len().to_string()).unwrap_or("-".into())));
        }
    }
    out.push(format!("DBN zzAbsent {}", schema.directive_by_name("zzAbsent").map(|_| "?".to_string()).unwrap_or("-".into())));
    // roots (query_type panics without a query root: only called on well-formed schemas)
    out.push(format!("ROOTS {} {} {}", schema.query_type().name, schema.mutation_type().map(|t| t.name.clone()).unwrap_or("-".into()),
        schema.subscription_type().map(|t| t.name.clone()).unwrap_or("-".into())));
    // fields
    for t in &tdefs {
        let mut fnames: Vec<String> = vec!["zzAbsent".into()];
        match t {
            s::TypeDefinition::Object(o) => fnames.extend(o.fields.iter().map(|f| f.name.clone())),
            s::TypeDefinition::Interface(o) => fnames.extend(o.fields.iter().map(|f| f.name.clone())),
            s::TypeDefinition::InputObject(o) => fnames.extend(o.fields.iter().map(|f| f.name.clone())),
            _ => {}
        }
        for f in &fnames {
            out.push(format!("FBN {} {} {} {}", t.name(), f,
                t.field_by_name(f).map(|x| crate::sx::ty_display(&x.field_type)).unwrap_or("-".into()),
                t.input_field_by_name(f).map(|x| format!("{}:{}", crate::sx::ty_display(&x.value_type), x.is_required())).unwrap_or("-".into())));
        }
        let mut pt: Vec<String> = t.possible_types(schema).iter().map(|o| o.name.clone()).collect();
        pt.sort();
        out.push(format!("PT {} {}", t.name(), pt.join(",")));
        out.push(format!("KIND {} {}", t.name(), bits([t.is_leaf_type(), t.is_composite_type(), t.is_input_type(), t.is_object_type(), t.is_union_type(), t.is_interface_type(), t.is_enum_type(), t.is_scalar_type(), t.is_abstract_type()].into_iter())));
    }
    // named subtyping, possible type, overlap: all pairs
    for a in &names {
        out.push(format!("NST {} {}", a, bits(names.iter().map(|b| schema.is_named_subtype(a, b)))));
    }
    for a in &tdefs {
        out.push(format!("IPT {} {}", a.name(), bits(tdefs.iter().map(|b| schema.is_possible_type(a, b)))));
        if a.is_composite_type() {
            out.push(format!("OVL {} {}", a.name(), bits(tdefs.iter().filter(|b| b.is_composite_type()).map(|b| do_types_overlap(schema, a, b)))));
        }
    }
    // subtyping on all pairs of type references
    let refs = type_refs(&names, depth);
    for a in &refs {
        out.push(format!("SUB {} {}", crate::sx::ty_display(a), bits(refs.iter().map(|b| schema.is_subtype(a, b)))));
        out.push(format!("TY {} {} {}", crate::sx::ty_display(a), a.inner_type(), bits([a.is_non_null(), a.is_list_type(), a.is_named_type()].into_iter())));
    }
    // values
    let vals = value_pool();
    for a in &vals {
        out.push(format!("CMP {} {}", crate::sx::value(a), bits(vals.iter().map(|b| a.compare(b)))));
        out.push(format!("VARS {} {}", crate::sx::value(a), a.variables_in_use().join(",")));
    }
    out
}

//! C19 (collect_fields), C18 (helper traits), C12 (purity) operations.
use graphql_tools::ast::*;
use graphql_tools::static_graphql::{query as q, schema as s};

fn selsets<'a>(ss: &'a q::SelectionSet, out: &mut Vec<&'a q::SelectionSet>) {
    out.push(ss);
    for x in &ss.items {
        match x {
            q::Selection::Field(f) => selsets(&f.selection_set, out),
            q::Selection::InlineFragment(f) => selsets(&f.selection_set, out),
            _ => {}
        }
    }
}

pub fn all_selection_sets(doc: &q::Document) -> Vec<&q::SelectionSet> {
    let mut out = vec![];
    for def in &doc.definitions {
        match def {
            q::Definition::Operation(op) => selsets(op.selection_set(), &mut out),
            q::Definition::Fragment(f) => selsets(&f.selection_set, &mut out),
        }
    }
    out
}

/// collect_fields on every selection set of the document paired with every object type
pub fn run_collect(schema: &s::Document, doc: &q::Document) -> Vec<String> {
    let ctx = OperationVisitorContext::new(doc, schema);
    let mut lines = vec![];
    for ss in all_selection_sets(doc) {
        for def in &schema.definitions {
            if let s::Definition::TypeDefinition(td @ s::TypeDefinition::Object(o)) = def {
                let map = collect_fields(ss, td, &ctx.known_fragments, &ctx);
                let mut groups: Vec<String> = map
                    .iter()
                    .map(|(k, fs)| {
                        let ps: Vec<String> = fs.iter().map(|f| format!("{}@{}:{}", f.name, f.position.line, f.position.column)).collect();
                        format!("{}={}", k, ps.join(","))
                    })
                    .collect();
                groups.sort();
                lines.push(format!("S {}:{} {} | {}", ss.span.0.line, ss.span.0.column, o.name, groups.join(";")));
            }
        }
    }
    let mut out = vec!["#UNORDERED".to_string()];
    out.extend(lines);
    out.push("#ORDERED".to_string());
    out
}

//! C14: meaning-preserving rewrites of documents (on the harness's own AST) and of schemas.
use crate::gast::*;
use crate::rng::Rng;
use graphql_tools::static_graphql::schema as s;

pub const REWRITES: &[&str] = &[
    "perm-definitions", "perm-selections", "perm-arguments", "perm-variables", "rename-operations",
    "rename-fragments", "rename-variables", "rename-aliases", "wrap-inline", "inline-spread", "reparse",
    "schema-perm-definitions", "schema-perm-members",
];

fn map_sels<F: FnMut(&mut Vec<GSel>)>(sels: &mut Vec<GSel>, f: &mut F) {
    f(sels);
    for x in sels.iter_mut() {
        match x {
            GSel::Field { sels, .. } | GSel::Inline { sels, .. } => map_sels(sels, f),
            _ => {}
        }
    }
}
fn for_all_sels<F: FnMut(&mut Vec<GSel>)>(d: &mut GDoc, mut f: F) {
    for def in d.0.iter_mut() {
        match def {
            GDef::Op { sels, .. } | GDef::Frag { sels, .. } => map_sels(sels, &mut f),
        }
    }
}
fn rename_value_vars(v: &mut GValue, suffix: &str) {
    match v {
        GValue::Var(n) => n.push_str(suffix),
        GValue::List(l) => l.iter_mut().for_each(|x| rename_value_vars(x, suffix)),
        GValue::Obj(l) => l.iter_mut().for_each(|(_, x)| rename_value_vars(x, suffix)),
        _ => {}
    }
}
fn rename_dirs_vars(ds: &mut Vec<GDir>, suffix: &str) {
    for d in ds {
        for (_, v) in d.args.iter_mut() {
            rename_value_vars(v, suffix);
        }
    }
}
fn perm_dirs_args(ds: &mut Vec<GDir>, rng: &mut Rng) {
    for d in ds {
        rng.shuffle(&mut d.args);
    }
}

pub fn rewrite_doc(doc: &GDoc, kind: &str, rng: &mut Rng) -> Option<GDoc> {
    let mut d = doc.clone();
    match kind {
        "perm-definitions" => {
            if d.0.len() < 2 {
                return None;
            }
            let before = d.0.clone();
            for _ in 0..4 {
                rng.shuffle(&mut d.0);
                if d.0 != before {
                    break;
                }
            }
        }
        "perm-selections" => {
            let mut changed = false;
            let mut r = rng.fork();
            for_all_sels(&mut d, |sels| {
                if sels.len() >= 2 && r.pct(60) {
                    let before = sels.clone();
                    r.shuffle(sels);
                    if *sels != before {
                        changed = true;
                    }
                }
            });
            if !changed {
                return None;
            }
        }
        "perm-arguments" => {
            let mut r = rng.fork();
            for def in d.0.iter_mut() {
                match def {
                    GDef::Op { dirs, .. } | GDef::Frag { dirs, .. } => perm_dirs_args(dirs, &mut r),
                }
            }
            for_all_sels(&mut d, |sels| {
                for x in sels.iter_mut() {
                    match x {
                        GSel::Field { args, dirs, .. } => {
                            r.shuffle(args);
                            perm_dirs_args(dirs, &mut r);
                        }
                        GSel::Spread { dirs, .. } | GSel::Inline { dirs, .. } => perm_dirs_args(dirs, &mut r),
                    }
                }
            });
            if d == *doc {
                return None;
            }
        }
        "perm-variables" => {
            for def in d.0.iter_mut() {
                if let GDef::Op { vars, .. } = def {
                    rng.shuffle(vars);
                }
            }
            if d == *doc {
                return None;
            }
        }
        "rename-operations" => {
            for def in d.0.iter_mut() {
                if let GDef::Op { name: Some(n), .. } = def {
                    n.push_str("Renamed");
                }
            }
            if d == *doc {
                return None;
            }
        }
        "rename-fragments" => {
            for def in d.0.iter_mut() {
                if let GDef::Frag { name, .. } = def {
                    name.push_str("Rn");
                }
            }
            for_all_sels(&mut d, |sels| {
                for x in sels.iter_mut() {
                    if let GSel::Spread { name, .. } = x {
                        name.push_str("Rn");
                    }
                }
            });
            if d == *doc {
                return None;
            }
        }
        "rename-variables" => {
            for def in d.0.iter_mut() {
                match def {
                    GDef::Op { vars, dirs, .. } => {
                        for v in vars.iter_mut() {
                            v.name.push_str("Rn");
                            if let Some(dv) = v.default.as_mut() {
                                rename_value_vars(dv, "Rn");
                            }
                        }
                        rename_dirs_vars(dirs, "Rn");
                    }
                    GDef::Frag { dirs, .. } => rename_dirs_vars(dirs, "Rn"),
                }
            }
            for_all_sels(&mut d, |sels| {
                for x in sels.iter_mut() {
                    match x {
                        GSel::Field { args, dirs, .. } => {
                            for (_, v) in args.iter_mut() {
                                rename_value_vars(v, "Rn");
                            }
                            rename_dirs_vars(dirs, "Rn");
                        }
                        GSel::Spread { dirs, .. } | GSel::Inline { dirs, .. } => rename_dirs_vars(dirs, "Rn"),
                    }
                }
            });
            if d == *doc {
                return None;
            }
        }
        "rename-aliases" => {
            // response keys that also occur as plain field names must keep their spelling
            let mut plain: Vec<String> = vec![];
            let mut dd = d.clone();
            for_all_sels(&mut dd, |sels| {
                for x in sels.iter() {
                    if let GSel::Field { alias: None, name, .. } = x {
                        plain.push(name.clone());
                    }
                }
            });
            for_all_sels(&mut d, |sels| {
                for x in sels.iter_mut() {
                    if let GSel::Field { alias: Some(a), .. } = x {
                        if !plain.contains(a) {
                            a.push_str("Rn");
                        }
                    }
                }
            });
            if d == *doc {
                return None;
            }
        }
        "wrap-inline" => {
            let mut r = rng.fork();
            let mut changed = false;
            for_all_sels(&mut d, |sels| {
                if !sels.is_empty() && r.pct(35) {
                    // wrap a contiguous part of the list
                    let a = r.below(sels.len());
                    let b = r.range(a, sels.len() - 1);
                    let part: Vec<GSel> = sels[a..=b].to_vec();
                    sels.splice(a..=b, [GSel::Inline { tc: None, dirs: vec![], sels: part }]);
                    changed = true;
                }
            });
            if !changed {
                return None;
            }
        }
        "inline-spread" => {
            // a fragment without directives that does not (transitively) spread itself
            fn spreads(s: &[GSel], out: &mut Vec<String>) {
                for x in s {
                    match x {
                        GSel::Spread { name, .. } => out.push(name.clone()),
                        GSel::Field { sels, .. } | GSel::Inline { sels, .. } => spreads(sels, out),
                    }
                }
            }
            let frags: Vec<(String, String, Vec<GSel>)> = d.0.iter().filter_map(|x| match x {
                GDef::Frag { name, tc, dirs, sels } if dirs.is_empty() => Some((name.clone(), tc.clone(), sels.clone())),
                _ => None,
            }).collect();
            let names: Vec<String> = d.0.iter().filter_map(|x| match x { GDef::Frag { name, .. } => Some(name.clone()), _ => None }).collect();
            let mut candidates = vec![];
            for (n, tc, sels) in &frags {
                if names.iter().filter(|x| *x == n).count() != 1 {
                    continue;
                }
                // reachable set
                let mut seen: Vec<String> = vec![];
                let mut pending = vec![];
                spreads(sels, &mut pending);
                while let Some(x) = pending.pop() {
                    if seen.contains(&x) {
                        continue;
                    }
                    seen.push(x.clone());
                    for def in &d.0 {
                        if let GDef::Frag { name, sels, .. } = def {
                            if *name == x {
                                spreads(sels, &mut pending);
                            }
                        }
                    }
                }
                if !seen.contains(n) {
                    candidates.push((n.clone(), tc.clone(), sels.clone()));
                }
            }
            if candidates.is_empty() {
                return None;
            }
            let (fname, tc, fsels) = candidates[rng.below(candidates.len())].clone();
            let mut done = false;
            for_all_sels(&mut d, |sels| {
                for x in sels.iter_mut() {
                    let hit = matches!(x, GSel::Spread { name, dirs } if *name == fname && dirs.is_empty());
                    if hit {
                        *x = GSel::Inline { tc: Some(tc.clone()), dirs: vec![], sels: fsels.clone() };
                        done = true;
                    }
                }
            });
            if !done {
                return None;
            }
            // drop the definition if nothing spreads it any more
            let mut still = vec![];
            for def in &d.0 {
                match def {
                    GDef::Op { sels, .. } | GDef::Frag { sels, .. } => spreads(sels, &mut still),
                }
            }
            if !still.contains(&fname) {
                d.0.retain(|x| !matches!(x, GDef::Frag { name, .. } if *name == fname));
            }
        }
        _ => return None,
    }
    Some(d)
}

pub fn rewrite_schema(doc: &s::Document, kind: &str, rng: &mut Rng) -> Option<s::Document> {
    let mut d = doc.clone();
    match kind {
        "schema-perm-definitions" => {
            rng.shuffle(&mut d.definitions);
        }
        "schema-perm-members" => {
            for def in d.definitions.iter_mut() {
                if let s::Definition::TypeDefinition(t) = def {
                    match t {
                        s::TypeDefinition::Object(o) => {
                            rng.shuffle(&mut o.fields);
                            rng.shuffle(&mut o.implements_interfaces);
                            for f in o.fields.iter_mut() {
                                rng.shuffle(&mut f.arguments);
                            }
                        }
                        s::TypeDefinition::Interface(o) => {
                            rng.shuffle(&mut o.fields);
                            rng.shuffle(&mut o.implements_interfaces);
                        }
                        s::TypeDefinition::Union(o) => rng.shuffle(&mut o.types),
                        s::TypeDefinition::Enum(o) => rng.shuffle(&mut o.values),
                        s::TypeDefinition::InputObject(o) => rng.shuffle(&mut o.fields),
                        _ => {}
                    }
                }
            }
        }
        _ => return None,
    }
    if d == *doc {
        return None;
    }
    Some(d)
}

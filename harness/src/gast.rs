//! The harness's own small document AST (generation, mutation, shrinking, printing).
//! The implementation and the model never see this: they see what graphql-parser makes of the
//! printed text.
use std::fmt::Write;

#[derive(Clone, Debug, PartialEq)]
pub enum GValue {
    Var(String),
    Int(i64),
    Float(String),
    Str(String),
    Bool(bool),
    Null,
    Enum(String),
    List(Vec<GValue>),
    Obj(Vec<(String, GValue)>),
}

#[derive(Clone, Debug, PartialEq)]
pub enum GType {
    Named(String),
    List(Box<GType>),
    NonNull(Box<GType>),
}

impl GType {
    pub fn print(&self) -> String {
        match self {
            GType::Named(n) => n.clone(),
            GType::List(c) => format!("[{}]", c.print()),
            GType::NonNull(c) => format!("{}!", c.print()),
        }
    }
    pub fn inner(&self) -> &str {
        match self {
            GType::Named(n) => n,
            GType::List(c) | GType::NonNull(c) => c.inner(),
        }
    }
}

#[derive(Clone, Debug, PartialEq)]
pub struct GDir {
    pub name: String,
    pub args: Vec<(String, GValue)>,
}

#[derive(Clone, Debug, PartialEq)]
pub enum GSel {
    Field { alias: Option<String>, name: String, args: Vec<(String, GValue)>, dirs: Vec<GDir>, sels: Vec<GSel> },
    Spread { name: String, dirs: Vec<GDir> },
    Inline { tc: Option<String>, dirs: Vec<GDir>, sels: Vec<GSel> },
}

#[derive(Clone, Debug, PartialEq)]
pub struct GVar {
    pub name: String,
    pub ty: GType,
    pub default: Option<GValue>,
}

#[derive(Clone, Copy, Debug, PartialEq, Eq)]
pub enum OpKind {
    SelSet,
    Query,
    Mutation,
    Subscription,
}

#[derive(Clone, Debug, PartialEq)]
pub enum GDef {
    Op { kind: OpKind, name: Option<String>, vars: Vec<GVar>, dirs: Vec<GDir>, sels: Vec<GSel> },
    Frag { name: String, tc: String, dirs: Vec<GDir>, sels: Vec<GSel> },
}

#[derive(Clone, Debug, PartialEq)]
pub struct GDoc(pub Vec<GDef>);

pub fn print_value(v: &GValue, o: &mut String) {
    match v {
        GValue::Var(n) => {
            o.push('$');
            o.push_str(n)
        }
        GValue::Int(i) => write!(o, "{}", i).unwrap(),
        GValue::Float(f) => o.push_str(f),
        GValue::Str(s) => {
            o.push('"');
            for ch in s.chars() {
                match ch {
                    '"' => o.push_str("\\\""),
                    '\\' => o.push_str("\\\\"),
                    '\n' => o.push_str("\\n"),
                    c => o.push(c),
                }
            }
            o.push('"');
        }
        GValue::Bool(b) => o.push_str(if *b { "true" } else { "false" }),
        GValue::Null => o.push_str("null"),
        GValue::Enum(n) => o.push_str(n),
        GValue::List(l) => {
            o.push('[');
            for (i, x) in l.iter().enumerate() {
                if i > 0 {
                    o.push_str(", ");
                }
                print_value(x, o);
            }
            o.push(']');
        }
        GValue::Obj(l) => {
            o.push('{');
            for (i, (k, x)) in l.iter().enumerate() {
                if i > 0 {
                    o.push_str(", ");
                }
                o.push_str(k);
                o.push_str(": ");
                print_value(x, o);
            }
            o.push('}');
        }
    }
}

fn print_args(a: &[(String, GValue)], o: &mut String) {
    if a.is_empty() {
        return;
    }
    o.push('(');
    for (i, (n, v)) in a.iter().enumerate() {
        if i > 0 {
            o.push_str(", ");
        }
        o.push_str(n);
        o.push_str(": ");
        print_value(v, o);
    }
    o.push(')');
}

fn print_dirs(d: &[GDir], o: &mut String) {
    for x in d {
        o.push_str(" @");
        o.push_str(&x.name);
        print_args(&x.args, o);
    }
}

fn indent(n: usize, o: &mut String) {
    for _ in 0..n {
        o.push_str("  ");
    }
}

pub fn print_sels(s: &[GSel], lvl: usize, o: &mut String) {
    o.push_str("{\n");
    for x in s {
        indent(lvl + 1, o);
        match x {
            GSel::Field { alias, name, args, dirs, sels } => {
                if let Some(a) = alias {
                    o.push_str(a);
                    o.push_str(": ");
                }
                o.push_str(name);
                print_args(args, o);
                print_dirs(dirs, o);
                if !sels.is_empty() {
                    o.push(' ');
                    print_sels(sels, lvl + 1, o);
                }
            }
            GSel::Spread { name, dirs } => {
                o.push_str("...");
                o.push_str(name);
                print_dirs(dirs, o);
            }
            GSel::Inline { tc, dirs, sels } => {
                o.push_str("...");
                if let Some(t) = tc {
                    o.push_str(" on ");
                    o.push_str(t);
                }
                print_dirs(dirs, o);
                o.push(' ');
                print_sels(sels, lvl + 1, o);
            }
        }
        o.push('\n');
    }
    indent(lvl, o);
    o.push('}');
}

impl GDoc {
    pub fn print(&self) -> String {
        let mut o = String::new();
        for d in &self.0 {
            match d {
                GDef::Op { kind, name, vars, dirs, sels } => {
                    match kind {
                        OpKind::SelSet => {}
                        OpKind::Query => o.push_str("query"),
                        OpKind::Mutation => o.push_str("mutation"),
                        OpKind::Subscription => o.push_str("subscription"),
                    }
                    if *kind != OpKind::SelSet {
                        if let Some(n) = name {
                            o.push(' ');
                            o.push_str(n);
                        }
                        if !vars.is_empty() {
                            o.push('(');
                            for (i, v) in vars.iter().enumerate() {
                                if i > 0 {
                                    o.push_str(", ");
                                }
                                write!(o, "${}: {}", v.name, v.ty.print()).unwrap();
                                if let Some(d) = &v.default {
                                    o.push_str(" = ");
                                    print_value(d, &mut o);
                                }
                            }
                            o.push(')');
                        }
                        print_dirs(dirs, &mut o);
                        o.push(' ');
                    }
                    print_sels(sels, 0, &mut o);
                }
                GDef::Frag { name, tc, dirs, sels } => {
                    write!(o, "fragment {} on {}", name, tc).unwrap();
                    print_dirs(dirs, &mut o);
                    o.push(' ');
                    print_sels(sels, 0, &mut o);
                }
            }
            o.push('\n');
        }
        o
    }
}

/// number of nodes (rough size measure used in distributions)
pub fn sel_count(s: &[GSel]) -> usize {
    s.iter()
        .map(|x| match x {
            GSel::Field { sels, args, dirs, .. } => 1 + args.len() + dirs.len() + sel_count(sels),
            GSel::Spread { dirs, .. } => 1 + dirs.len(),
            GSel::Inline { sels, dirs, .. } => 1 + dirs.len() + sel_count(sels),
        })
        .sum()
}
pub fn sel_depth(s: &[GSel]) -> usize {
    1 + s
        .iter()
        .map(|x| match x {
            GSel::Field { sels, .. } | GSel::Inline { sels, .. } => {
                if sels.is_empty() {
                    0
                } else {
                    sel_depth(sels)
                }
            }
            _ => 0,
        })
        .max()
        .unwrap_or(0)
}

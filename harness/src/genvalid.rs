//! Type-directed generator of documents that are valid by construction (and are additionally
//! filtered by the specification oracle, so "valid" is decided by the specification, not here),
//! plus single-violation mutation operators (one per way a rule can be violated).
use crate::gast::*;
use crate::gen::*;
use crate::rng::Rng;
use graphql_tools::static_graphql::{query as q, schema as s};

pub struct VGen<'a> {
    pub rng: Rng,
    pub si: &'a SchemaInfo,
    pub max_depth: usize,
    alias_ctr: usize,
    var_ctr: usize,
    /// variables of the operation being generated (None while generating a fragment)
    vars: Option<Vec<GVar>>,
}

fn is_composite(t: &s::TypeDefinition) -> bool {
    matches!(t, s::TypeDefinition::Object(_) | s::TypeDefinition::Interface(_) | s::TypeDefinition::Union(_))
}

impl<'a> VGen<'a> {
    pub fn new(rng: Rng, si: &'a SchemaInfo, max_depth: usize) -> VGen<'a> {
        VGen { rng, si, max_depth, alias_ctr: 0, var_ctr: 0, vars: None }
    }

    fn possible_objects(&self, t: &s::TypeDefinition) -> Vec<String> {
        match t {
            s::TypeDefinition::Object(o) => vec![o.name.clone()],
            s::TypeDefinition::Interface(i) => self
                .si
                .types()
                .into_iter()
                .filter_map(|x| match x {
                    s::TypeDefinition::Object(o) if o.implements_interfaces.contains(&i.name) => Some(o.name.clone()),
                    _ => None,
                })
                .collect(),
            s::TypeDefinition::Union(u) => u.types.clone(),
            _ => vec![],
        }
    }

    /// composite types whose possible objects intersect those of `t`
    fn overlapping(&self, t: &s::TypeDefinition) -> Vec<String> {
        let mine = self.possible_objects(t);
        self.si
            .types()
            .into_iter()
            .filter(|x| is_composite(x))
            .filter(|x| tname(x) == tname(t) || self.possible_objects(x).iter().any(|o| mine.contains(o)))
            .map(|x| tname(x).to_string())
            .collect()
    }

    fn q_to_g(t: &q::Type) -> GType {
        to_gtype(t)
    }

    /// a literal (or variable) coercible to `t`
    fn value(&mut self, t: &q::Type, depth: usize, allow_var: bool) -> GValue {
        if allow_var && self.vars.is_some() && self.rng.pct(18) {
            // a fresh variable of exactly this type (or its non-null version)
            self.var_ctr += 1;
            let name = format!("v{}", self.var_ctr);
            let mut ty = Self::q_to_g(t);
            if !matches!(ty, GType::NonNull(_)) && self.rng.pct(30) {
                ty = GType::NonNull(Box::new(ty));
            }
            let default = if !matches!(ty, GType::NonNull(_)) && self.rng.pct(30) {
                Some(self.value(t, depth + 1, false))
            } else {
                None
            };
            self.vars.as_mut().unwrap().push(GVar { name: name.clone(), ty, default });
            return GValue::Var(name);
        }
        match t {
            q::Type::NonNullType(c) => {
                let v = self.value(c, depth, false);
                if v == GValue::Null {
                    self.nonnull_fallback(c)
                } else {
                    v
                }
            }
            q::Type::ListType(c) => {
                let r = self.rng.below(100);
                if r < 8 {
                    GValue::Null
                } else if r < 80 || depth > 2 {
                    let n = if depth > 2 { 0 } else { self.rng.below(3) };
                    GValue::List((0..n).map(|_| self.value(c, depth + 1, allow_var)).collect())
                } else {
                    // a lone item
                    let v = self.value(c, depth + 1, false);
                    if matches!(v, GValue::List(_)) { GValue::List(vec![]) } else { v }
                }
            }
            q::Type::NamedType(n) => {
                if self.rng.pct(6) {
                    return GValue::Null;
                }
                self.named_value(n, depth, allow_var)
            }
        }
    }

    fn nonnull_fallback(&mut self, c: &q::Type) -> GValue {
        match c {
            q::Type::ListType(_) => GValue::List(vec![]),
            q::Type::NamedType(n) => self.named_value(n, 3, false),
            q::Type::NonNullType(i) => self.nonnull_fallback(i),
        }
    }

    fn named_value(&mut self, n: &str, depth: usize, allow_var: bool) -> GValue {
        match n {
            "Int" => GValue::Int(*self.rng.pick(&[0i64, 1, -1, 42, 2147483647, -2147483648])),
            "Float" => {
                if self.rng.pct(30) {
                    GValue::Int(7)
                } else {
                    GValue::Float(self.rng.pick(&["1.5", "0.0", "-2.25", "1e3"]).to_string())
                }
            }
            "String" => GValue::Str(self.rng.pick(&["", "x", "hello world"]).to_string()),
            "Boolean" => GValue::Bool(self.rng.pct(50)),
            "ID" => {
                if self.rng.pct(50) {
                    GValue::Int(5)
                } else {
                    GValue::Str("id1".to_string())
                }
            }
            _ => match self.si.type_by_name(n) {
                Some(s::TypeDefinition::Enum(e)) if !e.values.is_empty() => GValue::Enum(self.rng.pick(&e.values).name.clone()),
                Some(s::TypeDefinition::InputObject(io)) => {
                    let mut out = vec![];
                    for f in &io.fields {
                        let required = matches!(f.value_type, q::Type::NonNullType(_)) && f.default_value.is_none();
                        if required || (depth < 2 && self.rng.pct(40)) {
                            out.push((f.name.clone(), self.value(&f.value_type, depth + 1, allow_var)));
                        }
                    }
                    GValue::Obj(out)
                }
                Some(s::TypeDefinition::Scalar(_)) => {
                    // custom scalar: anything
                    match self.rng.below(4) {
                        0 => GValue::Str("2020-01-01".into()),
                        1 => GValue::Int(3),
                        2 => GValue::List(vec![GValue::Int(1)]),
                        _ => GValue::Obj(vec![("a".into(), GValue::Bool(true))]),
                    }
                }
                _ => GValue::Null,
            },
        }
    }

    fn args(&mut self, defs: &[s::InputValue]) -> Vec<(String, GValue)> {
        let mut out = vec![];
        for d in defs {
            let required = matches!(d.value_type, q::Type::NonNullType(_)) && d.default_value.is_none();
            if required || self.rng.pct(45) {
                out.push((d.name.clone(), self.value(&d.value_type, 0, true)));
            }
        }
        if self.rng.pct(30) {
            self.rng.shuffle(&mut out);
        }
        out
    }

    fn dirs(&mut self, loc: &str) -> Vec<GDir> {
        let mut out: Vec<GDir> = vec![];
        if !self.rng.pct(15) {
            return out;
        }
        let cands: Vec<&s::DirectiveDefinition> =
            self.si.directives().into_iter().filter(|d| d.locations.iter().any(|l| l.as_str() == loc)).collect();
        if cands.is_empty() {
            return out;
        }
        let n = self.rng.range(1, 2);
        for _ in 0..n {
            let d = cands[self.rng.below(cands.len())];
            if !d.repeatable && out.iter().any(|x| x.name == d.name) {
                continue;
            }
            let args = self.args(&d.arguments);
            out.push(GDir { name: d.name.clone(), args });
        }
        out
    }

    fn fresh_alias(&mut self) -> String {
        self.alias_ctr += 1;
        format!("k{}", self.alias_ctr)
    }

    pub fn sels(&mut self, parent: &s::TypeDefinition, depth: usize, frags: &[(String, String)]) -> Vec<GSel> {
        let mut out = vec![];
        let n = self.rng.range(1, 4);
        for _ in 0..n {
            let r = self.rng.below(100);
            let fields = tfields(parent);
            if r < 62 || depth >= self.max_depth {
                if fields.is_empty() || self.rng.pct(8) {
                    out.push(GSel::Field { alias: if self.rng.pct(50) { Some(self.fresh_alias()) } else { None }, name: "__typename".into(), args: vec![], dirs: vec![], sels: vec![] });
                    continue;
                }
                let def = &fields[self.rng.below(fields.len())];
                let args = self.args(&def.arguments);
                let dirs = self.dirs("FIELD");
                let child = self.si.type_by_name(inner_name(&def.field_type));
                let sels = match child {
                    Some(ct) if is_composite(ct) => {
                        if depth < self.max_depth {
                            self.sels(ct, depth + 1, frags)
                        } else {
                            vec![GSel::Field { alias: None, name: "__typename".into(), args: vec![], dirs: vec![], sels: vec![] }]
                        }
                    }
                    _ => vec![],
                };
                // a unique response key, so that nothing has to merge (identical duplicates are added below)
                let f = GSel::Field { alias: Some(self.fresh_alias()), name: def.name.clone(), args, dirs, sels };
                if self.rng.pct(10) {
                    out.push(f.clone()); // an identical field merges trivially
                }
                out.push(f);
            } else if r < 80 {
                let ov = self.overlapping(parent);
                let tc = if self.rng.pct(25) || ov.is_empty() { None } else { Some(self.rng.pick(&ov).clone()) };
                let t = match &tc {
                    Some(n) => self.si.type_by_name(n).unwrap(),
                    None => parent,
                };
                let dirs = self.dirs("INLINE_FRAGMENT");
                let sels = self.sels(t, depth + 1, frags);
                out.push(GSel::Inline { tc, dirs, sels });
            } else {
                let ov = self.overlapping(parent);
                let cands: Vec<&(String, String)> = frags.iter().filter(|(_, tc)| ov.contains(tc)).collect();
                if cands.is_empty() {
                    continue;
                }
                let (name, _) = cands[self.rng.below(cands.len())];
                let dirs = self.dirs("FRAGMENT_SPREAD");
                out.push(GSel::Spread { name: name.clone(), dirs });
            }
        }
        if out.is_empty() {
            out.push(GSel::Field { alias: None, name: "__typename".into(), args: vec![], dirs: vec![], sels: vec![] });
        }
        out
    }

    pub fn doc(&mut self) -> GDoc {
        let comps = self.si.composite_names();
        let nfrags = self.rng.below(4);
        // fragment i may only spread fragments j > i: no cycles
        let mut frags: Vec<(String, String)> = (0..nfrags).map(|i| (format!("F{}", i), self.rng.pick(&comps).clone())).collect();
        let mut frag_defs: Vec<GDef> = vec![];
        for i in 0..nfrags {
            let (name, tc) = frags[i].clone();
            let t = self.si.type_by_name(&tc).unwrap();
            self.vars = None;
            let later: Vec<(String, String)> = frags[i + 1..].to_vec();
            let dirs = self.dirs("FRAGMENT_DEFINITION");
            let sels = self.sels(t, 1, &later);
            frag_defs.push(GDef::Frag { name, tc, dirs, sels });
        }
        let kinds: Vec<OpKind> = [OpKind::Query, OpKind::Mutation, OpKind::Subscription, OpKind::SelSet]
            .iter()
            .cloned()
            .filter(|k| self.si.root(*k).is_some())
            .collect();
        let nops = if self.rng.pct(70) { 1 } else { self.rng.range(2, 3) };
        let mut defs: Vec<GDef> = vec![];
        for i in 0..nops {
            let mut kind = *self.rng.pick(&kinds);
            if nops > 1 && kind == OpKind::SelSet {
                kind = OpKind::Query;
            }
            let root = self.si.type_by_name(&self.si.root(kind).unwrap()).unwrap();
            self.vars = Some(vec![]);
            let dirs = if kind == OpKind::SelSet {
                vec![]
            } else {
                self.dirs(match kind {
                    OpKind::Mutation => "MUTATION",
                    OpKind::Subscription => "SUBSCRIPTION",
                    _ => "QUERY",
                })
            };
            let mut sels = if kind == OpKind::Subscription {
                // exactly one root field
                let fields = tfields(root);
                let def = &fields[self.rng.below(fields.len())];
                let args = self.args(&def.arguments);
                let child = self.si.type_by_name(inner_name(&def.field_type));
                let sub = match child {
                    Some(ct) if is_composite(ct) => self.sels(ct, 1, &frags),
                    _ => vec![],
                };
                vec![GSel::Field { alias: None, name: def.name.clone(), args, dirs: vec![], sels: sub }]
            } else {
                self.sels(root, 0, &frags)
            };
            let mut vars = self.vars.take().unwrap();
            if kind == OpKind::SelSet && !vars.is_empty() {
                kind = OpKind::Query;
            }
            let name = if nops > 1 || self.rng.pct(60) { Some(format!("Op{}", i)) } else { None };
            if kind == OpKind::SelSet {
                vars.clear();
            }
            if sels.is_empty() {
                sels.push(GSel::Field { alias: None, name: "__typename".into(), args: vec![], dirs: vec![], sels: vec![] });
            }
            defs.push(GDef::Op { kind, name: if kind == OpKind::SelSet { None } else { name }, vars, dirs, sels });
        }
        // keep only the fragments reachable from the operations
        let mut used: Vec<String> = vec![];
        fn spreads(s: &[GSel], out: &mut Vec<String>) {
            for x in s {
                match x {
                    GSel::Spread { name, .. } => out.push(name.clone()),
                    GSel::Field { sels, .. } | GSel::Inline { sels, .. } => spreads(sels, out),
                }
            }
        }
        let mut pending: Vec<String> = vec![];
        for d in &defs {
            if let GDef::Op { sels, .. } = d {
                spreads(sels, &mut pending);
            }
        }
        while let Some(n) = pending.pop() {
            if used.contains(&n) {
                continue;
            }
            used.push(n.clone());
            for d in &frag_defs {
                if let GDef::Frag { name, sels, .. } = d {
                    if *name == n {
                        spreads(sels, &mut pending);
                    }
                }
            }
        }
        frags.retain(|(n, _)| used.contains(n));
        for d in frag_defs {
            if let GDef::Frag { ref name, .. } = d {
                if used.contains(name) {
                    defs.push(d);
                }
            }
        }
        if self.rng.pct(30) {
            self.rng.shuffle(&mut defs);
        }
        GDoc(defs)
    }
}

// ---------------------------------------------------------------- single-violation operators
pub const MUTATIONS: &[&str] = &[
    "unknown-field", "leaf-with-selection", "composite-without-selection", "duplicate-operation-name",
    "second-anonymous-operation", "subscription-two-roots", "subscription-aliased-twice", "unknown-type-condition",
    "scalar-type-condition", "variable-of-object-type", "duplicate-fragment", "unknown-spread", "unused-fragment",
    "fragment-cycle-deep", "impossible-spread", "undefined-variable", "unused-variable", "duplicate-variable",
    "variable-wrong-position", "bad-literal", "unknown-argument", "duplicate-argument", "unknown-directive",
    "misplaced-directive", "duplicate-directive", "merge-different-fields", "merge-different-args", "typename-with-selection",
    "int-out-of-range", "list-for-scalar",
];

fn first_field_mut(sels: &mut Vec<GSel>) -> Option<&mut GSel> {
    for x in sels.iter_mut() {
        match x {
            GSel::Field { .. } => return Some(x),
            GSel::Inline { sels, .. } => {
                if let Some(f) = first_field_mut(sels) {
                    return Some(f);
                }
            }
            _ => {}
        }
    }
    None
}

/// the selection list `depth` levels down the first chain of fields (as deep as possible)
fn descend<'b>(sels: &'b mut Vec<GSel>, depth: usize) -> &'b mut Vec<GSel> {
    if depth == 0 {
        return sels;
    }
    let idx = sels.iter().position(|x| matches!(x, GSel::Field { sels, .. } if !sels.is_empty()));
    match idx {
        Some(i) => match &mut sels[i] {
            GSel::Field { sels: inner, .. } => descend(inner, depth - 1),
            _ => unreachable!(),
        },
        None => sels,
    }
}

fn field(name: &str) -> GSel {
    GSel::Field { alias: None, name: name.into(), args: vec![], dirs: vec![], sels: vec![] }
}

/// apply mutation `m` to a valid document; returns None when it is not applicable
pub fn mutate(doc: &GDoc, m: &str, rng: &mut Rng, si: &SchemaInfo) -> Option<GDoc> {
    let mut d = doc.clone();
    let op_idx = d.0.iter().position(|x| matches!(x, GDef::Op { .. }))?;
    let depth = rng.below(4);
    match m {
        "unknown-field" => {
            if let GDef::Op { sels, .. } = &mut d.0[op_idx] {
                descend(sels, depth).push(field("zzUnknownField"));
            }
        }
        "leaf-with-selection" => {
            // find a leaf field and give it a sub-selection
            fn go(s: &mut Vec<GSel>) -> bool {
                for x in s.iter_mut() {
                    match x {
                        GSel::Field { sels, name, .. } if sels.is_empty() && name != "__typename" => {
                            sels.push(GSel::Field { alias: None, name: "__typename".into(), args: vec![], dirs: vec![], sels: vec![] });
                            return true;
                        }
                        GSel::Field { sels, .. } | GSel::Inline { sels, .. } => {
                            if go(sels) {
                                return true;
                            }
                        }
                        _ => {}
                    }
                }
                false
            }
            if let GDef::Op { sels, .. } = &mut d.0[op_idx] {
                if !go(sels) {
                    return None;
                }
            }
        }
        "typename-with-selection" => {
            if let GDef::Op { sels, kind, .. } = &mut d.0[op_idx] {
                if *kind == OpKind::Subscription {
                    return None;
                }
                descend(sels, depth).push(GSel::Field { alias: Some("tn".into()), name: "__typename".into(), args: vec![], dirs: vec![], sels: vec![field("a")] });
            }
        }
        "composite-without-selection" => {
            fn go(s: &mut Vec<GSel>) -> bool {
                for x in s.iter_mut() {
                    match x {
                        GSel::Field { sels, .. } if !sels.is_empty() => {
                            sels.clear();
                            return true;
                        }
                        GSel::Inline { sels, .. } => {
                            if go(sels) {
                                return true;
                            }
                        }
                        _ => {}
                    }
                }
                false
            }
            if let GDef::Op { sels, .. } = &mut d.0[op_idx] {
                if !go(sels) {
                    return None;
                }
            }
        }
        "duplicate-operation-name" => {
            let copy = d.0[op_idx].clone();
            if let GDef::Op { kind, name, vars, dirs, sels } = copy {
                if kind == OpKind::SelSet {
                    return None;
                }
                let n = name.clone().unwrap_or_else(|| "Dup".to_string());
                d.0[op_idx] = GDef::Op { kind, name: Some(n.clone()), vars: vars.clone(), dirs: dirs.clone(), sels: sels.clone() };
                d.0.push(GDef::Op { kind, name: Some(n), vars, dirs, sels });
            }
        }
        "second-anonymous-operation" => {
            if si.root(OpKind::Query).is_none() {
                return None;
            }
            d.0.push(GDef::Op { kind: OpKind::SelSet, name: None, vars: vec![], dirs: vec![], sels: vec![field("__typename")] });
        }
        "subscription-two-roots" | "subscription-aliased-twice" => {
            let root = si.root(OpKind::Subscription)?;
            let t = si.type_by_name(&root)?;
            let fields: Vec<&s::Field> = tfields(t).iter().filter(|f| f.arguments.iter().all(|a| !matches!(a.value_type, q::Type::NonNullType(_)) || a.default_value.is_some())).collect();
            let leafs: Vec<&&s::Field> = fields.iter().filter(|f| !matches!(si.type_by_name(inner_name(&f.field_type)), Some(t) if is_composite(t))).collect();
            if leafs.is_empty() {
                return None;
            }
            let f0 = leafs[0].name.clone();
            let sels = if m == "subscription-two-roots" {
                if leafs.len() >= 2 {
                    vec![field(&f0), field(&leafs[1].name)]
                } else {
                    vec![field(&f0), GSel::Field { alias: Some("other".into()), name: f0.clone(), args: vec![], dirs: vec![], sels: vec![] }]
                }
            } else {
                vec![
                    GSel::Field { alias: Some("x".into()), name: f0.clone(), args: vec![], dirs: vec![], sels: vec![] },
                    GSel::Inline { tc: None, dirs: vec![], sels: vec![GSel::Field { alias: Some("y".into()), name: f0.clone(), args: vec![], dirs: vec![], sels: vec![] }] },
                ]
            };
            d.0.push(GDef::Op { kind: OpKind::Subscription, name: Some("SubMut".into()), vars: vec![], dirs: vec![], sels });
        }
        "unknown-type-condition" => {
            if let GDef::Op { sels, .. } = &mut d.0[op_idx] {
                descend(sels, depth).push(GSel::Inline { tc: Some("ZzNoSuchType".into()), dirs: vec![], sels: vec![field("__typename")] });
            }
        }
        "scalar-type-condition" => {
            if let GDef::Op { sels, .. } = &mut d.0[op_idx] {
                descend(sels, depth).push(GSel::Inline { tc: Some("String".into()), dirs: vec![], sels: vec![field("__typename")] });
            }
        }
        "variable-of-object-type" => {
            let comps = si.composite_names();
            if let GDef::Op { vars, kind, sels, .. } = &mut d.0[op_idx] {
                if *kind == OpKind::SelSet || comps.is_empty() {
                    return None;
                }
                vars.push(GVar { name: "objVar".into(), ty: GType::Named(comps[0].clone()), default: None });
                // keep it used, so that only the type is wrong
                sels.push(GSel::Field { alias: Some("usesObjVar".into()), name: "__typename".into(), args: vec![], dirs: vec![GDir { name: "include".into(), args: vec![("if".into(), GValue::Var("objVar".into()))] }], sels: vec![] });
            }
        }
        "duplicate-fragment" => {
            let fi = d.0.iter().position(|x| matches!(x, GDef::Frag { .. }))?;
            let c = d.0[fi].clone();
            d.0.push(c);
        }
        "unknown-spread" => {
            if let GDef::Op { sels, .. } = &mut d.0[op_idx] {
                descend(sels, depth).push(GSel::Spread { name: "ZzNoSuchFragment".into(), dirs: vec![] });
            }
        }
        "unused-fragment" => {
            let comps = si.composite_names();
            let a = rng.pct(50);
            // either plainly unused, or an unreachable pair spreading each other
            if a {
                d.0.push(GDef::Frag { name: "ZzUnused".into(), tc: comps[0].clone(), dirs: vec![], sels: vec![field("__typename")] });
            } else {
                d.0.push(GDef::Frag { name: "ZzU1".into(), tc: comps[0].clone(), dirs: vec![], sels: vec![field("__typename"), GSel::Spread { name: "ZzU2".into(), dirs: vec![] }] });
                d.0.push(GDef::Frag { name: "ZzU2".into(), tc: comps[0].clone(), dirs: vec![], sels: vec![field("__typename"), GSel::Spread { name: "ZzU1".into(), dirs: vec![] }] });
            }
        }
        "fragment-cycle-deep" => {
            // a used fragment that spreads itself `depth` levels down
            let root_kind = match &d.0[op_idx] {
                GDef::Op { kind, .. } => *kind,
                _ => return None,
            };
            if root_kind == OpKind::Subscription {
                return None;
            }
            let root = si.root(root_kind)?;
            let t = si.type_by_name(&root)?;
            // a field of the root type returning the root type or any composite with a self-typed field
            let mut inner: Vec<GSel> = vec![GSel::Spread { name: "ZzCyc".into(), dirs: vec![] }];
            for _ in 0..depth {
                inner = vec![GSel::Inline { tc: None, dirs: vec![], sels: inner }];
            }
            inner.push(field("__typename"));
            d.0.push(GDef::Frag { name: "ZzCyc".into(), tc: tname(t).to_string(), dirs: vec![], sels: inner });
            if let GDef::Op { sels, .. } = &mut d.0[op_idx] {
                sels.push(GSel::Spread { name: "ZzCyc".into(), dirs: vec![] });
            }
        }
        "impossible-spread" => {
            // an inline fragment on an object type that cannot occur in the parent
            let root_kind = match &d.0[op_idx] {
                GDef::Op { kind, .. } => *kind,
                _ => return None,
            };
            let root = si.root(root_kind)?;
            let other = si.types().into_iter().find(|t| matches!(t, s::TypeDefinition::Object(_)) && tname(t) != root)?;
            if let GDef::Op { sels, kind, .. } = &mut d.0[op_idx] {
                if *kind == OpKind::Subscription {
                    return None;
                }
                sels.push(GSel::Inline { tc: Some(tname(other).to_string()), dirs: vec![], sels: vec![field("__typename")] });
            }
        }
        "undefined-variable" => {
            if let GDef::Op { sels, .. } = &mut d.0[op_idx] {
                descend(sels, depth).push(GSel::Field { alias: Some("undefUse".into()), name: "__typename".into(), args: vec![], dirs: vec![GDir { name: "include".into(), args: vec![("if".into(), GValue::Var("zzUndefined".into()))] }], sels: vec![] });
            }
        }
        "unused-variable" => {
            if let GDef::Op { vars, kind, .. } = &mut d.0[op_idx] {
                if *kind == OpKind::SelSet {
                    return None;
                }
                vars.push(GVar { name: "zzUnused".into(), ty: GType::Named("Boolean".into()), default: None });
            }
        }
        "duplicate-variable" => {
            if let GDef::Op { vars, .. } = &mut d.0[op_idx] {
                if vars.is_empty() {
                    return None;
                }
                let c = vars[0].clone();
                vars.push(c);
            }
        }
        "variable-wrong-position" => {
            if let GDef::Op { vars, kind, sels, .. } = &mut d.0[op_idx] {
                if *kind == OpKind::SelSet {
                    return None;
                }
                let ty = if rng.pct(50) { GType::Named("String".into()) } else { GType::Named("Boolean".into()) /* nullable where Boolean! is expected */ };
                vars.push(GVar { name: "zzPos".into(), ty, default: None });
                sels.push(GSel::Field { alias: Some("posUse".into()), name: "__typename".into(), args: vec![], dirs: vec![GDir { name: "skip".into(), args: vec![("if".into(), GValue::Var("zzPos".into()))] }], sels: vec![] });
            }
        }
        "bad-literal" | "int-out-of-range" | "list-for-scalar" => {
            let v = match m {
                "bad-literal" => rng.pick(&[GValue::Str("yes".into()), GValue::Int(1), GValue::Null, GValue::Enum("TRUE".into()), GValue::Obj(vec![])]).clone(),
                "int-out-of-range" => GValue::Int(2147483648),
                _ => GValue::List(vec![GValue::Bool(true)]),
            };
            if m == "int-out-of-range" {
                // needs an Int argument: use one if the root has it, else skip
                return None.or_else(|| {
                    let mut dd = d.clone();
                    if let GDef::Op { sels, .. } = &mut dd.0[op_idx] {
                        fn go(s: &mut Vec<GSel>, v: &GValue) -> bool {
                            for x in s.iter_mut() {
                                match x {
                                    GSel::Field { args, sels, .. } => {
                                        for a in args.iter_mut() {
                                            if matches!(a.1, GValue::Int(_)) {
                                                a.1 = v.clone();
                                                return true;
                                            }
                                        }
                                        if go(sels, v) {
                                            return true;
                                        }
                                    }
                                    GSel::Inline { sels, .. } => {
                                        if go(sels, v) {
                                            return true;
                                        }
                                    }
                                    _ => {}
                                }
                            }
                            false
                        }
                        if go(sels, &v) {
                            return Some(dd);
                        }
                    }
                    None
                });
            }
            if let GDef::Op { sels, .. } = &mut d.0[op_idx] {
                descend(sels, depth).push(GSel::Field { alias: Some("badLit".into()), name: "__typename".into(), args: vec![], dirs: vec![GDir { name: "include".into(), args: vec![("if".into(), v)] }], sels: vec![] });
            }
        }
        "unknown-argument" | "duplicate-argument" => {
            if let GDef::Op { sels, .. } = &mut d.0[op_idx] {
                let tgt = descend(sels, depth);
                match first_field_mut(tgt) {
                    Some(GSel::Field { args, name, .. }) if name != "__typename" => {
                        if m == "unknown-argument" {
                            args.push(("zzUnknownArg".into(), GValue::Int(1)));
                        } else if !args.is_empty() {
                            let c = args[0].clone();
                            args.push(c);
                        } else {
                            return None;
                        }
                    }
                    _ => return None,
                }
            }
        }
        "unknown-directive" | "misplaced-directive" | "duplicate-directive" => {
            let dir = match m {
                "unknown-directive" => GDir { name: "zzUnknownDirective".into(), args: vec![] },
                "misplaced-directive" => {
                    // a declared directive that does not list FIELD
                    let dd = si.directives().into_iter().find(|x| !x.locations.iter().any(|l| l.as_str() == "FIELD") && x.arguments.iter().all(|a| !matches!(a.value_type, q::Type::NonNullType(_)) || a.default_value.is_some()))?;
                    GDir { name: dd.name.clone(), args: vec![] }
                }
                _ => GDir { name: "include".into(), args: vec![("if".into(), GValue::Bool(true))] },
            };
            if let GDef::Op { sels, .. } = &mut d.0[op_idx] {
                let ds = if m == "duplicate-directive" { vec![dir.clone(), dir] } else { vec![dir] };
                descend(sels, depth).push(GSel::Field { alias: Some("dirTest".into()), name: "__typename".into(), args: vec![], dirs: ds, sels: vec![] });
            }
        }
        "merge-different-fields" | "merge-different-args" => {
            // two fields under one response key, placed directly / behind an inline fragment / in a fragment
            let root_kind = match &d.0[op_idx] {
                GDef::Op { kind, .. } => *kind,
                _ => return None,
            };
            if root_kind == OpKind::Subscription {
                return None;
            }
            let root = si.root(root_kind)?;
            let t = si.type_by_name(&root)?;
            let fields = tfields(t);
            let (a, b): (GSel, GSel) = if m == "merge-different-fields" {
                let simple: Vec<&s::Field> = fields.iter().filter(|f| f.arguments.iter().all(|x| !matches!(x.value_type, q::Type::NonNullType(_)) || x.default_value.is_some())).collect();
                if simple.is_empty() {
                    return None;
                }
                let f1 = simple[0];
                let sub1 = if matches!(si.type_by_name(inner_name(&f1.field_type)), Some(t) if is_composite(t)) { vec![field("__typename")] } else { vec![] };
                (
                    GSel::Field { alias: Some("mk".into()), name: f1.name.clone(), args: vec![], dirs: vec![], sels: sub1 },
                    GSel::Field { alias: Some("mk".into()), name: "__typename".into(), args: vec![], dirs: vec![], sels: vec![] },
                )
            } else {
                let with_arg = fields.iter().find(|f| f.arguments.iter().any(|x| matches!(&x.value_type, q::Type::NamedType(n) if n == "Int" || n == "String" || n == "ID" || n == "Boolean")))?;
                let arg = with_arg.arguments.iter().find(|x| matches!(&x.value_type, q::Type::NamedType(n) if n == "Int" || n == "String" || n == "ID" || n == "Boolean"))?;
                let (v1, v2) = match inner_name(&arg.value_type) {
                    "Int" => (GValue::Int(1), GValue::Int(2)),
                    "Boolean" => (GValue::Bool(true), GValue::Bool(false)),
                    _ => (GValue::Str("a".into()), GValue::Str("b".into())),
                };
                let mut others: Vec<(String, GValue)> = vec![];
                for x in &with_arg.arguments {
                    if x.name != arg.name && matches!(x.value_type, q::Type::NonNullType(_)) && x.default_value.is_none() {
                        return None;
                    }
                }
                let sub = if matches!(si.type_by_name(inner_name(&with_arg.field_type)), Some(t) if is_composite(t)) { vec![field("__typename")] } else { vec![] };
                let mut a1 = others.clone();
                a1.push((arg.name.clone(), v1));
                others.push((arg.name.clone(), v2));
                (
                    GSel::Field { alias: Some("mk".into()), name: with_arg.name.clone(), args: a1, dirs: vec![], sels: sub.clone() },
                    GSel::Field { alias: Some("mk".into()), name: with_arg.name.clone(), args: others, dirs: vec![], sels: sub },
                )
            };
            let place = rng.below(3);
            if let GDef::Op { sels, .. } = &mut d.0[op_idx] {
                sels.push(a);
                match place {
                    0 => sels.push(b.clone()),
                    1 => sels.push(GSel::Inline { tc: None, dirs: vec![], sels: vec![GSel::Inline { tc: Some(root.clone()), dirs: vec![], sels: vec![b.clone()] }] }),
                    _ => {
                        sels.push(GSel::Spread { name: "ZzM1".into(), dirs: vec![] });
                    }
                }
            }
            if place == 2 {
                d.0.push(GDef::Frag { name: "ZzM1".into(), tc: root.clone(), dirs: vec![], sels: vec![GSel::Spread { name: "ZzM2".into(), dirs: vec![] }] });
                d.0.push(GDef::Frag { name: "ZzM2".into(), tc: root, dirs: vec![], sels: vec![b] });
            }
        }
        _ => return None,
    }
    Some(d)
}

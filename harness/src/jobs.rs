//! Which cases each property's check generates, and how each case is run on the implementation.
#[allow(unused_imports)]
use crate::gast::*;
use crate::gen::*;
use crate::rng::Rng;
use crate::schemas;
use crate::Case;
use graphql_tools::static_graphql::query as q;

pub fn schema_pool() -> Vec<SchemaInfo> {
    let mut v: Vec<SchemaInfo> = schemas::pool().iter().map(|(n, s)| SchemaInfo::new(n, s)).collect();
    v.push(crate::families::synth_schema());
    v.push(SchemaInfo::new("knows_nothing", schemas::KNOWS_NOTHING));
    v
}

pub fn replay_cases(path: &str) -> (Vec<SchemaInfo>, Vec<Case>) {
    let text = std::fs::read_to_string(path).expect("replay file");
    let v: serde_json::Value = serde_json::from_str(&text).expect("replay json");
    let mut schemas = vec![];
    let mut cases = vec![];
    let arr = match v.get("cases") {
        Some(serde_json::Value::Array(a)) => a.clone(),
        _ => vec![v.clone()],
    };
    for (i, c) in arr.iter().enumerate() {
        let sdl = c["schema_sdl"].as_str().unwrap_or("");
        if sdl.is_empty() {
            continue;
        }
        schemas.push(SchemaInfo::new(c["schema"].as_str().unwrap_or("replay"), sdl));
        let doc = c["doc"].as_str().unwrap_or("");
        cases.push(Case {
            id: format!("r{}", i),
            family: "replay".into(),
            schema: schemas.len() - 1,
            op: c["op"].as_str().unwrap_or("trace").to_string(),
            doc: if doc.is_empty() { None } else { Some(doc.to_string()) },
            extra: c["extra"].as_array().map(|a| a.iter().map(|x| x.as_str().unwrap_or("").to_string()).collect()).unwrap_or_default(),
            note: String::new(),
        });
    }
    (schemas, cases)
}

fn budget(tier: &str, quick: usize, thorough: usize) -> usize {
    if tier == "thorough" {
        thorough
    } else {
        quick
    }
}

/// random documents over every pool schema, in three styles, plus the same document against
/// the schema that knows none of its names
fn family_random_docs(cases: &mut Vec<Case>, pool: &[SchemaInfo], rng: &mut Rng, n: usize, op: &str, tag: &str, with_unknown_schema: bool) {
    let nothing = pool.iter().position(|s| s.name == "knows_nothing").unwrap();
    for i in 0..n {
        let si_idx = rng.below(pool.len() - 1);
        let cfg = match i % 4 {
            0 | 1 => GenCfg::mostly_valid(),
            2 => GenCfg::wild(),
            _ => GenCfg::deep(),
        };
        let style = match i % 4 {
            0 | 1 => "valid",
            2 => "wild",
            _ => "deep",
        };
        let mut g = Gen::new(rng.fork(), &pool[si_idx], cfg);
        let doc = g.gen_doc();
        let text = doc.print();
        cases.push(Case {
            id: format!("{}{}", tag, i),
            family: format!("random-{}", style),
            schema: si_idx,
            op: op.to_string(),
            doc: Some(text.clone()),
            extra: vec![],
            note: String::new(),
        });
        if with_unknown_schema && i % 5 == 0 {
            cases.push(Case {
                id: format!("{}{}u", tag, i),
                family: "unknown-schema".to_string(),
                schema: nothing,
                op: op.to_string(),
                doc: Some(text),
                extra: vec![],
                note: String::new(),
            });
        }
    }
}

pub fn corpus_docs() -> Vec<(&'static str, &'static str, &'static str)> {
    // (id, schema name, document)
    vec![
        ("nnlist", "implicit", "query($x: String) { search(nl: [$x, 1, null], req: 1) { id } listArgs(ln: [1], nln: [null], lnl: [[1], null], pn: [{x: 1}]) }"),
        ("deepcycle", "minimal", "{ t { ...A } } fragment A on T { t { t { ...A } } }"),
        ("overflow", "minimal", "{ t { a } } fragment F on T { t { ...F t { ...F } } }"),
        ("values", "implicit", "query Q($a: Int = 1, $f: Filter = {color: RED, ids: [1, \"x\"]}) { scalarArgs(i: 1, f: 1.5, s: \"x\", b: true, id: 1, d: {a: [1]}, e: RED) listArgs(l: [1, 2], ll: [[1], [2, 3]], p: [{x: 1, y: 2}, {x: 3}]) search(filter: {and: [{not: {color: BLUE}}], point: {x: 1}, ids: []}, nl: [], req: $a) { ... on Named { name(upper: true) @onF(req: true) } ...NF } } fragment NF on Node @onFD { id ... @onIF { id } }"),
        ("roots", "explicit_query_only", "mutation { x } subscription { y } query { a m { x } }"),
        ("roots2", "pets", "mutation M { deletePetByName(name: \"x\") { name } } subscription S { onNewPet { name ... on Dog { barkVolume } } }"),
        ("unknowns", "crate", "query Q { dog { nope(zz: 1) { x } name(zz: [1, {a: $v}]) @nope(a: 1) ...Missing ... on Nope { a } } } fragment F on Nope { a }"),
    ]
}

pub fn rules_of(prop: &str) -> Vec<&'static str> {
    match prop {
        "C04" => vec!["FieldsOnCorrectType", "LeafFieldSelections"],
        "C05" => vec!["OverlappingFieldsCanBeMerged"],
        "C06" => vec!["UniqueFragmentNames", "KnownFragmentNames", "KnownTypeNames", "FragmentsOnCompositeTypes", "NoUnusedFragments", "NoFragmentsCycle", "PossibleFragmentSpreads"],
        "C07" => vec!["UniqueVariableNames", "VariablesAreInputTypes", "NoUndefinedVariables", "NoUnusedVariables", "VariablesInAllowedPosition"],
        "C08" => vec!["ValuesOfCorrectType"],
        "C09" => vec!["KnownArgumentNames", "UniqueArgumentNames", "ProvidedRequiredArguments"],
        "C10" => vec!["KnownDirectives", "UniqueDirectivesPerLocation"],
        "C11" => vec!["UniqueOperationNames", "LoneAnonymousOperation", "SingleFieldSubscriptions"],
        _ => crate::op_validate::ALL_RULES.to_vec(),
    }
}

fn random_plan(rng: &mut Rng) -> Vec<&'static str> {
    let all = crate::op_validate::ALL_RULES;
    match rng.below(6) {
        0 => all.to_vec(),
        1 => vec![*rng.pick(all)],
        2 => {
            // random sub-sequence
            all.iter().filter(|_| rng.pct(40)).cloned().collect::<Vec<_>>()
        }
        3 => {
            let mut v: Vec<&'static str> = all.iter().filter(|_| rng.pct(50)).cloned().collect();
            rng.shuffle(&mut v);
            v
        }
        4 => {
            // repetitions
            let n = rng.range(2, 6);
            (0..n).map(|_| *rng.pick(all)).collect()
        }
        _ => {
            let mut v = all.to_vec();
            rng.shuffle(&mut v);
            v
        }
    }
}

pub fn cases_for(prop: &str, tier: &str, seed: u64, shard: (usize, usize)) -> (Vec<SchemaInfo>, Vec<Case>) {
    let pool = schema_pool();
    let mut rng = Rng::new(seed.wrapping_mul(1000).wrapping_add(shard.0 as u64));
    let mut cases: Vec<Case> = vec![];
    match prop {
        "C15" | "C16" => {
            if shard.0 == 0 {
                for (id, sname, doc) in corpus_docs() {
                    let si = pool.iter().position(|s| s.name == sname).unwrap();
                    cases.push(Case { id: format!("corpus-{}", id), family: "corpus".into(), schema: si, op: "trace".into(), doc: Some(doc.to_string()), extra: vec![], note: String::new() });
                }
                if prop == "C15" {
                    for (i, _) in pool.iter().enumerate() {
                        cases.push(Case { id: format!("schema-{}", i), family: "schema-visitor".into(), schema: i, op: "strace".into(), doc: None, extra: vec![], note: String::new() });
                    }
                }
            }
            let n = budget(tier, 1600, 40000) / shard.1;
            family_random_docs(&mut cases, &pool, &mut rng, n, "trace", &format!("t{}x", shard.0), true);
            for mut c in exhaustive_family(prop, tier, &mut rng, shard, &pool) {
                c.op = "trace".into();
                cases.push(c);
            }
        }
        "C13" => {
            let n = budget(tier, 1200, 30000) / shard.1;
            let mut tmp: Vec<Case> = vec![];
            family_random_docs(&mut tmp, &pool, &mut rng, n, "validate13", &format!("p{}x", shard.0), false);
            if shard.0 == 0 {
                for (id, sname, doc) in corpus_docs() {
                    let si = pool.iter().position(|s| s.name == sname).unwrap();
                    tmp.push(Case { id: format!("corpus-{}", id), family: "corpus".into(), schema: si, op: "validate13".into(), doc: Some(doc.to_string()), extra: vec![], note: String::new() });
                }
            }
            // documents on which several rules report at once (duplicate fragment names with different
            // bodies, cycles, shared variables): half of them under the real default plan
            let synth = pool.iter().position(|s| s.name == "synthetic").unwrap();
            let mut defaults: std::collections::HashSet<String> = std::collections::HashSet::new();
            for (i, d) in crate::families::shared_state_cases(&mut rng, budget(tier, 1600, 30000) / shard.1).into_iter().enumerate() {
                let id = format!("ss{}x{}", shard.0, i);
                if i % 2 == 0 {
                    defaults.insert(id.clone());
                }
                tmp.push(Case { id, family: "shared-state".into(), schema: synth, op: "validate13".into(), doc: Some(d.print()), extra: vec![], note: String::new() });
            }
            let mut uon_last: std::collections::HashSet<String> = std::collections::HashSet::new();
            for (i, d) in crate::families::multi_error_cases(&mut rng, budget(tier, 800, 15000) / shard.1).into_iter().enumerate() {
                let id = format!("me{}x{}", shard.0, i);
                if i % 2 == 0 {
                    uon_last.insert(id.clone());
                }
                tmp.push(Case { id, family: "multi-error".into(), schema: synth, op: "validate13".into(), doc: Some(d.print()), extra: vec![], note: String::new() });
            }
            for mut c in tmp {
                let mut plan = if defaults.contains(&c.id) { crate::op_validate::default_codes() } else { random_plan(&mut rng) };
                if uon_last.contains(&c.id) {
                    // every rule that reports after the walk gets a turn at the END of a plan whose earlier rules reported
                    let late = *rng.pick(&["UniqueOperationNames", "UniqueFragmentNames", "NoUnusedFragments", "NoUndefinedVariables", "NoUnusedVariables", "VariablesInAllowedPosition"]);
                    plan.retain(|r| *r != late);
                    plan.push(late);
                }
                if plan.is_empty() {
                    plan = vec!["KnownTypeNames"];
                }
                c.note = format!("plan-len={}", plan.len());
                c.extra = vec![format!("(plan {})", plan.join(" "))];
                cases.push(c);
            }
        }
        "C04" | "C05" | "C06" | "C07" | "C08" | "C09" | "C10" | "C11" => {
            let rules = rules_of(prop);
            let n = budget(tier, 1600, 40000) / shard.1;
            let mut tmp: Vec<Case> = vec![];
            family_random_docs(&mut tmp, &pool, &mut rng, n, "validate", &format!("r{}x", shard.0), false);
            if shard.0 == 0 {
                for (id, sname, doc) in corpus_docs() {
                    let si = pool.iter().position(|s| s.name == sname).unwrap();
                    tmp.push(Case { id: format!("corpus-{}", id), family: "corpus".into(), schema: si, op: "validate".into(), doc: Some(doc.to_string()), extra: vec![], note: String::new() });
                }
            }
            tmp.extend(exhaustive_family(prop, tier, &mut rng, shard, &pool));
            if prop == "C06" || prop == "C05" {
                tmp.extend(exhaustive_family("GRAPH", tier, &mut rng, shard, &pool));
            }
            for mut c in tmp {
                c.extra = vec![format!("(plan {})", rules.join(" "))];
                cases.push(c);
            }
        }
        "C01" => {
            let n = budget(tier, 2400, 60000) / shard.1;
            let all = format!("(plan {})", crate::op_validate::default_codes().join(" "));
            for i in 0..n {
                let si_idx = rng.below(pool.len() - 1);
                let depth = 2 + rng.below(4);
                let mut g = crate::genvalid::VGen::new(rng.fork(), &pool[si_idx], depth);
                let doc = g.doc();
                cases.push(Case { id: format!("ok{}x{}", shard.0, i), family: "valid-by-construction".into(), schema: si_idx, op: "validate".into(),
                    doc: Some(doc.print()), extra: vec![all.clone()], note: String::new() });
            }
            // several operations sharing a DAG of fragments that use variables: valid by construction
            {
                let synth = pool.iter().position(|s| s.name == "synthetic").unwrap();
                for (i, d) in crate::families::valid_variable_dag_cases(&mut rng, budget(tier, 1600, 40000) / shard.1).into_iter().enumerate() {
                    cases.push(Case { id: format!("vd{}x{}", shard.0, i), family: "valid-variable-dags".into(), schema: synth, op: "validate".into(),
                        doc: Some(d.print()), extra: vec![all.clone()], note: String::new() });
                }
            }
            // small exhaustive merge families whose valid members are the point: not sampled
            {
                let synth = pool.iter().position(|s| s.name == "synthetic").unwrap();
                let mut small: Vec<GDoc> = crate::families::merge_untyped_wrapper_cases();
                small.extend(crate::families::merge_argument_order_cases());
                for (i, d) in small.into_iter().enumerate() {
                    if i % shard.1 == shard.0 {
                        cases.push(Case { id: format!("ms{}x{}", shard.0, i), family: "merge-small-families".into(), schema: synth, op: "validate".into(),
                            doc: Some(d.print()), extra: vec![all.clone()], note: String::new() });
                    }
                }
            }
            // the targeted families of the rule properties (their spec-valid members count here)
            for fp in ["C04", "C05", "C06", "C07", "C08", "C09", "C10", "C11", "GRAPH"] {
                for mut c in exhaustive_family(fp, tier, &mut rng, shard, &pool) {
                    if tier != "thorough" && !rng.pct(20) {
                        continue;
                    }
                    c.id = format!("{}-{}", fp, c.id);
                    c.extra = vec![all.clone()];
                    cases.push(c);
                }
            }
        }
        "C02" => {
            let n = budget(tier, 1500, 40000) / shard.1;
            let all = format!("(plan {})", crate::op_validate::default_codes().join(" "));
            for i in 0..n {
                let si_idx = rng.below(pool.len() - 1);
                let depth = 2 + rng.below(3);
                let mut g = crate::genvalid::VGen::new(rng.fork(), &pool[si_idx], depth);
                let doc = g.doc();
                let m = crate::genvalid::MUTATIONS[(i + shard.0) % crate::genvalid::MUTATIONS.len()];
                if let Some(md) = crate::genvalid::mutate(&doc, m, &mut rng, &pool[si_idx]) {
                    cases.push(Case { id: format!("mut{}x{}", shard.0, i), family: format!("inject:{}", m), schema: si_idx, op: "validate".into(),
                        doc: Some(md.print()), extra: vec![all.clone()], note: m.to_string() });
                }
            }
            let mut tmp: Vec<Case> = vec![];
            family_random_docs(&mut tmp, &pool, &mut rng, n / 3, "validate", &format!("rnd{}x", shard.0), false);
            // the targeted families of the rule properties, all rules switched on
            for fp in ["C04", "C05", "C06", "C07", "C08", "C09", "C10", "C11", "GRAPH"] {
                for mut c in exhaustive_family(fp, tier, &mut rng, shard, &pool) {
                    if tier != "thorough" && !rng.pct(20) {
                        continue;
                    }
                    c.id = format!("{}-{}", fp, c.id);
                    tmp.push(c);
                }
            }
            for mut c in tmp {
                c.extra = vec![all.clone()];
                cases.push(c);
            }
        }
        "C12" => {
            let n = budget(tier, 320, 6000) / shard.1;
            let mut tmp: Vec<Case> = vec![];
            family_random_docs(&mut tmp, &pool, &mut rng, n, "purity", &format!("h{}x", shard.0), false);
            let minimal = pool.iter().position(|s| s.name == "minimal").unwrap();
            for mut c in tmp {
                let plan: Vec<&str> = if rng.pct(70) { crate::op_validate::default_codes() } else { random_plan(&mut rng) };
                let plan = if plan.is_empty() { vec!["KnownTypeNames"] } else { plan };
                let mut extra = vec![format!("(plan {})", plan.join(" "))];
                // the history: 2..8 other documents on the same schema, valid, invalid and cyclic ones
                let hl = rng.range(2, if tier == "thorough" { 49 } else { 8 });
                for _ in 0..hl {
                    let text = if c.schema == minimal && rng.pct(40) {
                        cyclic_doc(rng.range(1, 3), rng.next() & 0x1FF, rng.below(3), rng.below(3), rng.below(3), rng.below(8) as u32).print()
                    } else if rng.pct(40) {
                        crate::genvalid::VGen::new(rng.fork(), &pool[c.schema], 3).doc().print()
                    } else {
                        Gen::new(rng.fork(), &pool[c.schema], GenCfg::wild()).gen_doc().print()
                    };
                    extra.push(format!("(hist {})", crate::sx::hex(text.as_bytes())));
                }
                c.note = format!("history={}", hl);
                c.extra = extra;
                cases.push(c);
            }
        }
        "C14" => {
            let n = budget(tier, 4000, 80000) / shard.1;
            let family_pool = crate::families::rewrite_source_pool(&mut rng);
            for i in 0..n {
                let mut si_idx = rng.below(pool.len() - 1);
                // valid, mutated and grammar-random documents; every 4th (and every 8th+1): a structured case
                let structured = i % 4 == 3 || i % 8 == 1;
                let source = rng.below(9);
                if structured {
                    si_idx = pool.iter().position(|s| s.name == match source { 2 => "minimal", 4 => "lonely", _ => "synthetic" }).unwrap();
                }
                let si = &pool[si_idx];
                let gdoc: GDoc = match i % 4 {
                    _ if structured => match source {
                        0 => crate::families::merge_cases(&mut rng, 1).pop().unwrap(),
                        1 => {
                            let all = crate::families::merge_shape_cases();
                            all[rng.below(all.len())].clone()
                        }
                        2 => graph4_doc(&mut rng),
                        // a subscription whose root type implements several interfaces, fragments on each of them
                        4 => {
                            let tc = *rng.pick(&["Named", "Node", "Subscription", "Ev"]);
                            crate::families::subscription_graph_cases_on(&mut rng, 1, tc, "name", "other").pop().unwrap()
                        }
                        // several operations and fragments sharing variables and, now and then, NAMES
                        3 => crate::families::variable_graph_cases(&mut rng, 3).pop().unwrap(),
                        // a document of the targeted families of the rule properties
                        _ => family_pool[rng.below(family_pool.len())].clone(),
                    },
                    0 | 1 => crate::genvalid::VGen::new(rng.fork(), si, 2 + rng.below(3)).doc(),
                    2 => {
                        let base = crate::genvalid::VGen::new(rng.fork(), si, 2 + rng.below(3)).doc();
                        let m = *rng.pick(crate::genvalid::MUTATIONS);
                        crate::genvalid::mutate(&base, m, &mut rng, si).unwrap_or(base)
                    }
                    _ => Gen::new(rng.fork(), si, GenCfg::mostly_valid()).gen_doc(),
                };
                let mut kind = crate::rewrite::REWRITES[(i + shard.0) % crate::rewrite::REWRITES.len()];
                if structured && source == 4 {
                    kind = *rng.pick(&["schema-perm-members", "schema-perm-definitions", "perm-selections", "inline-spread"]);
                } else if structured && source == 3 {
                    kind = *rng.pick(&["rename-fragments", "rename-operations", "rename-variables", "perm-definitions", "perm-variables"]);
                } else if structured && source >= 5 {
                    kind = *rng.pick(&["perm-selections", "perm-selections", "perm-arguments", "perm-arguments", "perm-definitions", "perm-variables", "inline-spread", "wrap-inline", "rename-variables", "rename-fragments", "rename-aliases", "reparse"]);
                } else if structured && rng.pct(60) {
                    // the structured merge cases are about order: permute selections / definitions
                    kind = if rng.pct(70) { "perm-selections" } else { "perm-definitions" };
                }
                let text = gdoc.print();
                let mut extra = vec![format!("(kind {})", kind)];
                if kind.starts_with("schema-") {
                    match crate::rewrite::rewrite_schema(&si.doc, kind, &mut rng) {
                        Some(s2) => extra.push(format!("(altschema {})", crate::sx::hex(format!("{}", s2).as_bytes()))),
                        None => continue,
                    }
                } else if kind == "reparse" {
                    match graphql_tools::parser::parse_query::<String>(&text) {
                        Ok(d) => extra.push(format!("(altdoc {})", crate::sx::hex(format!("{}", d).as_bytes()))),
                        Err(_) => continue,
                    }
                } else {
                    match crate::rewrite::rewrite_doc(&gdoc, kind, &mut rng) {
                        Some(g2) => extra.push(format!("(altdoc {})", crate::sx::hex(g2.print().as_bytes()))),
                        None => continue,
                    }
                }
                cases.push(Case { id: format!("rw{}x{}", shard.0, i), family: format!("rewrite:{}", kind), schema: si_idx, op: "rewrite".into(),
                    doc: Some(text), extra, note: kind.to_string() });
            }
            // order-sensitive corpus, every document under every order-changing rewrite (not sampled):
            // one variable at two positions of the same type that differ only in the location
            // default, the variable sites, arguments in several orders
            {
                let synth = pool.iter().position(|s| s.name == "synthetic").unwrap();
                let mut corpus: Vec<GDoc> = vec![];
                for vk in 0..4 {
                    for l in 0..4 {
                        for (d1, d2) in [(false, true), (true, false)] {
                            for split in [false, true] {
                                if let Some(d) = crate::families::two_usages_case("Int", vk, 0, l, d1, l, d2, split) {
                                    corpus.push(d);
                                }
                            }
                        }
                    }
                }
                corpus.extend(crate::families::variable_site_cases());
                // valid multi-operation documents over fragment DAGs with variables (diamonds, shared sub-fragments)
                corpus.extend(crate::families::valid_variable_dag_cases(&mut rng, budget(tier, 120, 2000)));
                let mut j = 0usize;
                for gdoc in corpus {
                    for kind in ["perm-selections", "perm-arguments", "perm-definitions", "inline-spread", "wrap-inline"] {
                        j += 1;
                        if j % shard.1 != shard.0 {
                            continue;
                        }
                        let mut alt = None;
                        for _ in 0..8 {
                            if let Some(g2) = crate::rewrite::rewrite_doc(&gdoc, kind, &mut rng) {
                                if g2 != gdoc {
                                    alt = Some(g2);
                                    break;
                                }
                            }
                        }
                        if let Some(g2) = alt {
                            cases.push(Case { id: format!("oc{}x{}", shard.0, j), family: format!("order-corpus:{}", kind), schema: synth, op: "rewrite".into(),
                                doc: Some(gdoc.print()), extra: vec![format!("(kind {})", kind), format!("(altdoc {})", crate::sx::hex(g2.print().as_bytes()))], note: kind.to_string() });
                        }
                    }
                }
            }
        }
        "C17" => {
            let n = budget(tier, 1200, 30000) / shard.1;
            let mut tmp: Vec<Case> = vec![];
            family_random_docs(&mut tmp, &pool, &mut rng, n, "transform", &format!("x{}x", shard.0), false);
            for (i, mut c) in tmp.into_iter().enumerate() {
                // identity transformer, one hook at a time, and combinations
                let mask: u64 = match i % 5 {
                    0 => 0,
                    1 | 2 => 1 << rng.below(11),
                    3 => rng.next() & 0x7FF,
                    _ => 0x7FF,
                };
                let k = rng.range(1, 3) as u64;
                let salt = rng.below(7) as u64;
                c.note = format!("mask={}", mask);
                c.extra = vec![format!("(probe {} {} {})", mask, k, salt)];
                cases.push(c);
            }
            // every Keep/Replace pattern over lists of length <= 6: selection lists of n fields whose
            // positions decide (k = 1 with the field hook = replace all; masks pick subsets through k/salt)
            if shard.0 == 0 {
                let minimal = pool.iter().position(|s| s.name == "minimal").unwrap();
                for len in 0..=6usize {
                    for pat in 0..(1u32 << len) {
                        // one field per line; replaced fields are the ones given an argument zz: 0 and the value hook (k=1 on Int 0)
                        let mut text = String::from("{\n");
                        for j in 0..len {
                            if pat & (1 << j) != 0 {
                                text.push_str("  a(zz: 0)\n");
                            } else {
                                text.push_str("  a\n");
                            }
                        }
                        if len == 0 {
                            text.push_str("  b\n");
                        }
                        text.push_str("}\n");
                        cases.push(Case { id: format!("pat{}-{}", len, pat), family: "keep-replace-patterns".into(), schema: minimal, op: "transform".into(),
                            doc: Some(text), extra: vec!["(probe 512 1 0)".to_string()], note: "mask=512".into() });
                    }
                }
            }
        }
        "C20" => {
            use crate::op_introspect::{mutate, render, Policy, J, MUTATIONS};
            let mut n = 0usize;
            let mut push = |cases: &mut Vec<Case>, fam: &str, si: usize, j: &J, pol: &str, pristine: bool, n: &mut usize| {
                *n += 1;
                if *n % shard.1 != shard.0 {
                    return;
                }
                let mut text = String::new();
                j.text(&mut text);
                let mut sx = String::new();
                j.sexp(&mut sx);
                cases.push(Case { id: format!("j{}", *n), family: fam.to_string(), schema: si, op: "introspect".into(), doc: Some(text),
                    extra: vec![format!("(policy {})", pol), format!("(pristine {})", if pristine { "t" } else { "f" }), sx], note: fam.to_string() });
            };
            let per = budget(tier, 40, 1500);
            for (i, si) in pool.iter().enumerate() {
                for (pol, pname) in [(Policy::Null, "null"), (Policy::Absent, "absent")] {
                    let j = render(&si.doc, pol);
                    push(&mut cases, "rendered", i, &j, pname, true, &mut n);
                    for k in 0..per {
                        let m = MUTATIONS[k % MUTATIONS.len()];
                        if let Some(mj) = mutate(&j, m, &mut rng) {
                            // mutations that keep the shape (extra / reordered members) stay pristine
                            let keeps = m == "extra-member" || m == "reorder-members";
                            push(&mut cases, &format!("mutated:{}", m), i, &mj, pname, keeps, &mut n);
                        }
                    }
                }
            }
            // hand-made edge cases
            let minimal = pool.iter().position(|s| s.name == "minimal").unwrap();
            for text in ["{}", "[]", "null", "{\"__schema\":null}", "{\"__schema\":{}}", "{\"__schema\":{\"queryType\":{\"name\":\"Q\"},\"types\":[],\"directives\":[]}}",
                         "{\"__schema\":{\"queryType\":{\"name\":\"Q\"},\"queryType\":{\"name\":\"R\"},\"types\":[],\"directives\":[]}}",
                         "{\"__schema\":{\"queryType\":{\"name\":\"Q\",\"zz\":1,\"zz\":2},\"types\":[{\"kind\":\"SCALAR\",\"name\":\"S\"}],\"directives\":[{\"name\":\"d\",\"locations\":[\"QUERY\",\"VARIABLE_DEFINITION\"],\"args\":[]}]}}",
                         "{\"__schema\":{\"queryType\":{\"name\":\"Q\"},\"types\":[{\"kind\":\"OBJECT\",\"name\":\"O\",\"fields\":[{\"name\":\"f\",\"args\":[],\"type\":{\"kind\":\"LIST\"}}],\"interfaces\":[]}],\"directives\":[]}}"] {
                if let Ok(v) = serde_json::from_str::<serde_json::Value>(text) {
                    // note: serde_json::Value drops duplicate members; cases with duplicates are built by the mutation operator instead
                    if let Some(j) = J::from_value(&v) {
                        push(&mut cases, "hand-made", minimal, &j, "null", false, &mut n);
                    }
                }
            }
            // hand-made SPEC-CONFORMANT results (must parse): every directive location of the
            // specification, deprecations with reasons, default values, deep ofType chains, an interface
            // nobody implements, specifiedByURL, every optional member present / null / absent
            let all_locs = ["QUERY", "MUTATION", "SUBSCRIPTION", "FIELD", "FRAGMENT_DEFINITION", "FRAGMENT_SPREAD", "INLINE_FRAGMENT", "VARIABLE_DEFINITION",
                "SCHEMA", "SCALAR", "OBJECT", "FIELD_DEFINITION", "ARGUMENT_DEFINITION", "INTERFACE", "UNION", "ENUM", "ENUM_VALUE", "INPUT_OBJECT", "INPUT_FIELD_DEFINITION"];
            let tref = |k: &str, n: &str| serde_json::json!({"kind": k, "name": n, "ofType": null});
            let wrap = |k: &str, inner: serde_json::Value| serde_json::json!({"kind": k, "name": null, "ofType": inner});
            let mut conformant: Vec<serde_json::Value> = vec![];
            for variant in 0..3 {
                let opt = |v: serde_json::Value| -> Option<serde_json::Value> { match variant { 0 => Some(v), 1 => Some(serde_json::Value::Null), _ => None } };
                let mut scalar = serde_json::json!({"kind": "SCALAR", "name": "Url"});
                if let Some(v) = opt(serde_json::json!("https://example.org/url")) { scalar["specifiedByURL"] = v; }
                if let Some(v) = opt(serde_json::json!("a scalar")) { scalar["description"] = v; }
                let mut enum_value = serde_json::json!({"name": "OLD", "isDeprecated": true});
                if let Some(v) = opt(serde_json::json!("use NEW")) { enum_value["deprecationReason"] = v; }
                let mut arg = serde_json::json!({"name": "first", "type": wrap("NON_NULL", wrap("LIST", wrap("NON_NULL", wrap("LIST", tref("SCALAR", "Int")))))});
                if let Some(v) = opt(serde_json::json!("[[1, 2]]")) { arg["defaultValue"] = v; }
                let mut schema = serde_json::json!({
                    "queryType": {"name": "Q"},
                    "types": [
                        {"kind": "OBJECT", "name": "Q", "fields": [{"name": "f", "args": [arg.clone()], "type": tref("INTERFACE", "Lonely"), "isDeprecated": false}], "interfaces": []},
                        {"kind": "INTERFACE", "name": "Lonely", "fields": [{"name": "x", "args": [], "type": tref("SCALAR", "Url"), "isDeprecated": true, "deprecationReason": "gone"}], "possibleTypes": []},
                        {"kind": "ENUM", "name": "E", "enumValues": [enum_value, {"name": "NEW", "isDeprecated": false}]},
                        {"kind": "INPUT_OBJECT", "name": "In", "inputFields": [arg.clone()]},
                        {"kind": "UNION", "name": "U", "possibleTypes": [tref("OBJECT", "Q")]},
                        scalar,
                        {"kind": "SCALAR", "name": "Int"}
                    ],
                    "directives": [
                        {"name": "everywhere", "locations": all_locs, "args": [arg.clone()], "isRepeatable": true},
                        {"name": "sensitive", "locations": ["VARIABLE_DEFINITION"], "args": []}
                    ]
                });
                if let Some(v) = opt(serde_json::json!({"name": "M"})) { schema["mutationType"] = v; }
                if let Some(v) = opt(serde_json::json!({"name": "S"})) { schema["subscriptionType"] = v; }
                conformant.push(serde_json::json!({"__schema": schema}));
            }
            for loc in all_locs {
                conformant.push(serde_json::json!({"__schema": {"queryType": {"name": "Q"}, "types": [{"kind": "SCALAR", "name": "Q"}],
                    "directives": [{"name": "d", "locations": [loc], "args": []}]}}));
            }
            for v in &conformant {
                if let Some(j) = J::from_value(v) {
                    push(&mut cases, "hand-made-conformant", minimal, &j, "null", false, &mut n);
                }
            }
            // RAW TEXTS around a valid result (byte-level reading is outside the model: these are compared
            // on the implementation only — string parse vs every chunking, I/O faults, round trip): a
            // byte order mark, leading / trailing white space, trailing garbage, truncation, emptiness
            if shard.0 == 0 {
                let good = "{\"__schema\":{\"queryType\":{\"name\":\"Q\"},\"types\":[{\"kind\":\"SCALAR\",\"name\":\"Q\",\"description\":\"\u{feff}x\u{1F600}\"}],\"directives\":[]}}";
                for (i, text) in [format!("\u{feff}{}", good), format!("\u{feff}\u{feff}{}", good), format!("  \n{}", good), format!("{}\n \t", good), format!("{} x", good),
                                  format!("{}{}", good, good), good[..good.len() - 1].to_string(), String::new(), " ".to_string(), "\u{feff}".to_string(), format!("\u{feff} {}", good)].into_iter().enumerate() {
                    cases.push(Case { id: format!("raw{}", i), family: "raw-text".into(), schema: minimal, op: "introspect".into(), doc: Some(text),
                        extra: vec!["(policy null)".to_string(), "(pristine f)".to_string(), "null".to_string()], note: "raw-text".into() });
                }
            }
            // the bundled real-world results
            let files: &[&str] = if tier == "thorough" { &["product", "github", "shopify"] } else { &["product"] };
            for f in files {
                if let Ok(text) = std::fs::read_to_string(format!("/repo/src/introspection/test_files/{}_introspection.json", f)) {
                    if let Ok(v) = serde_json::from_str::<serde_json::Value>(&text) {
                        if let Some(j) = J::from_value(&v) {
                            push(&mut cases, "bundled-real-world", minimal, &j, "null", false, &mut n);
                        }
                    }
                }
            }
        }
        "C18" => {
            // exhaustive per schema; one case per pool schema (knows_nothing included), shard 0 only
            let depth = if tier == "thorough" { 3 } else { 2 };
            for (i, si) in pool.iter().enumerate() {
                if i % shard.1 == shard.0 {
                    cases.push(Case { id: format!("ext-{}", si.name), family: "exhaustive-per-schema".into(), schema: i, op: "ext".into(), doc: None,
                        extra: vec![depth.to_string(), values_sexp()], note: String::new() });
                }
            }
        }
        "C19" => {
            let n = budget(tier, 500, 12000) / shard.1;
            family_random_docs(&mut cases, &pool, &mut rng, n, "collect", &format!("c{}x", shard.0), false);
            // fragment-heavy documents (cycles, unknown fragment names) on the minimal schema
            let minimal = pool.iter().position(|s| s.name == "minimal").unwrap();
            for i in 0..(n / 4) {
                let k = rng.range(1, 3);
                let edges = (rng.next() & 0x1FF) as u32;
                let doc = cyclic_doc(k, edges as u64, rng.below(3), rng.below(3), rng.below(3), rng.below(8) as u32).print();
                cases.push(Case { id: format!("cg{}x{}", shard.0, i), family: "fragment-graph".into(), schema: minimal, op: "collect".into(), doc: Some(doc), extra: vec![], note: String::new() });
            }
            {
                let synth = pool.iter().position(|s| s.name == "synthetic").unwrap();
                for (i, d) in crate::families::collect_name_collision_cases(&mut rng, budget(tier, 300, 3375)).into_iter().enumerate() {
                    if i % shard.1 == shard.0 {
                        cases.push(Case { id: format!("cn{}x{}", shard.0, i), family: "name-collisions".into(), schema: synth, op: "collect".into(), doc: Some(d.print()), extra: vec![], note: String::new() });
                    }
                }
                for i in 0..(n / 4) {
                    let k = rng.range(2, 3);
                    let base = cyclic_doc(k, rng.next() & 0x1FF, rng.below(3), rng.below(3), rng.below(3), rng.below(8) as u32);
                    let doc = crate::families::collide_names(&base, &mut rng, &["T", "Query", "a", "t"], i % 2 == 0).print();
                    cases.push(Case { id: format!("cc{}x{}", shard.0, i), family: "fragment-graph-name-collisions".into(), schema: minimal, op: "collect".into(), doc: Some(doc), extra: vec![], note: String::new() });
                }
            }
            if shard.0 == 0 {
                for (id, sname, doc) in [
                    ("alias", "pets", "subscription { x: onNewPet { name } y: onNewPet { name } onNewPet { n: name name } ...F ... on Subscription { z: onNewPet { name } } ... on Query { q: human { name } } } fragment F on Subscription { x: onNewPet { nickname: name } ...F ...G } fragment G on Query { human { name } }"),
                    ("conds", "crate", "{ dog { name ... on Pet { n1: name } ... on Canine { n2: name } ... on CatOrDog { n3: name } ... on Cat { n4: name } ... on Mammal { mother { name } } ...DF ...PF ...UF ...Missing } } fragment DF on Dog { n5: name ...PF } fragment PF on Pet { n6: name ...DF } fragment UF on Human { n7: name }"),
                ] {
                    let si = pool.iter().position(|s| s.name == sname).unwrap();
                    cases.push(Case { id: format!("corpus-{}", id), family: "corpus".into(), schema: si, op: "collect".into(), doc: Some(doc.to_string()), extra: vec![], note: String::new() });
                }
            }
        }
        "C03" => {
            cases.extend(c03_cases(&pool, &mut rng, tier, shard));
        }
        "VAL" => {
            // development job: default plan + every singleton on random documents
            let n = budget(tier, 1600, 40000) / shard.1;
            let mut tmp: Vec<Case> = vec![];
            family_random_docs(&mut tmp, &pool, &mut rng, n, "validate", &format!("v{}x", shard.0), false);
            if shard.0 == 0 {
                for (id, sname, doc) in corpus_docs() {
                    let si = pool.iter().position(|s| s.name == sname).unwrap();
                    tmp.push(Case { id: format!("corpus-{}", id), family: "corpus".into(), schema: si, op: "validate".into(), doc: Some(doc.to_string()), extra: vec![], note: String::new() });
                }
            }
            for mut c in tmp {
                c.extra = vec![format!("(plan {})", crate::op_validate::ALL_RULES.join(" "))];
                cases.push(c);
            }
        }
        _ => {
            eprintln!("no job for {}", prop);
        }
    }
    // keep schema changes rare in the output: stable sort by schema
    cases.sort_by_key(|c| c.schema);
    (pool, cases)
}

pub fn run_impl(c: &Case, si: &SchemaInfo, doc: Option<&q::Document>) -> Vec<String> {
    match c.op.as_str() {
        "trace" => crate::op_trace::run_trace(&si.doc, doc.unwrap()),
        "strace" => crate::op_trace::run_strace(&si.doc),
        "collect" => crate::op_misc::run_collect(&si.doc, doc.unwrap()),
        "introspect" => crate::op_introspect::run_introspect_text(c.doc.as_ref().unwrap(), if c.doc.as_ref().unwrap().len() > 20000 { 40 } else { 1500 }),
        "transform" => {
            let p: Vec<u64> = c.extra[0].trim_start_matches("(probe ").trim_end_matches(')').split_whitespace().map(|x| x.parse().unwrap()).collect();
            crate::op_transform::run_transform(doc.unwrap(), p[0], p[1], p[2])
        }
        "rewrite" => run_rewrite(si, doc.unwrap(), &c.extra),
        "purity" => {
            // extra[0] = plan, extra[1..] = further documents of the history as (hist <hex text>)
            let mut docs = vec![doc.unwrap().clone()];
            for e in &c.extra[1..] {
                let hexs = e.trim_start_matches("(hist ").trim_end_matches(')');
                let bytes: Vec<u8> = (0..hexs.len() / 2).map(|i| u8::from_str_radix(&hexs[2 * i..2 * i + 2], 16).unwrap()).collect();
                if let Ok(d) = graphql_tools::parser::parse_query::<String>(&String::from_utf8_lossy(&bytes)) {
                    docs.push(d.into_static());
                }
            }
            crate::op_validate::run_purity(&si.doc, &docs, &crate::op_validate::parse_plan(&c.extra[0]))
        }
        "ext" => crate::op_misc::run_ext_with_history(&si.doc, c.extra[0].parse().unwrap()),
        "validate13" => crate::op_validate::run_validate13(&si.doc, doc.unwrap(), &crate::op_validate::parse_plan(&c.extra[0])),
        "validate" => crate::op_validate::run_validate(&si.doc, doc.unwrap(), &crate::op_validate::parse_plan(&c.extra[0])),
        _ => vec!["NOIMPL".to_string()],
    }
}

// ---------------------------------------------------------------- C03: cycle-heavy documents
fn wrap(inner: Vec<GSel>, depth: usize, style: usize) -> Vec<GSel> {
    let mut cur = inner;
    for k in 0..depth {
        cur = match (style + k) % 3 {
            0 => vec![GSel::Field { alias: None, name: "t".into(), args: vec![], dirs: vec![], sels: cur }],
            1 => vec![GSel::Inline { tc: None, dirs: vec![], sels: cur }],
            _ => vec![GSel::Inline { tc: Some("T".into()), dirs: vec![], sels: vec![GSel::Field { alias: None, name: "t".into(), args: vec![], dirs: vec![], sels: cur }] }],
        };
    }
    cur
}

/// fragment graph given as adjacency bit matrix over k fragments on type T of the `minimal` schema
/// four fragments on the one-type schema: acyclic half of the time (edges only along a random order
/// of the fragments, so that definition order and spread order are independent of the DAG's order),
/// then all fragments spread from the operation and no conflicting noise: valid documents
pub fn graph4_doc(rng: &mut Rng) -> GDoc {
    graphk_doc(rng, 4)
}

/// k fragments (k <= 6), sparse edge sets: acyclic half of the time (edges only along a random order)
pub fn graphk_doc(rng: &mut Rng, k: usize) -> GDoc {
    let bits = k * k;
    let mut edges: u64 = rng.next() & ((1u64 << bits) - 1);
    if k > 4 {
        edges &= rng.next(); // sparser graphs on more fragments
    }
    let acyclic = rng.pct(50);
    if acyclic {
        let mut perm: Vec<usize> = (0..k).collect();
        for a in (1..k).rev() {
            let b = rng.below(a + 1);
            perm.swap(a, b);
        }
        let mut m = 0u64;
        for f in 0..k {
            for g in 0..k {
                if perm[f] < perm[g] {
                    m |= 1 << (f * k + g);
                }
            }
        }
        edges &= m;
    }
    if acyclic {
        cyclic_doc(k, edges, rng.below(3), rng.below(3), 1, (rng.below(4) * 2) as u32)
    } else {
        cyclic_doc(k, edges, rng.below(3), rng.below(3), rng.below(3), rng.below(8) as u32)
    }
}

pub fn cyclic_doc(k: usize, edges: u64, depth: usize, style: usize, reach: usize, noise: u32) -> GDoc {
    let f = |n: &str| GSel::Field { alias: None, name: n.into(), args: vec![], dirs: vec![], sels: vec![] };
    let mut defs = vec![];
    let root: Vec<GSel> = match reach {
        0 => vec![GSel::Field { alias: None, name: "t".into(), args: vec![], dirs: vec![], sels: vec![GSel::Spread { name: "F0".into(), dirs: vec![] }] }],
        1 => vec![GSel::Field { alias: None, name: "t".into(), args: vec![], dirs: vec![], sels: (0..k).map(|i| GSel::Spread { name: format!("F{}", i), dirs: vec![] }).collect() }],
        _ => vec![f("a")],
    };
    defs.push(GDef::Op { kind: OpKind::SelSet, name: None, vars: vec![], dirs: vec![], sels: root });
    for i in 0..k {
        let mut sels = vec![];
        if noise & 1 != 0 {
            sels.push(GSel::Field { alias: Some("x".into()), name: if i % 2 == 0 { "a".into() } else { "b".into() }, args: vec![], dirs: vec![], sels: vec![] });
        }
        for j in 0..k {
            if edges & (1u64 << (i * k + j)) != 0 {
                let mut inner = vec![GSel::Spread { name: format!("F{}", j), dirs: vec![] }];
                if noise & 2 != 0 {
                    inner.push(GSel::Field { alias: None, name: "t".into(), args: vec![], dirs: vec![], sels: vec![GSel::Spread { name: format!("F{}", j), dirs: vec![] }, f("a")] });
                }
                sels.extend(wrap(inner, depth, style + j));
            }
        }
        if sels.is_empty() || noise & 4 != 0 {
            sels.push(f("a"));
        }
        defs.push(GDef::Frag { name: format!("F{}", i), tc: "T".into(), dirs: vec![], sels });
    }
    GDoc(defs)
}

pub fn c03_cases(pool: &[SchemaInfo], rng: &mut Rng, tier: &str, shard: (usize, usize)) -> Vec<Case> {
    let mut cases = vec![];
    let minimal = pool.iter().position(|s| s.name == "minimal").unwrap();
    let all = crate::op_validate::ALL_RULES;
    let mut n = 0usize;
    let mut push = |cases: &mut Vec<Case>, fam: &str, si: usize, doc: String, plan: Vec<&str>, n: &mut usize| {
        *n += 1;
        cases.push(Case { id: format!("t{}x{}", shard.0, *n), family: fam.to_string(), schema: si, op: "validate".into(), doc: Some(doc),
            extra: vec![format!("(plan {})", plan.join(" "))], note: String::new() });
    };
    // every fragment graph on 1..3 fragments (2^(k*k) edge sets); nesting depth, wrapper style, reachability, noise sampled
    let mut idx = 0usize;
    for k in 1..=3usize {
        let total = 1u32 << (k * k);
        for edges in 0..total {
            let variants = if tier == "thorough" { 6 } else { 1 };
            for _ in 0..variants {
                idx += 1;
                if idx % shard.1 != shard.0 {
                    continue;
                }
                let doc = cyclic_doc(k, edges as u64, rng.below(5), rng.below(3), rng.below(3), rng.below(8) as u32).print();
                push(&mut cases, &format!("fragment-graph-{}", k), minimal, doc.clone(), all.to_vec(), &mut n);
                let single = *rng.pick(all);
                push(&mut cases, "fragment-graph-single-rule", minimal, doc, vec![single], &mut n);
            }
        }
    }
    // four-fragment graphs sampled
    let extra = budget(tier, 600, 20000) / shard.1;
    for _ in 0..extra {
        let k = 4;
        let edges = (rng.next() & 0xFFFF) as u32 & (rng.next() as u32 | 0x8421);
        let doc = cyclic_doc(k, edges as u64, rng.below(5), rng.below(3), rng.below(3), rng.below(8) as u32).print();
        push(&mut cases, "fragment-graph-4", minimal, doc, all.to_vec(), &mut n);
    }
    // cyclic fragments reached from mutually exclusive and plain contexts (synthetic schema: A / B objects)
    let synth = pool.iter().position(|s| s.name == "synthetic").unwrap();
    for d in crate::families::merge_cycle_cases(rng, budget(tier, 4000, 100000) / shard.1) {
        let plan: Vec<&str> = if rng.pct(70) { all.to_vec() } else { vec!["OverlappingFieldsCanBeMerged"] };
        push(&mut cases, "merge-cycles", synth, d.print(), plan, &mut n);
    }
    for (i, d) in crate::families::cycle_multi_edge_cases().into_iter().enumerate() {
        if i % shard.1 == shard.0 {
            push(&mut cases, "cycle-multi-edge", synth, d.print(), all.to_vec(), &mut n);
            push(&mut cases, "cycle-multi-edge", synth, d.print(), vec!["OverlappingFieldsCanBeMerged"], &mut n);
        }
    }
    // variable definitions of every kind of type with defaults of every literal kind, on every schema
    {
        let mut i = 0usize;
        for (si_idx, si) in pool.iter().enumerate() {
            for text in crate::families::variable_default_cases(si) {
                i += 1;
                if i % shard.1 != shard.0 || (tier != "thorough" && i % 3 != 0) {
                    continue;
                }
                push(&mut cases, "variable-defaults", si_idx, text.clone(), all.to_vec(), &mut n);
                push(&mut cases, "variable-defaults", si_idx, text, vec![["ValuesOfCorrectType", "VariablesInAllowedPosition", "VariablesAreInputTypes", "KnownTypeNames"][i % 4]], &mut n);
            }
        }
    }
    // long literals with multi-byte characters at every alignment, echoed by error messages
    // (whatever formats, shortens or measures a message must respect character boundaries)
    {
        let synth_i = pool.iter().position(|s| s.name == "synthetic").unwrap();
        let mut i = 0usize;
        for unit in ["\u{e9}", "\u{65e5}\u{672c}\u{8a9e}", "\u{1f600}", "a\u{65e5}", "ab"] {
            for reps in [10usize, 60, 90, 130, 170, 260, 400, 1400] {
                for pad in 0..4usize {
                    i += 1;
                    if i % shard.1 != shard.0 || (tier != "thorough" && (i / shard.1) % 2 == 1) {
                        continue;
                    }
                    let lit = format!("{}{}", "x".repeat(pad), unit.repeat(reps));
                    let doc = match i % 4 {
                        0 => format!("{{ f_Int_0(a: \"{}\") }}", lit),
                        1 => format!("{{ f_Color_0(a: [\"{}\"]) }}", lit),
                        2 => format!("{{ f_Point_0(a: {{x: \"{}\", nl: []}}) }}", lit),
                        _ => format!("{{ a {{ id @args(int0: \"{}\") zz{}: nick }} ...Nope }}", lit, "y".repeat(reps)),
                    };
                    push(&mut cases, "long-multibyte-literals", synth_i, doc.clone(), all.to_vec(), &mut n);
                    push(&mut cases, "long-multibyte-literals", synth_i, doc, vec!["ValuesOfCorrectType"], &mut n);
                }
            }
        }
    }
    // the known stack-overflow witness and relatives
    if shard.0 == 0 {
        for doc in [
            "{ t { ...F } } fragment F on T { t { ...F t { ...F } } }",
            "{ t { ...F } } fragment F on T { x: a t { x: b ...F } ...G } fragment G on T { t { ...F x: a } }",
            "{ ...A } fragment A on Query { t { ...B } } fragment B on T { t { ...B ...C } l { ...C } } fragment C on T { t { ...B t { ...C } } }",
        ] {
            push(&mut cases, "corpus-cycles", minimal, doc.to_string(), all.to_vec(), &mut n);
        }
        // one cyclic fragment with two cycles of coprime lengths: the memoised search of the merge
        // rule nests quadratically deep (the witness that corrected the model's fuel constant)
        for (a, b) in [(13usize, 12usize), (7, 5), (9, 8), (16, 15)] {
            let nest = |k: usize| -> String { format!("{}...A{}", "t { ".repeat(k), " }".repeat(k)) };
            let doc = format!("{{ t {{ ...A }} }} fragment A on T {{ {} {} }}", nest(a), nest(b));
            push(&mut cases, "corpus-coprime-cycles", minimal, doc.clone(), all.to_vec(), &mut n);
            push(&mut cases, "corpus-coprime-cycles", minimal, doc, vec!["OverlappingFieldsCanBeMerged"], &mut n);
        }
    }
    // name-pool random documents (wild / deep) on every schema, default plan and singletons
    let m = budget(tier, 500, 20000) / shard.1;
    let mut tmp: Vec<Case> = vec![];
    family_random_docs(&mut tmp, pool, rng, m, "validate", &format!("w{}x", shard.0), false);
    for mut c in tmp {
        let plan: Vec<&str> = if rng.pct(70) { all.to_vec() } else { vec![*rng.pick(all)] };
        c.extra = vec![format!("(plan {})", plan.join(" "))];
        cases.push(c);
    }
    // size scaling: wide and deep same-key fields (merge rule work grows fastest here)
    for (w, dpt) in [(2usize, 6usize), (3, 4), (4, 3), (6, 2), (12, 1)] {
        fn tower(w: usize, d: usize) -> Vec<GSel> {
            (0..w)
                .map(|_| GSel::Field { alias: None, name: "t".into(), args: vec![], dirs: vec![], sels: if d == 0 { vec![GSel::Field { alias: None, name: "a".into(), args: vec![], dirs: vec![], sels: vec![] }] } else { tower(w, d - 1) } })
                .collect()
        }
        if shard.0 == (w + dpt) % shard.1 {
            let doc = GDoc(vec![GDef::Op { kind: OpKind::SelSet, name: None, vars: vec![], dirs: vec![], sels: tower(w, dpt) }]).print();
            push(&mut cases, "size-scaling", minimal, doc, all.to_vec(), &mut n);
        }
    }
    cases
}

pub fn values_sexp() -> String {
    let vals = crate::op_misc::value_pool();
    format!("(vals {})", vals.iter().map(crate::sx::value).collect::<Vec<_>>().join(" "))
}

pub fn unhex(h: &str) -> String {
    let bytes: Vec<u8> = (0..h.len() / 2).map(|i| u8::from_str_radix(&h[2 * i..2 * i + 2], 16).unwrap_or(b'?')).collect();
    String::from_utf8_lossy(&bytes).to_string()
}

/// are two documents equal up to positions?
pub fn same_modulo_positions(a: &q::Document, b: &q::Document) -> bool {
    // the S-expression with every position zeroed
    fn strip(d: &q::Document) -> String {
        let g = crate::shrink::from_document(d);
        format!("{:?}", g)
    }
    strip(a) == strip(b)
}

fn verdict_line(tag: &str, errs: &[graphql_tools::validation::utils::ValidationError]) -> String {
    // reporting rules in default-plan order
    let rules: Vec<&str> = crate::op_validate::ALL_RULES.iter().cloned().filter(|r| errs.iter().any(|e| e.error_code == *r)).collect();
    format!("{} {} | {}", tag, if errs.is_empty() { "accept" } else { "reject" }, rules.join(","))
}

/// C14: validate the original and the rewritten (document, schema) with the default plan
pub fn run_rewrite(si: &SchemaInfo, doc: &q::Document, extra: &[String]) -> Vec<String> {
    use graphql_tools::validation::validate::validate;
    let kind = extra[0].trim_start_matches("(kind ").trim_end_matches(')').to_string();
    let mut doc2 = doc.clone();
    let mut schema2 = si.doc.clone();
    for e in &extra[1..] {
        if let Some(h) = e.strip_prefix("(altdoc ") {
            match graphql_tools::parser::parse_query::<String>(&unhex(h.trim_end_matches(')'))) {
                Ok(d) => doc2 = d.into_static(),
                Err(_) => return vec!["SKIP unparsable".into()],
            }
        } else if let Some(h) = e.strip_prefix("(altschema ") {
            match graphql_tools::parser::parse_schema::<String>(&unhex(h.trim_end_matches(')'))) {
                Ok(d) => schema2 = d.into_static(),
                Err(_) => return vec!["SKIP unparsable".into()],
            }
        }
    }
    if kind == "reparse" && !same_modulo_positions(doc, &doc2) {
        return vec!["SKIP printer-not-faithful".into()];
    }
    let plan = crate::op_validate::plan_of(&crate::op_validate::ALL_RULES.iter().map(|x| x.to_string()).collect::<Vec<_>>());
    let e1 = validate(&si.doc, doc, &plan);
    let e2 = validate(&schema2, &doc2, &plan);
    let a = verdict_line("A", &e1);
    let b = verdict_line("B", &e2);
    let same_verdict = e1.is_empty() == e2.is_empty();
    let rules_relevant = !matches!(kind.as_str(), "wrap-inline" | "inline-spread");
    let same_rules = a[2..] == b[2..];
    vec![a, b, format!("VERDICT {}", if same_verdict { "same" } else { "DIFF" }),
         format!("RULES {}", if !rules_relevant { "n/a" } else if same_rules { "same" } else { "DIFF" })]
}

/// bounded-exhaustive families over the synthetic schema, for the rule properties
pub fn exhaustive_family(prop: &str, tier: &str, rng: &mut Rng, shard: (usize, usize), pool: &[SchemaInfo]) -> Vec<Case> {
    use crate::families::*;
    let synth = pool.iter().position(|s| s.name == "synthetic").unwrap();
    let mut docs: Vec<(String, String)> = vec![]; // (family, text)
    match prop {
        "C08" | "C16" | "C15" => {
            let lits = literal_pool(tier == "thorough");
            let mut all = vec![];
            for b in BASES {
                for k in 0..SHAPES.len() {
                    for (li, _) in lits.iter().enumerate() {
                        for pos in 0..6 {
                            all.push((*b, k, li, pos));
                        }
                    }
                }
            }
            let n = budget(tier, if prop == "C08" { 6000 } else { 1500 }, all.len());
            for (b, k, li, pos) in pick_sample(all, n, rng) {
                if let Some(d) = literal_case(b, k, &lits[li], pos) {
                    docs.push((format!("literal-pairs:pos{}", pos), d.print()));
                }
            }
            for d in small_object_cases() {
                docs.push(("small-objects".to_string(), d.print()));
            }
            for d in enum_pair_cases() {
                docs.push(("enum-pairs".to_string(), d.print()));
            }
            if prop != "C08" {
                // context answers around arguments: every wrapper / unknown directive combination, and
                // variables inside object literals at positions of every wrapper shape
                for d in argument_slot_cases() {
                    docs.push(("argument-slots".to_string(), d.print()));
                }
                for d in argument_sibling_cases() {
                    docs.push(("argument-siblings".to_string(), d.print()));
                }
                let vo = variable_object_cases();
                let nvo = budget(tier, 800, vo.len());
                for d in pick_sample(vo, nvo, rng) {
                    docs.push(("variable-objects".to_string(), d.print()));
                }
            }
        }
        "C07" => {
            let mut all = vec![];
            for vb in BASES {
                for vk in 0..SHAPES.len() {
                    for dk in 0..3 {
                        for lk in 0..SHAPES.len() {
                            for ld in [false, true] {
                                for pos in 0..3 {
                                    // same base type mostly; a different base now and then
                                    all.push((*vb, vk, dk, *vb, lk, ld, pos));
                                }
                            }
                        }
                    }
                }
            }
            for vb in ["Int", "String", "Color"] {
                for lb in ["Float", "ID", "Date", "Int"] {
                    for vk in 0..4 {
                        for lk in 0..4 {
                            all.push((vb, vk, 0, lb, lk, false, 0));
                        }
                    }
                }
            }
            let n = budget(tier, 5000, all.len());
            for (vb, vk, dk, lb, lk, ld, pos) in pick_sample(all, n, rng) {
                if let Some(d) = variable_case(vb, vk, dk, lb, lk, ld, pos) {
                    docs.push((format!("variable-tuples:pos{}", pos), d.print()));
                }
            }
            // the same variable at two locations
            let mut two = vec![];
            for vb in ["Int", "Point", "Color"] {
                for vk in 0..4 {
                    for dk in 0..3 {
                        for l1 in 0..4 {
                            for l2 in 0..4 {
                                for d1 in [false, true] {
                                    for d2 in [false, true] {
                                        for split in [false, true] {
                                            two.push((vb, vk, dk, l1, d1, l2, d2, split));
                                        }
                                    }
                                }
                            }
                        }
                    }
                }
            }
            for d in variable_graph_cases(rng, budget(tier, 3000, 60000)) {
                docs.push(("variable-graphs".to_string(), d.print()));
            }
            for d in variable_site_cases() {
                docs.push(("variable-sites".to_string(), d.print()));
            }
            for d in valid_variable_dag_cases(rng, budget(tier, 1500, 30000)) {
                docs.push(("valid-variable-dags".to_string(), d.print()));
            }
            let vo = variable_object_cases();
            let nvo = budget(tier, 2500, vo.len());
            for d in pick_sample(vo, nvo, rng) {
                docs.push(("variable-objects".to_string(), d.print()));
            }
            for (vb, vk, dk, l1, d1, l2, d2, split) in pick_sample(two, budget(tier, 2500, 100000), rng) {
                if let Some(d) = two_usages_case(vb, vk, dk, l1, d1, l2, d2, split) {
                    docs.push(("variable-two-usages".to_string(), d.print()));
                }
            }
        }
        "C04" => {
            // __typename (and other fields) at subscription roots, directly and behind inline fragments
            for d in subscription_roots() {
                docs.push(("subscription-roots".to_string(), d.print()));
            }
            for d in argument_sibling_cases() {
                docs.push(("argument-siblings".to_string(), d.print()));
            }
        }
        "C09" => {
            for d in argument_slot_cases() {
                docs.push(("argument-slots".to_string(), d.print()));
            }
            for d in argument_sibling_cases() {
                docs.push(("argument-siblings".to_string(), d.print()));
            }
            for d in directive_argument_cases() {
                docs.push(("directive-arguments".to_string(), d.print()));
            }
        }
        "C11" => {
            for d in subscription_roots() {
                docs.push(("subscription-roots".to_string(), d.print()));
            }
            for d in subscription_graph_cases(rng, budget(tier, 2000, 40000)) {
                docs.push(("subscription-graphs".to_string(), d.print()));
            }
            for d in operation_mix_cases(rng, budget(tier, 2500, 50000)) {
                docs.push(("operation-mixes".to_string(), d.print()));
            }
            for d in subscription_key_cases(rng, budget(tier, 2000, 40000)) {
                docs.push(("subscription-keys".to_string(), d.print()));
            }
        }
        "C05" => {
            for d in merge_cases(rng, budget(tier, 1500, 40000)) {
                docs.push(("merge-structured".to_string(), d.print()));
            }
            for d in merge_cycle_cases(rng, budget(tier, 1500, 40000)) {
                docs.push(("merge-cycles".to_string(), d.print()));
            }
            for d in cycle_multi_edge_cases() {
                docs.push(("cycle-multi-edge".to_string(), d.print()));
            }
            for d in merge_shape_cases() {
                docs.push(("merge-shapes".to_string(), d.print()));
            }
            for d in merge_argument_cases() {
                docs.push(("merge-arguments".to_string(), d.print()));
            }
            {
                let mt = merge_triple_cases();
                let nmt = budget(tier, 700, mt.len());
                for d in pick_sample(mt, nmt, rng) {
                    docs.push(("merge-triples".to_string(), d.print()));
                }
            }
            for d in merge_shared_subfragment_cases() {
                docs.push(("merge-shared-subfragment".to_string(), d.print()));
            }
            for d in merge_fragment_dag_cases(rng, budget(tier, 3000, 60000)) {
                docs.push(("merge-fragment-dags".to_string(), d.print()));
            }
            for d in merge_exclusive_fragment_cases() {
                docs.push(("merge-exclusive-fragments".to_string(), d.print()));
            }
            for d in merge_argument_order_cases() {
                docs.push(("merge-argument-order".to_string(), d.print()));
            }
            for d in merge_untyped_wrapper_cases() {
                docs.push(("merge-untyped-wrappers".to_string(), d.print()));
            }
        }
        "C10" => {
            for d in directive_mix_cases(rng, budget(tier, 2500, 50000)) {
                docs.push(("directive-mixes".to_string(), d.print()));
            }
            for d in directive_sibling_cases(rng, budget(tier, 2500, 50000)) {
                docs.push(("directive-siblings".to_string(), d.print()));
            }
            for d in SYNTH_DIRECTIVES {
                for loc in 0..7 {
                    for mult in 1..=3 {
                        for nest in 0..3 {
                            docs.push(("directive-placement".to_string(), directive_case(d, loc, mult, nest).print()));
                        }
                    }
                }
            }
        }
        "C06" => {
            // fragment graphs (documents for the `minimal` schema): handled by the caller
        }
        _ => {}
    }
    let mut out = vec![];
    if prop == "GRAPH" {
        // fragment-spread graphs on the one-type schema: every edge set on 1..3 fragments, sampled on 4
        let minimal = pool.iter().position(|s| s.name == "minimal").unwrap();
        let mut idx = 0usize;
        for k in 1..=3usize {
            for edges in 0..(1u32 << (k * k)) {
                idx += 1;
                if idx % shard.1 != shard.0 || (tier != "thorough" && k == 3 && !rng.pct(25)) {
                    continue;
                }
                let doc = cyclic_doc(k, edges as u64, rng.below(5), rng.below(3), rng.below(3), rng.below(8) as u32).print();
                out.push(Case { id: format!("g{}x{}", shard.0, idx), family: format!("fragment-graph-{}", k), schema: minimal, op: "validate".into(), doc: Some(doc), extra: vec![], note: String::new() });
            }
        }
        for j in 0..budget(tier, 1600, 40000) / shard.1 {
            let doc = graph4_doc(rng).print();
            out.push(Case { id: format!("g4{}x{}", shard.0, j), family: "fragment-graph-4".into(), schema: minimal, op: "validate".into(), doc: Some(doc), extra: vec![], note: String::new() });
        }
        for j in 0..budget(tier, 800, 30000) / shard.1 {
            let k = 5 + (j % 2);
            let doc = graphk_doc(rng, k).print();
            out.push(Case { id: format!("g{}{}x{}", k, shard.0, j), family: format!("fragment-graph-{}", k), schema: minimal, op: "validate".into(), doc: Some(doc), extra: vec![], note: String::new() });
        }
        // the same graphs with names shared across name spaces: fragments called like types, fields
        // and operations; the operation called like a fragment
        for j in 0..budget(tier, 1600, 30000) / shard.1 {
            let k = 2 + (j % 3);
            let base = if j % 2 == 0 { graphk_doc(rng, k) } else { cyclic_doc(k, rng.next() & ((1u64 << (k * k)) - 1), rng.below(3), rng.below(3), rng.below(3), rng.below(8) as u32) };
            let doc = crate::families::collide_names(&base, rng, &["T", "Query", "a", "t", "String", "Q"], true).print();
            out.push(Case { id: format!("gc{}x{}", shard.0, j), family: "fragment-graph-name-collisions".into(), schema: minimal, op: "validate".into(), doc: Some(doc), extra: vec![], note: String::new() });
        }
    }
    if prop == "C11" {
        // explicit schema definition naming other roots than the types called Subscription / Query / Mutation
        if let Some(decoy) = pool.iter().position(|s| s.name == "decoy") {
            let mut i = 0usize;
            let mut docs2 = subscription_graph_cases_on(rng, budget(tier, 600, 12000), "Events", "created", "deleted");
            docs2.extend(subscription_graph_cases_on(rng, budget(tier, 300, 6000), "Subscription", "plan", "renewal"));
            for d in docs2 {
                i += 1;
                if i % shard.1 != shard.0 {
                    continue;
                }
                out.push(Case { id: format!("dc{}x{}", shard.0, i), family: "subscription-graphs-decoy".into(), schema: decoy, op: "validate".into(), doc: Some(d.print()), extra: vec![], note: String::new() });
            }
        }
    }
    if prop == "C07" || prop == "C08" {
        let mut i = 0usize;
        for (si_idx, si) in pool.iter().enumerate() {
            for text in variable_default_cases(si) {
                i += 1;
                if i % shard.1 != shard.0 {
                    continue;
                }
                out.push(Case { id: format!("vd{}x{}", shard.0, i), family: "variable-defaults".into(), schema: si_idx, op: "validate".into(), doc: Some(text), extra: vec![], note: String::new() });
            }
        }
    }
    if prop == "C11" {
        // a subscription root that implements interfaces (two levels) and is a member of a union:
        // fragments on the root, on each interface, on the union and on unrelated types
        if let Some(lonely) = pool.iter().position(|s| s.name == "lonely") {
            let mut i = 0usize;
            for d in subscription_graph_cases_tcs(rng, budget(tier, 1500, 30000), "name", "other", &["Subscription", "Named", "Node", "Pet", "Ev", "User", "U"]) {
                i += 1;
                if i % shard.1 != shard.0 {
                    continue;
                }
                out.push(Case { id: format!("sl{}x{}", shard.0, i), family: "subscription-graphs-abstract".into(), schema: lonely, op: "validate".into(), doc: Some(d.print()), extra: vec![], note: String::new() });
            }
            for d in subscription_nested_clean_cases() {
                i += 1;
                if i % shard.1 != shard.0 {
                    continue;
                }
                out.push(Case { id: format!("sn{}x{}", shard.0, i), family: "subscription-nested-clean".into(), schema: lonely, op: "validate".into(), doc: Some(d.print()), extra: vec![], note: String::new() });
            }
        }
    }
    if prop == "C04" {
        let mut i = 0usize;
        for (si_idx, si) in pool.iter().enumerate() {
            for text in field_owner_cases(si, rng, budget(tier, 700, 20000)) {
                i += 1;
                if i % shard.1 != shard.0 {
                    continue;
                }
                out.push(Case { id: format!("fo{}x{}", shard.0, i), family: "field-owner".into(), schema: si_idx, op: "validate".into(), doc: Some(text), extra: vec![], note: String::new() });
            }
        }
    }
    if prop == "C06" {
        // a fragment on T inside a selection set of type P, for all pairs of composite types of every pool schema
        let mut i = 0usize;
        for (si_idx, si) in pool.iter().enumerate() {
            for text in spread_pairs(si) {
                i += 1;
                if i % shard.1 != shard.0 {
                    continue;
                }
                out.push(Case { id: format!("sp{}x{}", shard.0, i), family: "spread-pairs".into(), schema: si_idx, op: "validate".into(), doc: Some(text), extra: vec![], note: String::new() });
            }
            for text in fragment_condition_cases(si) {
                i += 1;
                if i % shard.1 != shard.0 {
                    continue;
                }
                out.push(Case { id: format!("fc{}x{}", shard.0, i), family: "fragment-conditions".into(), schema: si_idx, op: "validate".into(), doc: Some(text), extra: vec![], note: String::new() });
            }
        }
    }
    for (i, (fam, text)) in docs.into_iter().enumerate() {
        if i % shard.1 != shard.0 {
            continue;
        }
        out.push(Case { id: format!("e{}x{}", shard.0, i), family: fam, schema: synth, op: "validate".into(), doc: Some(text), extra: vec![], note: String::new() });
    }
    out
}

//! Which cases each property's check generates, and how each case is run on the implementation.
use crate::gast::*;
use crate::gen::*;
use crate::rng::Rng;
use crate::schemas;
use crate::Case;
use graphql_tools::static_graphql::query as q;

pub fn schema_pool() -> Vec<SchemaInfo> {
    let mut v: Vec<SchemaInfo> = schemas::pool().iter().map(|(n, s)| SchemaInfo::new(n, s)).collect();
    v.push(SchemaInfo::new("knows_nothing", schemas::KNOWS_NOTHING));
    v
}

pub fn replay_cases(path: &str) -> (Vec<SchemaInfo>, Vec<Case>) {
    let text = std::fs::read_to_string(path).expect("replay file");
    let v: serde_json::Value = serde_json::from_str(&text).expect("replay json");
    let mut schemas = vec![];
    let mut cases = vec![];
    let arr = match v.get("cases") {
        Some(serde_json::Value::Array(a)) => a.clone(),
        _ => vec![v.clone()],
    };
    for (i, c) in arr.iter().enumerate() {
        let sdl = c["schema_sdl"].as_str().unwrap_or("");
        if sdl.is_empty() {
            continue;
        }
        schemas.push(SchemaInfo::new(c["schema"].as_str().unwrap_or("replay"), sdl));
        let doc = c["doc"].as_str().unwrap_or("");
        cases.push(Case {
            id: format!("r{}", i),
            family: "replay".into(),
            schema: schemas.len() - 1,
            op: c["op"].as_str().unwrap_or("trace").to_string(),
            doc: if doc.is_empty() { None } else { Some(doc.to_string()) },
            extra: c["extra"].as_array().map(|a| a.iter().map(|x| x.as_str().unwrap_or("").to_string()).collect()).unwrap_or_default(),
            note: String::new(),
        });
    }
    (schemas, cases)
}

fn budget(tier: &str, quick: usize, thorough: usize) -> usize {
    if tier == "thorough" {
        thorough
    } else {
        quick
    }
}

/// random documents over every pool schema, in three styles, plus the same document against
/// the schema that knows none of its names
fn family_random_docs(cases: &mut Vec<Case>, pool: &[SchemaInfo], rng: &mut Rng, n: usize, op: &str, tag: &str, with_unknown_schema: bool) {
    let nothing = pool.iter().position(|s| s.name == "knows_nothing").unwrap();
    for i in 0..n {
        let si_idx = rng.below(pool.len() - 1);
        let cfg = match i % 4 {
            0 | 1 => GenCfg::mostly_valid(),
            2 => GenCfg::wild(),
            _ => GenCfg::deep(),
        };
        let style = match i % 4 {
            0 | 1 => "valid",
            2 => "wild",
            _ => "deep",
        };
        let mut g = Gen::new(rng.fork(), &pool[si_idx], cfg);
        let doc = g.gen_doc();
        let text = doc.print();
        cases.push(Case {
            id: format!("{}{}", tag, i),
            family: format!("random-{}", style),
            schema: si_idx,
            op: op.to_string(),
            doc: Some(text.clone()),
            extra: vec![],
            note: String::new(),
        });
        if with_unknown_schema && i % 5 == 0 {
            cases.push(Case {
                id: format!("{}{}u", tag, i),
                family: "unknown-schema".to_string(),
                schema: nothing,
                op: op.to_string(),
                doc: Some(text),
                extra: vec![],
                note: String::new(),
            });
        }
    }
}

pub fn corpus_docs() -> Vec<(&'static str, &'static str, &'static str)> {
    // (id, schema name, document)
    vec![
        ("nnlist", "implicit", "query($x: String) { search(nl: [$x, 1, null], req: 1) { id } listArgs(ln: [1], nln: [null], lnl: [[1], null], pn: [{x: 1}]) }"),
        ("deepcycle", "minimal", "{ t { ...A } } fragment A on T { t { t { ...A } } }"),
        ("overflow", "minimal", "{ t { a } } fragment F on T { t { ...F t { ...F } } }"),
        ("values", "implicit", "query Q($a: Int = 1, $f: Filter = {color: RED, ids: [1, \"x\"]}) { scalarArgs(i: 1, f: 1.5, s: \"x\", b: true, id: 1, d: {a: [1]}, e: RED) listArgs(l: [1, 2], ll: [[1], [2, 3]], p: [{x: 1, y: 2}, {x: 3}]) search(filter: {and: [{not: {color: BLUE}}], point: {x: 1}, ids: []}, nl: [], req: $a) { ... on Named { name(upper: true) @onF(req: true) } ...NF } } fragment NF on Node @onFD { id ... @onIF { id } }"),
        ("roots", "explicit_query_only", "mutation { x } subscription { y } query { a m { x } }"),
        ("roots2", "pets", "mutation M { deletePetByName(name: \"x\") { name } } subscription S { onNewPet { name ... on Dog { barkVolume } } }"),
        ("unknowns", "crate", "query Q { dog { nope(zz: 1) { x } name(zz: [1, {a: $v}]) @nope(a: 1) ...Missing ... on Nope { a } } } fragment F on Nope { a }"),
    ]
}

pub fn rules_of(prop: &str) -> Vec<&'static str> {
    match prop {
        "C04" => vec!["FieldsOnCorrectType", "LeafFieldSelections"],
        "C05" => vec!["OverlappingFieldsCanBeMerged"],
        "C06" => vec!["UniqueFragmentNames", "KnownFragmentNames", "KnownTypeNames", "FragmentsOnCompositeTypes", "NoUnusedFragments", "NoFragmentsCycle", "PossibleFragmentSpreads"],
        "C07" => vec!["UniqueVariableNames", "VariablesAreInputTypes", "NoUndefinedVariables", "NoUnusedVariables", "VariablesInAllowedPosition"],
        "C08" => vec!["ValuesOfCorrectType"],
        "C09" => vec!["KnownArgumentNames", "UniqueArgumentNames", "ProvidedRequiredArguments"],
        "C10" => vec!["KnownDirectives", "UniqueDirectivesPerLocation"],
        "C11" => vec!["UniqueOperationNames", "LoneAnonymousOperation", "SingleFieldSubscriptions"],
        _ => crate::op_validate::ALL_RULES.to_vec(),
    }
}

fn random_plan(rng: &mut Rng) -> Vec<&'static str> {
    let all = crate::op_validate::ALL_RULES;
    match rng.below(6) {
        0 => all.to_vec(),
        1 => vec![*rng.pick(all)],
        2 => {
            // random sub-sequence
            all.iter().filter(|_| rng.pct(40)).cloned().collect::<Vec<_>>()
        }
        3 => {
            let mut v: Vec<&'static str> = all.iter().filter(|_| rng.pct(50)).cloned().collect();
            rng.shuffle(&mut v);
            v
        }
        4 => {
            // repetitions
            let n = rng.range(2, 6);
            (0..n).map(|_| *rng.pick(all)).collect()
        }
        _ => {
            let mut v = all.to_vec();
            rng.shuffle(&mut v);
            v
        }
    }
}

pub fn cases_for(prop: &str, tier: &str, seed: u64, shard: (usize, usize)) -> (Vec<SchemaInfo>, Vec<Case>) {
    let pool = schema_pool();
    let mut rng = Rng::new(seed.wrapping_mul(1000).wrapping_add(shard.0 as u64));
    let mut cases: Vec<Case> = vec![];
    match prop {
        "C15" | "C16" => {
            if shard.0 == 0 {
                for (id, sname, doc) in corpus_docs() {
                    let si = pool.iter().position(|s| s.name == sname).unwrap();
                    cases.push(Case { id: format!("corpus-{}", id), family: "corpus".into(), schema: si, op: "trace".into(), doc: Some(doc.to_string()), extra: vec![], note: String::new() });
                }
                if prop == "C15" {
                    for (i, _) in pool.iter().enumerate() {
                        cases.push(Case { id: format!("schema-{}", i), family: "schema-visitor".into(), schema: i, op: "strace".into(), doc: None, extra: vec![], note: String::new() });
                    }
                }
            }
            let n = budget(tier, 1600, 40000) / shard.1;
            family_random_docs(&mut cases, &pool, &mut rng, n, "trace", &format!("t{}x", shard.0), true);
        }
        "C13" => {
            let n = budget(tier, 1200, 30000) / shard.1;
            let mut tmp: Vec<Case> = vec![];
            family_random_docs(&mut tmp, &pool, &mut rng, n, "validate13", &format!("p{}x", shard.0), false);
            if shard.0 == 0 {
                for (id, sname, doc) in corpus_docs() {
                    let si = pool.iter().position(|s| s.name == sname).unwrap();
                    tmp.push(Case { id: format!("corpus-{}", id), family: "corpus".into(), schema: si, op: "validate13".into(), doc: Some(doc.to_string()), extra: vec![], note: String::new() });
                }
            }
            for mut c in tmp {
                let mut plan = random_plan(&mut rng);
                if plan.is_empty() {
                    plan = vec!["KnownTypeNames"];
                }
                c.note = format!("plan-len={}", plan.len());
                c.extra = vec![format!("(plan {})", plan.join(" "))];
                cases.push(c);
            }
        }
        "C04" | "C05" | "C06" | "C07" | "C08" | "C09" | "C10" | "C11" => {
            let rules = rules_of(prop);
            let n = budget(tier, 1600, 40000) / shard.1;
            let mut tmp: Vec<Case> = vec![];
            family_random_docs(&mut tmp, &pool, &mut rng, n, "validate", &format!("r{}x", shard.0), false);
            if shard.0 == 0 {
                for (id, sname, doc) in corpus_docs() {
                    let si = pool.iter().position(|s| s.name == sname).unwrap();
                    tmp.push(Case { id: format!("corpus-{}", id), family: "corpus".into(), schema: si, op: "validate".into(), doc: Some(doc.to_string()), extra: vec![], note: String::new() });
                }
            }
            for mut c in tmp {
                c.extra = vec![format!("(plan {})", rules.join(" "))];
                cases.push(c);
            }
        }
        "C01" => {
            let n = budget(tier, 2400, 60000) / shard.1;
            let all = format!("(plan {})", crate::op_validate::ALL_RULES.join(" "));
            for i in 0..n {
                let si_idx = rng.below(pool.len() - 1);
                let depth = 2 + rng.below(4);
                let mut g = crate::genvalid::VGen::new(rng.fork(), &pool[si_idx], depth);
                let doc = g.doc();
                cases.push(Case { id: format!("ok{}x{}", shard.0, i), family: "valid-by-construction".into(), schema: si_idx, op: "validate".into(),
                    doc: Some(doc.print()), extra: vec![all.clone()], note: String::new() });
            }
        }
        "C02" => {
            let n = budget(tier, 1500, 40000) / shard.1;
            let all = format!("(plan {})", crate::op_validate::ALL_RULES.join(" "));
            for i in 0..n {
                let si_idx = rng.below(pool.len() - 1);
                let depth = 2 + rng.below(3);
                let mut g = crate::genvalid::VGen::new(rng.fork(), &pool[si_idx], depth);
                let doc = g.doc();
                let m = crate::genvalid::MUTATIONS[(i + shard.0) % crate::genvalid::MUTATIONS.len()];
                if let Some(md) = crate::genvalid::mutate(&doc, m, &mut rng, &pool[si_idx]) {
                    cases.push(Case { id: format!("mut{}x{}", shard.0, i), family: format!("inject:{}", m), schema: si_idx, op: "validate".into(),
                        doc: Some(md.print()), extra: vec![all.clone()], note: m.to_string() });
                }
            }
            let mut tmp: Vec<Case> = vec![];
            family_random_docs(&mut tmp, &pool, &mut rng, n / 3, "validate", &format!("rnd{}x", shard.0), false);
            for mut c in tmp {
                c.extra = vec![all.clone()];
                cases.push(c);
            }
        }
        "VAL" => {
            // development job: default plan + every singleton on random documents
            let n = budget(tier, 1600, 40000) / shard.1;
            let mut tmp: Vec<Case> = vec![];
            family_random_docs(&mut tmp, &pool, &mut rng, n, "validate", &format!("v{}x", shard.0), false);
            if shard.0 == 0 {
                for (id, sname, doc) in corpus_docs() {
                    let si = pool.iter().position(|s| s.name == sname).unwrap();
                    tmp.push(Case { id: format!("corpus-{}", id), family: "corpus".into(), schema: si, op: "validate".into(), doc: Some(doc.to_string()), extra: vec![], note: String::new() });
                }
            }
            for mut c in tmp {
                c.extra = vec![format!("(plan {})", crate::op_validate::ALL_RULES.join(" "))];
                cases.push(c);
            }
        }
        _ => {
            eprintln!("no job for {}", prop);
        }
    }
    // keep schema changes rare in the output: stable sort by schema
    cases.sort_by_key(|c| c.schema);
    (pool, cases)
}

pub fn run_impl(c: &Case, si: &SchemaInfo, doc: Option<&q::Document>) -> Vec<String> {
    match c.op.as_str() {
        "trace" => crate::op_trace::run_trace(&si.doc, doc.unwrap()),
        "strace" => crate::op_trace::run_strace(&si.doc),
        "validate13" => crate::op_validate::run_validate13(&si.doc, doc.unwrap(), &crate::op_validate::parse_plan(&c.extra[0])),
        "validate" => crate::op_validate::run_validate(&si.doc, doc.unwrap(), &crate::op_validate::parse_plan(&c.extra[0])),
        _ => vec!["NOIMPL".to_string()],
    }
}

//! Shrinking of a disagreeing / failing case: greedy one-step reductions of the document while
//! the predicate (implementation output != model or oracle output) keeps holding.
use crate::gast::*;
use graphql_tools::static_graphql::query as q;

pub fn from_value(v: &q::Value) -> GValue {
    match v {
        q::Value::Variable(n) => GValue::Var(n.clone()),
        q::Value::Int(n) => GValue::Int(n.as_i64().unwrap()),
        q::Value::Float(f) => {
            let s = format!("{:?}", f);
            GValue::Float(if s.contains('.') || s.contains('e') { s } else { format!("{}.0", s) })
        }
        q::Value::String(s) => GValue::Str(s.clone()),
        q::Value::Boolean(b) => GValue::Bool(*b),
        q::Value::Null => GValue::Null,
        q::Value::Enum(n) => GValue::Enum(n.clone()),
        q::Value::List(l) => GValue::List(l.iter().map(from_value).collect()),
        q::Value::Object(m) => GValue::Obj(m.iter().map(|(k, v)| (k.clone(), from_value(v))).collect()),
    }
}
fn from_type(t: &q::Type) -> GType {
    crate::gen::to_gtype(t)
}
fn from_dirs(d: &[q::Directive]) -> Vec<GDir> {
    d.iter()
        .map(|x| GDir { name: x.name.clone(), args: x.arguments.iter().map(|(n, v)| (n.clone(), from_value(v))).collect() })
        .collect()
}
fn from_sels(s: &q::SelectionSet) -> Vec<GSel> {
    s.items
        .iter()
        .map(|x| match x {
            q::Selection::Field(f) => GSel::Field {
                alias: f.alias.clone(),
                name: f.name.clone(),
                args: f.arguments.iter().map(|(n, v)| (n.clone(), from_value(v))).collect(),
                dirs: from_dirs(&f.directives),
                sels: from_sels(&f.selection_set),
            },
            q::Selection::FragmentSpread(f) => GSel::Spread { name: f.fragment_name.clone(), dirs: from_dirs(&f.directives) },
            q::Selection::InlineFragment(f) => GSel::Inline {
                tc: f.type_condition.as_ref().map(|q::TypeCondition::On(n)| n.clone()),
                dirs: from_dirs(&f.directives),
                sels: from_sels(&f.selection_set),
            },
        })
        .collect()
}
fn from_vars(v: &[q::VariableDefinition]) -> Vec<GVar> {
    v.iter()
        .map(|x| GVar { name: x.name.clone(), ty: from_type(&x.var_type), default: x.default_value.as_ref().map(from_value) })
        .collect()
}
pub fn from_document(d: &q::Document) -> GDoc {
    GDoc(
        d.definitions
            .iter()
            .map(|def| match def {
                q::Definition::Operation(op) => match op {
                    q::OperationDefinition::SelectionSet(ss) => {
                        GDef::Op { kind: OpKind::SelSet, name: None, vars: vec![], dirs: vec![], sels: from_sels(ss) }
                    }
                    q::OperationDefinition::Query(x) => GDef::Op {
                        kind: OpKind::Query, name: x.name.clone(), vars: from_vars(&x.variable_definitions),
                        dirs: from_dirs(&x.directives), sels: from_sels(&x.selection_set) },
                    q::OperationDefinition::Mutation(x) => GDef::Op {
                        kind: OpKind::Mutation, name: x.name.clone(), vars: from_vars(&x.variable_definitions),
                        dirs: from_dirs(&x.directives), sels: from_sels(&x.selection_set) },
                    q::OperationDefinition::Subscription(x) => GDef::Op {
                        kind: OpKind::Subscription, name: x.name.clone(), vars: from_vars(&x.variable_definitions),
                        dirs: from_dirs(&x.directives), sels: from_sels(&x.selection_set) },
                },
                q::Definition::Fragment(f) => {
                    let q::TypeCondition::On(tc) = &f.type_condition;
                    GDef::Frag { name: f.name.clone(), tc: tc.clone(), dirs: from_dirs(&f.directives), sels: from_sels(&f.selection_set) }
                }
            })
            .collect(),
    )
}

fn value_reductions(v: &GValue) -> Vec<GValue> {
    let mut out = vec![];
    match v {
        GValue::List(l) => {
            for i in 0..l.len() {
                let mut c = l.clone();
                c.remove(i);
                out.push(GValue::List(c));
                out.push(l[i].clone());
                for r in value_reductions(&l[i]) {
                    let mut c = l.clone();
                    c[i] = r;
                    out.push(GValue::List(c));
                }
            }
        }
        GValue::Obj(l) => {
            for i in 0..l.len() {
                let mut c = l.clone();
                c.remove(i);
                out.push(GValue::Obj(c));
                for r in value_reductions(&l[i].1) {
                    let mut c = l.clone();
                    c[i].1 = r;
                    out.push(GValue::Obj(c));
                }
            }
        }
        GValue::Null => {}
        _ => {}
    }
    out
}

fn args_reductions(a: &[(String, GValue)]) -> Vec<Vec<(String, GValue)>> {
    let mut out = vec![];
    for i in 0..a.len() {
        let mut c = a.to_vec();
        c.remove(i);
        out.push(c);
        for r in value_reductions(&a[i].1) {
            let mut c = a.to_vec();
            c[i].1 = r;
            out.push(c);
        }
    }
    out
}

fn dirs_reductions(d: &[GDir]) -> Vec<Vec<GDir>> {
    let mut out = vec![];
    for i in 0..d.len() {
        let mut c = d.to_vec();
        c.remove(i);
        out.push(c);
        for r in args_reductions(&d[i].args) {
            let mut c = d.to_vec();
            c[i].args = r;
            out.push(c);
        }
    }
    out
}

/// all one-step reductions of a selection list; `allow_empty` = the list may become empty
fn sels_reductions(s: &[GSel], allow_empty: bool) -> Vec<Vec<GSel>> {
    let mut out = vec![];
    for i in 0..s.len() {
        if s.len() > 1 || allow_empty {
            let mut c = s.to_vec();
            c.remove(i);
            out.push(c);
        }
        match &s[i] {
            GSel::Field { alias, name, args, dirs, sels } => {
                if !sels.is_empty() {
                    // hoist the children
                    let mut c = s.to_vec();
                    c.splice(i..=i, sels.iter().cloned());
                    out.push(c);
                }
                if alias.is_some() {
                    let mut c = s.to_vec();
                    c[i] = GSel::Field { alias: None, name: name.clone(), args: args.clone(), dirs: dirs.clone(), sels: sels.clone() };
                    out.push(c);
                }
                for r in args_reductions(args) {
                    let mut c = s.to_vec();
                    c[i] = GSel::Field { alias: alias.clone(), name: name.clone(), args: r, dirs: dirs.clone(), sels: sels.clone() };
                    out.push(c);
                }
                for r in dirs_reductions(dirs) {
                    let mut c = s.to_vec();
                    c[i] = GSel::Field { alias: alias.clone(), name: name.clone(), args: args.clone(), dirs: r, sels: sels.clone() };
                    out.push(c);
                }
                for r in sels_reductions(sels, true) {
                    let mut c = s.to_vec();
                    c[i] = GSel::Field { alias: alias.clone(), name: name.clone(), args: args.clone(), dirs: dirs.clone(), sels: r };
                    out.push(c);
                }
            }
            GSel::Spread { name, dirs } => {
                for r in dirs_reductions(dirs) {
                    let mut c = s.to_vec();
                    c[i] = GSel::Spread { name: name.clone(), dirs: r };
                    out.push(c);
                }
            }
            GSel::Inline { tc, dirs, sels } => {
                let mut c = s.to_vec();
                c.splice(i..=i, sels.iter().cloned());
                out.push(c);
                if tc.is_some() {
                    let mut c = s.to_vec();
                    c[i] = GSel::Inline { tc: None, dirs: dirs.clone(), sels: sels.clone() };
                    out.push(c);
                }
                for r in dirs_reductions(dirs) {
                    let mut c = s.to_vec();
                    c[i] = GSel::Inline { tc: tc.clone(), dirs: r, sels: sels.clone() };
                    out.push(c);
                }
                for r in sels_reductions(sels, false) {
                    let mut c = s.to_vec();
                    c[i] = GSel::Inline { tc: tc.clone(), dirs: dirs.clone(), sels: r };
                    out.push(c);
                }
            }
        }
    }
    out
}

pub fn reductions(d: &GDoc) -> Vec<GDoc> {
    let mut out = vec![];
    for i in 0..d.0.len() {
        if d.0.len() > 1 {
            let mut c = d.0.clone();
            c.remove(i);
            out.push(GDoc(c));
        }
    }
    for i in 0..d.0.len() {
        match &d.0[i] {
            GDef::Op { kind, name, vars, dirs, sels } => {
                for r in sels_reductions(sels, false) {
                    let mut c = d.0.clone();
                    c[i] = GDef::Op { kind: *kind, name: name.clone(), vars: vars.clone(), dirs: dirs.clone(), sels: r };
                    out.push(GDoc(c));
                }
                for j in 0..vars.len() {
                    let mut v = vars.clone();
                    v.remove(j);
                    let mut c = d.0.clone();
                    c[i] = GDef::Op { kind: *kind, name: name.clone(), vars: v, dirs: dirs.clone(), sels: sels.clone() };
                    out.push(GDoc(c));
                    if vars[j].default.is_some() {
                        let mut v = vars.clone();
                        v[j].default = None;
                        let mut c = d.0.clone();
                        c[i] = GDef::Op { kind: *kind, name: name.clone(), vars: v, dirs: dirs.clone(), sels: sels.clone() };
                        out.push(GDoc(c));
                    }
                }
                for r in dirs_reductions(dirs) {
                    let mut c = d.0.clone();
                    c[i] = GDef::Op { kind: *kind, name: name.clone(), vars: vars.clone(), dirs: r, sels: sels.clone() };
                    out.push(GDoc(c));
                }
                if name.is_some() {
                    let mut c = d.0.clone();
                    c[i] = GDef::Op { kind: *kind, name: None, vars: vars.clone(), dirs: dirs.clone(), sels: sels.clone() };
                    out.push(GDoc(c));
                }
            }
            GDef::Frag { name, tc, dirs, sels } => {
                for r in sels_reductions(sels, false) {
                    let mut c = d.0.clone();
                    c[i] = GDef::Frag { name: name.clone(), tc: tc.clone(), dirs: dirs.clone(), sels: r };
                    out.push(GDoc(c));
                }
                for r in dirs_reductions(dirs) {
                    let mut c = d.0.clone();
                    c[i] = GDef::Frag { name: name.clone(), tc: tc.clone(), dirs: r, sels: sels.clone() };
                    out.push(GDoc(c));
                }
            }
        }
    }
    out
}

/// greedy shrinking; `pred` returns true while the candidate still shows the problem
pub fn shrink<F: FnMut(&str) -> bool>(start: &GDoc, mut pred: F, max_steps: usize) -> GDoc {
    let mut cur = start.clone();
    let mut steps = 0;
    'outer: loop {
        for cand in reductions(&cur) {
            steps += 1;
            if steps > max_steps {
                break 'outer;
            }
            if pred(&cand.print()) {
                cur = cand;
                continue 'outer;
            }
        }
        break;
    }
    cur
}

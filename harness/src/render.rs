//! Canonical rendering of implementation-side observations, in the format of
//! coq/theories/Render.v.
use graphql_tools::ast::OperationVisitorContext;
use graphql_tools::static_graphql::{query as q, schema as s};

pub fn pos(p: &graphql_tools::parser::Pos) -> String {
    format!("{}:{}", p.line, p.column)
}
pub fn oname(o: &Option<String>) -> String {
    o.clone().unwrap_or_else(|| "-".to_string())
}
pub fn td(t: &s::TypeDefinition) -> String {
    match t {
        s::TypeDefinition::Object(x) => format!("O:{}", x.name),
        s::TypeDefinition::Interface(x) => format!("I:{}", x.name),
        s::TypeDefinition::Union(x) => format!("U:{}", x.name),
        s::TypeDefinition::Scalar(x) => format!("S:{}", x.name),
        s::TypeDefinition::Enum(x) => format!("E:{}", x.name),
        s::TypeDefinition::InputObject(x) => format!("N:{}", x.name),
    }
}
pub fn otd(t: Option<&s::TypeDefinition>) -> String {
    t.map(td).unwrap_or_else(|| "-".to_string())
}
pub fn oty(t: Option<&q::Type>) -> String {
    t.map(crate::sx::ty_display).unwrap_or_else(|| "-".to_string())
}
pub fn answers(c: &OperationVisitorContext) -> String {
    let f = match c.current_field() {
        Some(f) => format!("{}:{}", f.name, crate::sx::ty_display(&f.field_type)),
        None => "-".to_string(),
    };
    format!(
        "T={} TL={} P={} F={} I={} IL={}",
        otd(c.current_type()),
        oty(c.current_type_literal()),
        otd(c.current_parent_type()),
        f,
        otd(c.current_input_type()),
        oty(c.current_input_type_literal())
    )
}

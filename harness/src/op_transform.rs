//! C17: probe transformers.  Every overridable hook named by the property logs its call,
//! delegates to the default method and — when its bit of `mask` is set and the node is chosen —
//! replaces the (rebuilt) node in a recognisable way.  Same choices as coq/theories/Probe.v.
use graphql_tools::ast::{OperationTransformer, Transformed, TransformedValue};
use graphql_tools::static_graphql::query as q;

pub struct Probe {
    pub mask: u64,
    pub k: u64,
    pub salt: u64,
    pub log: Vec<String>,
}

impl Probe {
    fn bit(&self, i: u32) -> bool {
        self.mask & (1 << i) != 0
    }
    fn chosen(&self, n: u64, extra: u64) -> bool {
        (n + self.salt + extra) % self.k.max(1) == 0
    }
}

fn pos_code(p: &graphql_tools::parser::Pos) -> u64 {
    (p.line as u64) * 31 + p.column as u64
}
fn oname(o: &Option<String>) -> String {
    o.clone().unwrap_or_else(|| "-".into())
}
fn op_parts(o: &q::OperationDefinition) -> (&'static str, Option<graphql_tools::parser::Pos>, Option<String>) {
    match o {
        q::OperationDefinition::SelectionSet(_) => ("sel", None, None),
        q::OperationDefinition::Query(x) => ("query", Some(x.position), x.name.clone()),
        q::OperationDefinition::Mutation(x) => ("mutation", Some(x.position), x.name.clone()),
        q::OperationDefinition::Subscription(x) => ("subscription", Some(x.position), x.name.clone()),
    }
}
fn rename_op(o: &q::OperationDefinition, suffix: &str) -> q::OperationDefinition {
    let mut c = o.clone();
    let f = |n: &Option<String>| Some(match n {
        Some(x) => format!("{}{}", x, suffix),
        None => suffix.to_string(),
    });
    match &mut c {
        q::OperationDefinition::Query(x) => x.name = f(&x.name),
        q::OperationDefinition::Mutation(x) => x.name = f(&x.name),
        q::OperationDefinition::Subscription(x) => x.name = f(&x.name),
        q::OperationDefinition::SelectionSet(_) => {}
    }
    c
}

impl OperationTransformer<'static, String> for Probe {
    fn transform_definition(&mut self, d: &q::Definition) -> Transformed<q::Definition> {
        match d {
            q::Definition::Operation(o) => {
                let (k, _, n) = op_parts(o);
                self.log.push(format!("H Definition op {} {}", k, oname(&n)));
            }
            q::Definition::Fragment(f) => self.log.push(format!("H Definition frag {}", f.name)),
        }
        let r = self.default_transform_definition(d);
        let cur = match &r {
            Transformed::Keep => d.clone(),
            Transformed::Replace(x) => x.clone(),
        };
        if self.bit(0) {
            match &cur {
                q::Definition::Operation(o) => {
                    if let (_, Some(p), _) = op_parts(o) {
                        if self.chosen(pos_code(&p), 1) {
                            return Transformed::Replace(q::Definition::Operation(rename_op(o, "_d")));
                        }
                    }
                }
                q::Definition::Fragment(f) => {
                    if self.chosen(pos_code(&f.position), 1) {
                        let mut c = f.clone();
                        c.name.push_str("_d");
                        return Transformed::Replace(q::Definition::Fragment(c));
                    }
                }
            }
        }
        r
    }

    fn transform_operation(&mut self, o: &q::OperationDefinition) -> Transformed<q::OperationDefinition> {
        let (k, _, n) = op_parts(o);
        self.log.push(format!("H Operation {} {}", k, oname(&n)));
        let r = self.default_transform_operation(o);
        let cur = match &r {
            Transformed::Keep => o.clone(),
            Transformed::Replace(x) => x.clone(),
        };
        if self.bit(1) {
            if let (_, Some(p), _) = op_parts(&cur) {
                if self.chosen(pos_code(&p), 0) {
                    return Transformed::Replace(rename_op(&cur, "_x"));
                }
            }
        }
        r
    }

    fn transform_fragment(&mut self, f: &q::FragmentDefinition) -> Transformed<q::FragmentDefinition> {
        self.log.push(format!("H Fragment {}:{} {}", f.position.line, f.position.column, f.name));
        let r = self.default_transform_fragment(f);
        let cur = match &r {
            Transformed::Keep => f.clone(),
            Transformed::Replace(x) => x.clone(),
        };
        if self.bit(2) && self.chosen(pos_code(&cur.position), 0) {
            let mut c = cur;
            c.name.push_str("_x");
            return Transformed::Replace(c);
        }
        r
    }

    fn transform_selection_set(&mut self, ss: &q::SelectionSet) -> TransformedValue<Vec<q::Selection>> {
        self.log.push(format!("H SelectionSet {}", ss.items.len()));
        let r = self.transform_list(&ss.items, Self::transform_selection);
        let cur: Vec<q::Selection> = match &r {
            TransformedValue::Keep => ss.items.clone(),
            TransformedValue::Replace(x) => x.clone(),
        };
        if self.bit(3) && cur.len() >= 2 && self.chosen(cur.len() as u64, 0) {
            let mut c = cur;
            c.reverse();
            return TransformedValue::Replace(c);
        }
        r
    }

    fn transform_field(&mut self, f: &q::Field) -> Transformed<q::Selection> {
        self.log.push(format!("H Field {}:{} {}", f.position.line, f.position.column, f.name));
        let r = self.default_transform_field(f);
        let cur = match &r {
            Transformed::Keep => q::Selection::Field(f.clone()),
            Transformed::Replace(x) => x.clone(),
        };
        if let q::Selection::Field(cf) = &cur {
            if self.bit(4) && self.chosen(pos_code(&cf.position), 0) {
                let mut c = cf.clone();
                c.name.push_str("_x");
                return Transformed::Replace(q::Selection::Field(c));
            }
        }
        r
    }

    fn transform_fragment_spread(&mut self, f: &q::FragmentSpread) -> Transformed<q::Selection> {
        self.log.push(format!("H Spread {}:{} {}", f.position.line, f.position.column, f.fragment_name));
        let r = self.default_transform_fragment_spread(f);
        let cur = match &r {
            Transformed::Keep => q::Selection::FragmentSpread(f.clone()),
            Transformed::Replace(x) => x.clone(),
        };
        if let q::Selection::FragmentSpread(cf) = &cur {
            if self.bit(5) && self.chosen(pos_code(&cf.position), 0) {
                let mut c = cf.clone();
                c.fragment_name.push_str("_x");
                return Transformed::Replace(q::Selection::FragmentSpread(c));
            }
        }
        r
    }

    fn transform_inline_fragment(&mut self, f: &q::InlineFragment) -> Transformed<q::Selection> {
        let tc = match &f.type_condition {
            Some(q::TypeCondition::On(n)) => n.clone(),
            None => "-".into(),
        };
        self.log.push(format!("H Inline {}:{} {}", f.position.line, f.position.column, tc));
        let r = self.default_transform_inline_fragment(f);
        let cur = match &r {
            Transformed::Keep => q::Selection::InlineFragment(f.clone()),
            Transformed::Replace(x) => x.clone(),
        };
        if let q::Selection::InlineFragment(cf) = &cur {
            if self.bit(6) && self.chosen(pos_code(&cf.position), 0) {
                let mut c = cf.clone();
                c.type_condition = Some(q::TypeCondition::On(match &cf.type_condition {
                    Some(q::TypeCondition::On(n)) => format!("{}_x", n),
                    None => "_x".to_string(),
                }));
                return Transformed::Replace(q::Selection::InlineFragment(c));
            }
        }
        r
    }

    fn transform_directive(&mut self, d: &q::Directive) -> Transformed<q::Directive> {
        self.log.push(format!("H Directive {}:{} {}", d.position.line, d.position.column, d.name));
        let r = self.default_transform_directive(d);
        let cur = match &r {
            Transformed::Keep => d.clone(),
            Transformed::Replace(x) => x.clone(),
        };
        if self.bit(7) && self.chosen(pos_code(&cur.position), 0) {
            let mut c = cur;
            c.name.push_str("_x");
            return Transformed::Replace(c);
        }
        r
    }

    fn transform_argument(&mut self, a: &(String, q::Value)) -> Transformed<(String, q::Value)> {
        self.log.push(format!("H Argument {}", a.0));
        let r = self.default_transform_argument(a);
        let cur = match &r {
            Transformed::Keep => a.clone(),
            Transformed::Replace(x) => x.clone(),
        };
        if self.bit(8) && self.chosen(cur.0.len() as u64, 0) {
            return Transformed::Replace((format!("{}_x", cur.0), cur.1));
        }
        r
    }

    fn transform_value(&mut self, v: &q::Value) -> TransformedValue<q::Value> {
        self.log.push(format!("H Value {}", crate::sx::value(v)));
        let r = self.default_transform_value(v);
        if self.bit(9) {
            match v {
                q::Value::Int(n) => {
                    let z = n.as_i64().unwrap();
                    if self.chosen(z.unsigned_abs(), 0) {
                        // re-parse to build a Number
                        let text = format!("{{f(x:{})}}", z + 1);
                        if let Ok(d) = graphql_tools::parser::parse_query::<String>(&text) {
                            let d = d.into_static();
                            if let q::Definition::Operation(q::OperationDefinition::SelectionSet(ss)) = &d.definitions[0] {
                                if let q::Selection::Field(f) = &ss.items[0] {
                                    return TransformedValue::Replace(f.arguments[0].1.clone());
                                }
                            }
                        }
                    }
                }
                q::Value::String(s) => {
                    if self.chosen(s.len() as u64, 0) {
                        return TransformedValue::Replace(q::Value::String(format!("{}_x", s)));
                    }
                }
                _ => {}
            }
        }
        r
    }

    fn transform_variable_definition(&mut self, v: &q::VariableDefinition) -> TransformedValue<q::VariableDefinition> {
        self.log.push(format!("H VarDef {}:{} {}", v.position.line, v.position.column, v.name));
        let r = self.default_transform_variable_definition(v);
        let cur = match &r {
            TransformedValue::Keep => v.clone(),
            TransformedValue::Replace(x) => x.clone(),
        };
        if self.bit(10) && self.chosen(pos_code(&cur.position), 0) {
            let mut c = cur;
            c.name.push_str("_x");
            return TransformedValue::Replace(c);
        }
        r
    }
}

pub fn run_transform(doc: &q::Document, mask: u64, k: u64, salt: u64) -> Vec<String> {
    let mut p = Probe { mask, k, salt, log: vec![] };
    let r = p.transform_document(doc);
    let mut out = p.log.clone();
    let result = match r {
        TransformedValue::Keep => {
            out.push("RESULT keep".into());
            doc.clone()
        }
        TransformedValue::Replace(d) => {
            out.push("RESULT replace".into());
            d
        }
    };
    out.push(format!("DOC {}", crate::sx::document(&result)));
    out
}

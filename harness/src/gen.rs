//! Grammar-random, schema-aware document generator: names are drawn from the schema with
//! probability `p_known` and from pools of unknown / meta names otherwise, so one generator
//! yields mostly-valid documents as well as arbitrarily invalid ones.
use crate::gast::*;
use crate::rng::Rng;
use graphql_tools::static_graphql::{query as q, schema as s};

pub struct SchemaInfo {
    pub name: String,
    pub sdl: String,
    pub doc: s::Document,
}

impl SchemaInfo {
    pub fn new(name: &str, sdl: &str) -> SchemaInfo {
        let doc = graphql_tools::parser::parse_schema::<String>(sdl)
            .expect("schema parses")
            .into_static();
        SchemaInfo { name: name.to_string(), sdl: sdl.to_string(), doc }
    }
    pub fn types(&self) -> Vec<&s::TypeDefinition> {
        self.doc
            .definitions
            .iter()
            .filter_map(|d| match d {
                s::Definition::TypeDefinition(t) => Some(t),
                _ => None,
            })
            .collect()
    }
    pub fn type_by_name(&self, n: &str) -> Option<&s::TypeDefinition> {
        self.types().into_iter().find(|t| tname(t) == n)
    }
    pub fn directives(&self) -> Vec<&s::DirectiveDefinition> {
        self.doc
            .definitions
            .iter()
            .filter_map(|d| match d {
                s::Definition::DirectiveDefinition(t) => Some(t),
                _ => None,
            })
            .collect()
    }
    pub fn schema_def(&self) -> Option<&s::SchemaDefinition> {
        self.doc.definitions.iter().find_map(|d| match d {
            s::Definition::SchemaDefinition(t) => Some(t),
            _ => None,
        })
    }
    /// root type name as the specification prescribes it
    pub fn root(&self, kind: OpKind) -> Option<String> {
        let n = match self.schema_def() {
            Some(sd) => match kind {
                OpKind::Query | OpKind::SelSet => sd.query.clone(),
                OpKind::Mutation => sd.mutation.clone(),
                OpKind::Subscription => sd.subscription.clone(),
            },
            None => Some(
                match kind {
                    OpKind::Query | OpKind::SelSet => "Query",
                    OpKind::Mutation => "Mutation",
                    OpKind::Subscription => "Subscription",
                }
                .to_string(),
            ),
        }?;
        match self.type_by_name(&n) {
            Some(s::TypeDefinition::Object(_)) => Some(n),
            _ => None,
        }
    }
    pub fn composite_names(&self) -> Vec<String> {
        self.types()
            .into_iter()
            .filter(|t| matches!(t, s::TypeDefinition::Object(_) | s::TypeDefinition::Interface(_) | s::TypeDefinition::Union(_)))
            .map(|t| tname(t).to_string())
            .collect()
    }
    pub fn input_names(&self) -> Vec<String> {
        self.types()
            .into_iter()
            .filter(|t| matches!(t, s::TypeDefinition::Scalar(_) | s::TypeDefinition::Enum(_) | s::TypeDefinition::InputObject(_)))
            .map(|t| tname(t).to_string())
            .collect()
    }
    pub fn all_type_names(&self) -> Vec<String> {
        self.types().into_iter().map(|t| tname(t).to_string()).collect()
    }
}

pub fn tname(t: &s::TypeDefinition) -> &str {
    match t {
        s::TypeDefinition::Scalar(x) => &x.name,
        s::TypeDefinition::Object(x) => &x.name,
        s::TypeDefinition::Interface(x) => &x.name,
        s::TypeDefinition::Union(x) => &x.name,
        s::TypeDefinition::Enum(x) => &x.name,
        s::TypeDefinition::InputObject(x) => &x.name,
    }
}
pub fn tfields(t: &s::TypeDefinition) -> &[s::Field] {
    match t {
        s::TypeDefinition::Object(x) => &x.fields,
        s::TypeDefinition::Interface(x) => &x.fields,
        _ => &[],
    }
}
pub fn inner_name(t: &q::Type) -> &str {
    match t {
        q::Type::NamedType(n) => n,
        q::Type::ListType(c) | q::Type::NonNullType(c) => inner_name(c),
    }
}
pub fn to_gtype(t: &q::Type) -> GType {
    match t {
        q::Type::NamedType(n) => GType::Named(n.clone()),
        q::Type::ListType(c) => GType::List(Box::new(to_gtype(c))),
        q::Type::NonNullType(c) => GType::NonNull(Box::new(to_gtype(c))),
    }
}

#[derive(Clone)]
pub struct GenCfg {
    pub p_known: u32,
    pub max_depth: usize,
    pub max_width: usize,
    pub max_ops: usize,
    pub max_frags: usize,
    pub p_var: u32,
    pub p_dir: u32,
    pub p_typed_value: u32,
}

impl GenCfg {
    pub fn mostly_valid() -> GenCfg {
        GenCfg { p_known: 92, max_depth: 5, max_width: 4, max_ops: 2, max_frags: 3, p_var: 15, p_dir: 12, p_typed_value: 90 }
    }
    pub fn wild() -> GenCfg {
        GenCfg { p_known: 60, max_depth: 6, max_width: 4, max_ops: 3, max_frags: 4, p_var: 20, p_dir: 25, p_typed_value: 50 }
    }
    pub fn deep() -> GenCfg {
        GenCfg { p_known: 85, max_depth: 12, max_width: 2, max_ops: 1, max_frags: 2, p_var: 10, p_dir: 10, p_typed_value: 80 }
    }
}

const UNKNOWN_FIELDS: &[&str] = &["zz", "nope", "__typename", "__typename", "__schema", "__type", "__foo", "a", "name", "id"];
const UNKNOWN_TYPES: &[&str] = &["Nope", "Unknown", "__Nope", "String", "Int"];
const UNKNOWN_ARGS: &[&str] = &["zz", "if", "arg", "x"];
const UNKNOWN_DIRS: &[&str] = &["nope", "skip", "include", "deprecated"];
pub const VAR_POOL: &[&str] = &["a", "b", "c", "d"];
const STR_POOL: &[&str] = &["", "x", "hello world", "RED", "1", "é\"q\\"];
const ENUM_POOL: &[&str] = &["RED", "GREEN", "SIT", "BROWN", "NOPE", "x"];
const FLOATS: &[&str] = &["1.5", "0.0", "-0.0", "-2.25", "1e3", "3.0", "0.3", "0.30000000000000004", "1e-20", "2e-20", "1e-300"];
const INTS: &[i64] = &[0, 1, -1, 5, 42, 2147483647, 2147483648, -2147483648, -2147483649, 9007199254740993];

pub struct Gen<'a> {
    pub rng: Rng,
    pub si: &'a SchemaInfo,
    pub cfg: GenCfg,
    pub frag_names: Vec<String>,
}

impl<'a> Gen<'a> {
    pub fn new(rng: Rng, si: &'a SchemaInfo, cfg: GenCfg) -> Gen<'a> {
        Gen { rng, si, cfg, frag_names: vec![] }
    }

    pub fn random_value(&mut self, depth: usize) -> GValue {
        let k = self.rng.below(if depth >= 3 { 7 } else { 9 });
        match k {
            0 => GValue::Var(self.rng.pick(VAR_POOL).to_string()),
            1 => GValue::Int(*self.rng.pick(INTS)),
            2 => GValue::Float(self.rng.pick(FLOATS).to_string()),
            3 => GValue::Str(self.rng.pick(STR_POOL).to_string()),
            4 => GValue::Bool(self.rng.pct(50)),
            5 => GValue::Null,
            6 => GValue::Enum(self.rng.pick(ENUM_POOL).to_string()),
            7 => {
                let n = self.rng.below(4);
                GValue::List((0..n).map(|_| self.random_value(depth + 1)).collect())
            }
            _ => {
                let n = self.rng.below(3);
                let mut keys: Vec<String> = vec![];
                let mut out = vec![];
                for _ in 0..n {
                    let k = self.rng.pick(&["x", "y", "label", "color", "point", "requiredField", "intField"]).to_string();
                    if !keys.contains(&k) {
                        keys.push(k.clone());
                        out.push((k, self.random_value(depth + 1)));
                    }
                }
                GValue::Obj(out)
            }
        }
    }

    /// a literal for expected type `t`: coercible with high probability, with targeted slips
    pub fn typed_value(&mut self, t: &q::Type, depth: usize) -> GValue {
        if self.rng.pct(self.cfg.p_var) {
            return GValue::Var(self.rng.pick(VAR_POOL).to_string());
        }
        if !self.rng.pct(self.cfg.p_typed_value) || depth > 4 {
            return self.random_value(depth);
        }
        match t {
            q::Type::NonNullType(c) => {
                if self.rng.pct(4) {
                    GValue::Null
                } else {
                    self.typed_value(c, depth)
                }
            }
            q::Type::ListType(c) => {
                let r = self.rng.below(100);
                if r < 75 {
                    let n = self.rng.below(4);
                    GValue::List((0..n).map(|_| self.typed_value(c, depth + 1)).collect())
                } else if r < 90 {
                    self.typed_value(c, depth + 1)
                } else {
                    GValue::Null
                }
            }
            q::Type::NamedType(n) => {
                if self.rng.pct(5) {
                    return GValue::Null;
                }
                match n.as_str() {
                    "Int" => GValue::Int(*self.rng.pick(INTS)),
                    "Float" => {
                        if self.rng.pct(30) {
                            GValue::Int(*self.rng.pick(INTS))
                        } else {
                            GValue::Float(self.rng.pick(FLOATS).to_string())
                        }
                    }
                    "String" => GValue::Str(self.rng.pick(STR_POOL).to_string()),
                    "Boolean" => GValue::Bool(self.rng.pct(50)),
                    "ID" => {
                        if self.rng.pct(50) {
                            GValue::Int(*self.rng.pick(INTS))
                        } else {
                            GValue::Str(self.rng.pick(STR_POOL).to_string())
                        }
                    }
                    _ => match self.si.type_by_name(n) {
                        Some(s::TypeDefinition::Enum(e)) => {
                            if e.values.is_empty() || self.rng.pct(8) {
                                GValue::Enum("NOPE".to_string())
                            } else {
                                GValue::Enum(self.rng.pick(&e.values).name.clone())
                            }
                        }
                        Some(s::TypeDefinition::InputObject(io)) => {
                            let mut out = vec![];
                            for f in &io.fields {
                                let required = matches!(f.value_type, q::Type::NonNullType(_)) && f.default_value.is_none();
                                let include = if required { !self.rng.pct(6) } else { self.rng.pct(40) };
                                if include && depth < 3 {
                                    out.push((f.name.clone(), self.typed_value(&f.value_type, depth + 1)));
                                } else if include {
                                    out.push((f.name.clone(), GValue::Null));
                                }
                            }
                            if self.rng.pct(6) {
                                out.push(("zzUnknown".to_string(), GValue::Int(1)));
                            }
                            GValue::Obj(out)
                        }
                        _ => self.random_value(depth),
                    },
                }
            }
        }
    }

    fn gen_args(&mut self, defs: Option<&[s::InputValue]>) -> Vec<(String, GValue)> {
        let mut out: Vec<(String, GValue)> = vec![];
        if let Some(defs) = defs {
            for d in defs {
                let required = matches!(d.value_type, q::Type::NonNullType(_)) && d.default_value.is_none();
                let include = if required { !self.rng.pct(5) } else { self.rng.pct(45) };
                if include {
                    out.push((d.name.clone(), self.typed_value(&d.value_type, 0)));
                }
            }
            if !out.is_empty() && self.rng.pct(4) {
                let dup = out[self.rng.below(out.len())].clone();
                out.push(dup);
            }
            if self.rng.pct(30) {
                self.rng.shuffle(&mut out);
            }
        }
        if !self.rng.pct(self.cfg.p_known) && self.rng.pct(50) {
            out.push((self.rng.pick(UNKNOWN_ARGS).to_string(), self.random_value(1)));
        }
        out
    }

    pub fn gen_dirs(&mut self, loc: &str) -> Vec<GDir> {
        let mut out = vec![];
        while self.rng.pct(self.cfg.p_dir) && out.len() < 3 {
            let dirs = self.si.directives();
            if !dirs.is_empty() && self.rng.pct(self.cfg.p_known) {
                // prefer a directive valid at this location
                let ok: Vec<&&s::DirectiveDefinition> =
                    dirs.iter().filter(|d| d.locations.iter().any(|l| l.as_str() == loc)).collect();
                let d: &s::DirectiveDefinition = if !ok.is_empty() && self.rng.pct(self.cfg.p_known) {
                    ok[self.rng.below(ok.len())]
                } else {
                    dirs[self.rng.below(dirs.len())]
                };
                let args = self.gen_args(Some(&d.arguments));
                out.push(GDir { name: d.name.clone(), args });
            } else {
                let args = self.gen_args(None);
                out.push(GDir { name: self.rng.pick(UNKNOWN_DIRS).to_string(), args });
            }
        }
        out
    }

    fn type_cond(&mut self, parent: Option<&s::TypeDefinition>) -> String {
        if self.rng.pct(self.cfg.p_known) {
            let comps = self.si.composite_names();
            // bias towards types related to the parent
            if let Some(p) = parent {
                if self.rng.pct(60) {
                    let pn = tname(p).to_string();
                    let mut rel = vec![pn.clone()];
                    match p {
                        s::TypeDefinition::Union(u) => rel.extend(u.types.iter().cloned()),
                        s::TypeDefinition::Interface(_) => {
                            for t in self.si.types() {
                                let ifs = match t {
                                    s::TypeDefinition::Object(o) => &o.implements_interfaces,
                                    s::TypeDefinition::Interface(i) => &i.implements_interfaces,
                                    _ => continue,
                                };
                                if ifs.contains(&pn) {
                                    rel.push(tname(t).to_string());
                                }
                            }
                        }
                        s::TypeDefinition::Object(o) => rel.extend(o.implements_interfaces.iter().cloned()),
                        _ => {}
                    }
                    return self.rng.pick(&rel).clone();
                }
            }
            if !comps.is_empty() {
                return self.rng.pick(&comps).clone();
            }
        }
        if self.rng.pct(50) {
            let all = self.si.all_type_names();
            self.rng.pick(&all).clone()
        } else {
            self.rng.pick(UNKNOWN_TYPES).to_string()
        }
    }

    pub fn gen_sels(&mut self, parent: Option<&s::TypeDefinition>, depth: usize) -> Vec<GSel> {
        let n = self.rng.range(1, self.cfg.max_width);
        let mut out = vec![];
        for _ in 0..n {
            let r = self.rng.below(100);
            if r < 65 || depth >= self.cfg.max_depth {
                out.push(self.gen_field(parent, depth));
            } else if r < 80 {
                let name = if !self.frag_names.is_empty() && self.rng.pct(self.cfg.p_known.max(70)) {
                    self.rng.pick(&self.frag_names).clone()
                } else {
                    "UnknownFrag".to_string()
                };
                let dirs = self.gen_dirs("FRAGMENT_SPREAD");
                out.push(GSel::Spread { name, dirs });
            } else {
                let tc = if self.rng.pct(30) { None } else { Some(self.type_cond(parent)) };
                let t = match &tc {
                    Some(n) => self.si.type_by_name(n),
                    None => parent,
                };
                let dirs = self.gen_dirs("INLINE_FRAGMENT");
                let sels = self.gen_sels(t, depth + 1);
                out.push(GSel::Inline { tc, dirs, sels });
            }
        }
        out
    }

    fn gen_field(&mut self, parent: Option<&s::TypeDefinition>, depth: usize) -> GSel {
        let fields: &[s::Field] = parent.map(tfields).unwrap_or(&[]);
        let def: Option<&s::Field> = if !fields.is_empty() && self.rng.pct(self.cfg.p_known) {
            Some(&fields[self.rng.below(fields.len())])
        } else {
            None
        };
        let name = match def {
            Some(d) => d.name.clone(),
            None => self.rng.pick(UNKNOWN_FIELDS).to_string(),
        };
        let alias = if self.rng.pct(15) {
            Some(self.rng.pick(&["x", "y", "name", "a", "b"]).to_string())
        } else {
            None
        };
        let args = self.gen_args(def.map(|d| d.arguments.as_slice()));
        let dirs = self.gen_dirs("FIELD");
        let child = def.and_then(|d| self.si.type_by_name(inner_name(&d.field_type)));
        let sels = match (def, child) {
            (Some(_), Some(ct))
                if matches!(ct, s::TypeDefinition::Object(_) | s::TypeDefinition::Interface(_) | s::TypeDefinition::Union(_)) =>
            {
                if depth < self.cfg.max_depth && !self.rng.pct(4) {
                    self.gen_sels(Some(ct), depth + 1)
                } else if depth >= self.cfg.max_depth {
                    vec![GSel::Field { alias: None, name: "__typename".into(), args: vec![], dirs: vec![], sels: vec![] }]
                } else {
                    vec![]
                }
            }
            (Some(_), _) => {
                if self.rng.pct(3) && depth < self.cfg.max_depth {
                    self.gen_sels(None, depth + 1)
                } else {
                    vec![]
                }
            }
            (None, _) => {
                if self.rng.pct(25) && depth < self.cfg.max_depth {
                    self.gen_sels(None, depth + 1)
                } else {
                    vec![]
                }
            }
        };
        GSel::Field { alias, name, args, dirs, sels }
    }

    fn gen_var_type(&mut self) -> GType {
        let names = self.si.input_names();
        let base = if !names.is_empty() && self.rng.pct(self.cfg.p_known) {
            self.rng.pick(&names).clone()
        } else if self.rng.pct(50) {
            let all = self.si.all_type_names();
            self.rng.pick(&all).clone()
        } else {
            self.rng.pick(UNKNOWN_TYPES).to_string()
        };
        let mut t = GType::Named(base);
        for _ in 0..self.rng.below(3) {
            t = match self.rng.below(3) {
                0 => GType::List(Box::new(t)),
                1 => match t {
                    GType::NonNull(_) => t,
                    _ => GType::NonNull(Box::new(t)),
                },
                _ => t,
            };
        }
        t
    }

    fn gtype_to_q(t: &GType) -> q::Type {
        match t {
            GType::Named(n) => q::Type::NamedType(n.clone()),
            GType::List(c) => q::Type::ListType(Box::new(Self::gtype_to_q(c))),
            GType::NonNull(c) => q::Type::NonNullType(Box::new(Self::gtype_to_q(c))),
        }
    }

    pub fn gen_doc(&mut self) -> GDoc {
        let nfrags = self.rng.below(self.cfg.max_frags + 1);
        self.frag_names = (0..nfrags).map(|i| format!("F{}", i)).collect();
        if nfrags > 1 && self.rng.pct(5) {
            self.frag_names[1] = "F0".to_string();
        }
        let nops = self.rng.range(if nfrags == 0 { 1 } else { 0 }, self.cfg.max_ops).max(if self.rng.pct(97) { 1 } else { 0 });
        let mut defs = vec![];
        for i in 0..nops {
            let kind = match self.rng.below(10) {
                0 | 1 => OpKind::SelSet,
                2..=5 => OpKind::Query,
                6 | 7 => OpKind::Mutation,
                _ => OpKind::Subscription,
            };
            let name = if self.rng.pct(70) {
                Some(if self.rng.pct(8) { "Op0".to_string() } else { format!("Op{}", i) })
            } else {
                None
            };
            let mut vars = vec![];
            if kind != OpKind::SelSet {
                for vn in VAR_POOL {
                    if self.rng.pct(30) {
                        let ty = self.gen_var_type();
                        let default = if self.rng.pct(35) {
                            let qt = Self::gtype_to_q(&ty);
                            let save = self.cfg.p_var;
                            self.cfg.p_var = 0;
                            let v = self.typed_value(&qt, 0);
                            self.cfg.p_var = save;
                            Some(v)
                        } else {
                            None
                        };
                        vars.push(GVar { name: vn.to_string(), ty, default });
                        if self.rng.pct(3) {
                            let dup = vars[0].clone();
                            vars.push(dup);
                        }
                    }
                }
            }
            let loc = match kind {
                OpKind::Mutation => "MUTATION",
                OpKind::Subscription => "SUBSCRIPTION",
                _ => "QUERY",
            };
            let dirs = if kind == OpKind::SelSet { vec![] } else { self.gen_dirs(loc) };
            let root = self.si.root(kind).and_then(|n| self.si.type_by_name(&n));
            let sels = self.gen_sels(root, 0);
            defs.push(GDef::Op { kind, name, vars, dirs, sels });
        }
        for i in 0..nfrags {
            let tc = self.type_cond(None);
            let t = self.si.type_by_name(&tc);
            let dirs = self.gen_dirs("FRAGMENT_DEFINITION");
            let sels = self.gen_sels(t, 1);
            defs.push(GDef::Frag { name: self.frag_names[i].clone(), tc, dirs, sels });
        }
        if self.rng.pct(25) {
            self.rng.shuffle(&mut defs);
        }
        if defs.is_empty() {
            defs.push(GDef::Op { kind: OpKind::SelSet, name: None, vars: vec![], dirs: vec![],
                sels: vec![GSel::Field { alias: None, name: "__typename".into(), args: vec![], dirs: vec![], sels: vec![] }] });
        }
        GDoc(defs)
    }
}

//! Curated schema pool.  Every schema is self-contained: built-in scalars and @skip/@include
//! are spelled out, as the crate's own test harness does.
pub const BUILTINS: &str = "
directive @skip(if: Boolean!) on FIELD | FRAGMENT_SPREAD | INLINE_FRAGMENT
directive @include(if: Boolean!) on FIELD | FRAGMENT_SPREAD | INLINE_FRAGMENT
scalar Boolean
scalar Float
scalar Int
scalar ID
scalar String
";

/// src/validation/test_utils.rs TEST_SCHEMA (copied: it is cfg(test) in the crate)
pub const CRATE_TEST_SCHEMA: &str = "
interface Mammal {
  mother: Mammal
  father: Mammal
}
interface Pet {
  name(surname: Boolean): String
}
interface Canine implements Mammal {
  name(surname: Boolean): String
  mother: Canine
  father: Canine
}
enum DogCommand {
  SIT
  HEEL
  DOWN
}
type Dog implements Pet & Mammal & Canine {
  name(surname: Boolean): String
  nickname: String
  barkVolume: Int
  barks: Boolean
  doesKnowCommand(dogCommand: DogCommand): Boolean
  isHouseTrained(atOtherHomes: Boolean = true): Boolean
  isAtLocation(x: Int, y: Int): Boolean
  mother: Dog
  father: Dog
}
type Cat implements Pet {
  name(surname: Boolean): String
  nickname: String
  meows: Boolean
  meowsVolume: Int
  furColor: FurColor
}
union CatOrDog = Cat | Dog
type Human {
  name(surname: Boolean): String
  pets: [Pet]
  relatives: [Human]
}
enum FurColor {
  BROWN
  BLACK
  TAN
  SPOTTED
  NO_FUR
  UNKNOWN
}
input ComplexInput {
  requiredField: Boolean!
  nonNullField: Boolean! = false
  intField: Int
  stringField: String
  booleanField: Boolean
  stringListField: [String]
}
type ComplicatedArgs {
  intArgField(intArg: Int): String
  nonNullIntArgField(nonNullIntArg: Int!): String
  stringArgField(stringArg: String): String
  booleanArgField(booleanArg: Boolean): String
  enumArgField(enumArg: FurColor): String
  floatArgField(floatArg: Float): String
  idArgField(idArg: ID): String
  stringListArgField(stringListArg: [String]): String
  stringListNonNullArgField(stringListNonNullArg: [String!]): String
  complexArgField(complexArg: ComplexInput): String
  multipleReqs(req1: Int!, req2: Int!): String
  nonNullFieldWithDefault(arg: Int! = 0): String
  multipleOpts(opt1: Int = 0, opt2: Int = 0): String
  multipleOptAndReq(req1: Int!, req2: Int!, opt1: Int = 0, opt2: Int = 0): String
}
type QueryRoot {
  human(id: ID): Human
  dog: Dog
  cat: Cat
  pet: Pet
  catOrDog: CatOrDog
  complicatedArgs: ComplicatedArgs
}
type SubscriptionRoot {
  fieldB: String
  fieldC: Int
  dog: Dog
}
type MutationRoot {
  fieldB: String
}
schema {
  subscription: SubscriptionRoot
  mutation: MutationRoot
  query: QueryRoot
}
directive @onField on FIELD
directive @onQuery on QUERY
directive @onMutation on MUTATION
directive @onSubscription on SUBSCRIPTION
directive @onFragmentDefinition on FRAGMENT_DEFINITION
directive @onFragmentSpread on FRAGMENT_SPREAD
directive @onInlineFragment on INLINE_FRAGMENT
directive @testDirective on FIELD | FRAGMENT_DEFINITION
directive @repeatable repeatable on FIELD | FRAGMENT_DEFINITION
";

/// implicit root type names, interface chains, unions, every input shape, all directive locations
pub const IMPLICIT: &str = "
interface Node { id: ID! }
interface Named implements Node { id: ID! name(upper: Boolean = false): String }
interface Sized { size: Int }
type A implements Node & Named { id: ID! name(upper: Boolean = false): String a: Int other: B self: A kids: [A!]! }
type B implements Node & Named & Sized { id: ID! name(upper: Boolean = false): String size: Int b: Float other: A color: Color }
type C implements Sized { size: Int c: String color: Color! matrix: [[Int]] }
union AB = A | B
union BC = B | C
union OnlyC = C
enum Color { RED GREEN BLUE }
scalar Date
input Point { x: Int! y: Int! = 0 label: String tags: [String!] }
input Filter { color: Color point: Point points: [Point!] and: [Filter] not: Filter when: Date ids: [ID!]! deep: [[Int!]] }
type Query {
  node(id: ID!): Node
  named(name: String = \"x\"): Named
  sized: Sized
  a: A
  b: B
  c: C
  ab: AB
  bc: BC
  onlyC: OnlyC
  search(filter: Filter, first: Int = 10, colors: [Color!], nl: [Int!]!, ll: [[Int]], req: Int!, dflt: Int! = 5): [Node]
  scalarArgs(i: Int, f: Float, s: String, b: Boolean, id: ID, d: Date, e: Color): String
  listArgs(l: [Int], ln: [Int]!, nl: [Int!], nln: [Int!]!, ll: [[Int]], lnl: [[Int]!], p: [Point], pn: [Point!]!): String
}
type Mutation { setA(a: Int!): A setColor(c: Color = RED): Color touch: Boolean }
type Subscription { onA: A onB(color: Color): B tick: Int }
directive @onQ on QUERY
directive @onM on MUTATION
directive @onS on SUBSCRIPTION
directive @onF(arg: Int, req: Boolean!) on FIELD
directive @onFD on FRAGMENT_DEFINITION
directive @onFS on FRAGMENT_SPREAD
directive @onIF on INLINE_FRAGMENT
directive @everywhere(note: String) repeatable on QUERY | MUTATION | SUBSCRIPTION | FIELD | FRAGMENT_DEFINITION | FRAGMENT_SPREAD | INLINE_FRAGMENT
directive @once on QUERY | MUTATION | SUBSCRIPTION | FIELD | FRAGMENT_DEFINITION | FRAGMENT_SPREAD | INLINE_FRAGMENT
directive @typeOnly on OBJECT | FIELD_DEFINITION
";

/// the smallest possible schema
pub const MINIMAL: &str = "
type Query { a: String t: T }
type T { a: String b: Int t: T l: [T] }
";

/// explicit schema definition that lists only `query`, although types named Mutation and
/// Subscription exist (the schema then prescribes no mutation / subscription root)
pub const EXPLICIT_QUERY_ONLY: &str = "
schema { query: Root }
type Root { a: String m: Mutation }
type Mutation { x: Int }
type Subscription { y: Int z: Int }
";

/// src/validation/rules/fields_on_correct_type.rs test schema (implicit roots)
pub const PETS: &str = "
interface Pet { name: String }
type Dog implements Pet { name: String nickname: String barkVolume: Int }
type Cat implements Pet { name: String nickname: String meowVolume: Int }
union CatOrDog = Cat | Dog
type Human { name: String pets: [Pet] }
type Query { human: Human }
type Mutation { deletePetByName(name: String): Pet }
type Subscription { onNewPet: Pet }
";

/// the crate's INTROSPECTION_SCHEMA part (meta types spelled out as ordinary types)
pub const INTROSPECTION_TYPES: &str = "
type Query {
  __schema: __Schema!
  __type(name: String!): __Type
}
type __Schema {
  types: [__Type!]!
  queryType: __Type!
  mutationType: __Type
  subscriptionType: __Type
  directives: [__Directive!]!
}
type __Type {
  kind: __TypeKind!
  name: String
  description: String
  fields(includeDeprecated: Boolean = false): [__Field!]
  interfaces: [__Type!]
  possibleTypes: [__Type!]
  enumValues(includeDeprecated: Boolean = false): [__EnumValue!]
  inputFields: [__InputValue!]
  ofType: __Type
}
type __Field {
  name: String!
  description: String
  args: [__InputValue!]!
  type: __Type!
  isDeprecated: Boolean!
  deprecationReason: String
}
type __InputValue {
  name: String!
  description: String
  type: __Type!
  defaultValue: String
}
type __EnumValue {
  name: String!
  description: String
  isDeprecated: Boolean!
  deprecationReason: String
}
enum __TypeKind { SCALAR OBJECT INTERFACE UNION ENUM INPUT_OBJECT LIST NON_NULL }
type __Directive {
  name: String!
  description: String
  locations: [__DirectiveLocation!]!
  args: [__InputValue!]!
}
enum __DirectiveLocation { QUERY MUTATION SUBSCRIPTION FIELD FRAGMENT_DEFINITION FRAGMENT_SPREAD INLINE_FRAGMENT SCHEMA SCALAR OBJECT FIELD_DEFINITION ARGUMENT_DEFINITION INTERFACE UNION ENUM ENUM_VALUE INPUT_OBJECT INPUT_FIELD_DEFINITION }
";

pub fn pool() -> Vec<(&'static str, String)> {
    vec![
        ("crate", format!("{}{}{}", CRATE_TEST_SCHEMA, BUILTINS, INTROSPECTION_TYPES)),
        ("implicit", format!("{}{}", IMPLICIT, BUILTINS)),
        ("minimal", format!("{}{}", MINIMAL, BUILTINS)),
        ("explicit_query_only", format!("{}{}", EXPLICIT_QUERY_ONLY, BUILTINS)),
        ("pets", format!("{}{}", PETS, BUILTINS)),
        ("plain", PLAIN.to_string()),
        ("decoy", format!("{}{}", DECOY, BUILTINS)),
        ("lonely", format!("{}{}", LONELY, BUILTINS)),
        ("prefixes", format!("{}{}", PREFIXES, BUILTINS)),
        ("introspective", format!("{}{}{}", INTROSPECTIVE, BUILTINS, INTROSPECTION_TYPES)),
    ]
}

/// names that are prefixes / substrings of one another in every name space (types, union members,
/// fields, arguments, enum values, input fields, directives): look-ups must compare whole names
pub const PREFIXES: &str = "
interface Actor { id: ID }
interface Act { id: ID }
type User implements Actor { id: ID name: String nam: String }
type UserGroup implements Act { id: ID users: [User] user: User }
type Use { id: ID }
type Post { id: ID title: String }
union SearchResult = UserGroup | Post
union Account = User
union Us = Use | User
enum Kind { A AB ABC }
input In { a: Int ab: Int abc: Int! = 1 }
type Query { search: SearchResult user: User userGroup: UserGroup use: Use account: Account actor: Actor act: Act us: Us f(a: Int, ab: Int, abc: Int! = 1): Int kind(k: Kind, ki: Kind = AB): Int in(i: In): Int }
type Subscription { user: User userGroup: UserGroup us: Us }
directive @a on FIELD
directive @ab(a: Int, ab: Int!) on FIELD | QUERY
directive @abc repeatable on FIELD
";

/// a schema that spells out the introspection machinery itself: the meta fields `__schema` and
/// `__type(name:)` are DECLARED on the query root (with their arguments) next to the introspection types
pub const INTROSPECTIVE: &str = "
schema { query: Root }
type Root { __schema: __Schema! __type(name: String!): __Type node(name: String!): __Type a: Int q: Query }
";

/// a well-formed schema that does NOT declare @skip / @include (a schema need not): the names
/// the code may special-case must behave like any other undeclared directive
pub const PLAIN: &str = "
type Query { dog: Dog dogs(first: Int = 3): [Dog!] find(name: String!): Dog }
type Dog { name: String nickname: String owner: Human barks: Boolean }
type Human { name: String pets: [Dog] }
directive @once on FIELD | QUERY
directive @both on FIELD_DEFINITION | FIELD | OBJECT | FRAGMENT_SPREAD
directive @tag(name: String!) repeatable on FIELD | FRAGMENT_SPREAD | INLINE_FRAGMENT
scalar Boolean
scalar Float
scalar Int
scalar ID
scalar String
";

/// object types literally named Query / Mutation / Subscription that are NOT the roots, defined
/// BEFORE the schema definition that names the real roots
pub const DECOY: &str = "
type Query { a: Int sub: Subscription }
type Mutation { m: Int }
type Subscription { plan: String renewal: String }
type RealQuery { current: Subscription q: Query ev: Events }
type RealMutation { doIt(n: Int): Int }
type Events { created: String deleted: String plan: String }
schema { query: RealQuery mutation: RealMutation subscription: Events }
";

/// an interface that implements another interface but has NO implementing object (legal), next to
/// implemented ones, a union, and an object implementing two levels of interfaces
pub const LONELY: &str = "
interface Node { id: ID }
interface Entity implements Node { id: ID name: String }
interface Pet implements Node { id: ID }
interface Named implements Node & Pet { id: ID name: String }
type User implements Node { id: ID }
type Dog implements Node & Pet { id: ID }
type Cat implements Node & Pet & Named { id: ID name: String }
union U = User | Dog
union Ev = User | Subscription
type Query { node: Node entity: Entity pet: Pet named: Named u: U user: User ev: Ev }
type Subscription implements Node & Pet & Named { id: ID name: String other: String }
directive @onLonely on FIELD
scalar onLonely
directive @Node on FIELD | INLINE_FRAGMENT
";

/// a schema that defines none of the names documents use (C15: "whether or not the schema
/// knows the names used")
pub const KNOWS_NOTHING: &str = "type Query { zzzUnusedField: Zzz } scalar Zzz";

/// malformed schemas: used only by the panic / robustness streams
pub fn malformed() -> Vec<(&'static str, String)> {
    vec![
        ("no_query_root", "type T { a: String } scalar String".to_string()),
        ("query_is_interface", "interface Query { a: String } scalar String".to_string()),
    ]
}

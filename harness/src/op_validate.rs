//! validate(): running plans on the implementation and rendering the errors canonically.
use graphql_tools::static_graphql::{query as q, schema as s};
use graphql_tools::validation::rules::*;
use graphql_tools::validation::utils::ValidationError;
use graphql_tools::validation::validate::{validate, ValidationPlan};

pub const ALL_RULES: &[&str] = &[
    "UniqueOperationNames", "LoneAnonymousOperation", "SingleFieldSubscriptions", "KnownTypeNames",
    "FragmentsOnCompositeTypes", "VariablesAreInputTypes", "LeafFieldSelections", "FieldsOnCorrectType",
    "UniqueFragmentNames", "KnownFragmentNames", "NoUnusedFragments", "OverlappingFieldsCanBeMerged",
    "NoFragmentsCycle", "PossibleFragmentSpreads", "NoUnusedVariables", "NoUndefinedVariables",
    "KnownArgumentNames", "UniqueArgumentNames", "UniqueVariableNames", "ProvidedRequiredArguments",
    "KnownDirectives", "VariablesInAllowedPosition", "ValuesOfCorrectType", "UniqueDirectivesPerLocation",
];

pub fn rule_by_code(code: &str) -> Option<Box<dyn ValidationRule>> {
    Some(match code {
        "UniqueOperationNames" => Box::new(UniqueOperationNames::new()),
        "LoneAnonymousOperation" => Box::new(LoneAnonymousOperation::new()),
        "SingleFieldSubscriptions" => Box::new(SingleFieldSubscriptions::new()),
        "KnownTypeNames" => Box::new(KnownTypeNames::new()),
        "FragmentsOnCompositeTypes" => Box::new(FragmentsOnCompositeTypes::new()),
        "VariablesAreInputTypes" => Box::new(VariablesAreInputTypes::new()),
        "LeafFieldSelections" => Box::new(LeafFieldSelections::new()),
        "FieldsOnCorrectType" => Box::new(FieldsOnCorrectType::new()),
        "UniqueFragmentNames" => Box::new(UniqueFragmentNames::new()),
        "KnownFragmentNames" => Box::new(KnownFragmentNames::new()),
        "NoUnusedFragments" => Box::new(NoUnusedFragments::new()),
        "OverlappingFieldsCanBeMerged" => Box::new(OverlappingFieldsCanBeMerged::new()),
        "NoFragmentsCycle" => Box::new(NoFragmentsCycle::new()),
        "PossibleFragmentSpreads" => Box::new(PossibleFragmentSpreads::new()),
        "NoUnusedVariables" => Box::new(NoUnusedVariables::new()),
        "NoUndefinedVariables" => Box::new(NoUndefinedVariables::new()),
        "KnownArgumentNames" => Box::new(KnownArgumentNames::new()),
        "UniqueArgumentNames" => Box::new(UniqueArgumentNames::new()),
        "UniqueVariableNames" => Box::new(UniqueVariableNames::new()),
        "ProvidedRequiredArguments" => Box::new(ProvidedRequiredArguments::new()),
        "KnownDirectives" => Box::new(KnownDirectives::new()),
        "VariablesInAllowedPosition" => Box::new(VariablesInAllowedPosition::new()),
        "ValuesOfCorrectType" => Box::new(ValuesOfCorrectType::new()),
        "UniqueDirectivesPerLocation" => Box::new(UniqueDirectivesPerLocation::new()),
        _ => return None,
    })
}

pub fn plan_of(codes: &[String]) -> ValidationPlan {
    let mut plan = ValidationPlan::new();
    for c in codes {
        plan.add_rule(rule_by_code(c).expect("known rule code"));
    }
    plan
}

/// the codes of the rules of the REAL default plan, in its order (the "default plan" of the jobs is
/// built from this list, so that a change to the default plan is seen by C01 / C02 / C03 / C12 too)
pub fn default_codes() -> Vec<&'static str> {
    default_rules_validation_plan().rules.iter().map(|r| r.error_code()).collect()
}

/// the owner named by a KnownArgumentNames message: the quoted `Type.field` or `@directive`
/// (whatever the wording around it)
fn info_of(e: &ValidationError) -> String {
    if e.error_code == "KnownArgumentNames" {
        let parts: Vec<&str> = e.message.split('"').collect();
        // quoted substrings are the odd-numbered parts
        for q in parts.iter().skip(1).step_by(2) {
            if q.starts_with('@') || q.contains('.') {
                return q.to_string();
            }
        }
        return "?".to_string();
    }
    "-".to_string()
}

pub fn render_error(e: &ValidationError) -> String {
    let locs: Vec<String> = e.locations.iter().map(|p| format!("{}:{}", p.line, p.column)).collect();
    format!("E {} | {} | {}", e.error_code, locs.join(","), info_of(e))
}

/// errors grouped into maximal runs of one code; inside a run the order is unspecified
pub fn render_errors(errs: &[ValidationError]) -> Vec<String> {
    let mut out = vec![];
    let mut cur: Option<&str> = None;
    for e in errs {
        if cur != Some(e.error_code) {
            if cur.is_some() {
                out.push("#ORDERED".to_string());
            }
            out.push("#UNORDERED".to_string());
            cur = Some(e.error_code);
        }
        out.push(render_error(e));
    }
    if cur.is_some() {
        out.push("#ORDERED".to_string());
    }
    out
}

pub fn parse_plan(extra: &str) -> Vec<String> {
    // "(plan A B C)"
    extra
        .trim()
        .trim_start_matches("(plan")
        .trim_end_matches(')')
        .split_whitespace()
        .map(|x| x.to_string())
        .collect()
}

pub fn run_validate(schema: &s::Document, doc: &q::Document, codes: &[String]) -> Vec<String> {
    let plan = plan_of(codes);
    let errs = validate(schema, doc, &plan);
    let mut out = vec!["OK".to_string()];
    out.extend(render_errors(&errs));
    out
}

// ---------------------------------------------------------------- C13
fn sel_positions(ss: &q::SelectionSet, out: &mut Vec<(usize, usize)>) {
    out.push((ss.span.0.line, ss.span.0.column));
    out.push((ss.span.1.line, ss.span.1.column));
    for x in &ss.items {
        match x {
            q::Selection::Field(f) => {
                out.push((f.position.line, f.position.column));
                for d in &f.directives {
                    out.push((d.position.line, d.position.column));
                }
                sel_positions(&f.selection_set, out);
            }
            q::Selection::FragmentSpread(f) => {
                out.push((f.position.line, f.position.column));
                for d in &f.directives {
                    out.push((d.position.line, d.position.column));
                }
            }
            q::Selection::InlineFragment(f) => {
                out.push((f.position.line, f.position.column));
                for d in &f.directives {
                    out.push((d.position.line, d.position.column));
                }
                sel_positions(&f.selection_set, out);
            }
        }
    }
}

pub fn doc_positions(doc: &q::Document) -> Vec<(usize, usize)> {
    let mut out = vec![];
    for def in &doc.definitions {
        match def {
            q::Definition::Operation(op) => {
                let (pos, vars, dirs, ss): (Option<graphql_tools::parser::Pos>, &[q::VariableDefinition], &[q::Directive], &q::SelectionSet) = match op {
                    q::OperationDefinition::SelectionSet(ss) => (None, &[], &[], ss),
                    q::OperationDefinition::Query(x) => (Some(x.position), &x.variable_definitions, &x.directives, &x.selection_set),
                    q::OperationDefinition::Mutation(x) => (Some(x.position), &x.variable_definitions, &x.directives, &x.selection_set),
                    q::OperationDefinition::Subscription(x) => (Some(x.position), &x.variable_definitions, &x.directives, &x.selection_set),
                };
                if let Some(p) = pos {
                    out.push((p.line, p.column));
                }
                for v in vars {
                    out.push((v.position.line, v.position.column));
                }
                for d in dirs {
                    out.push((d.position.line, d.position.column));
                }
                sel_positions(ss, &mut out);
            }
            q::Definition::Fragment(f) => {
                out.push((f.position.line, f.position.column));
                for d in &f.directives {
                    out.push((d.position.line, d.position.column));
                }
                sel_positions(&f.selection_set, &mut out);
            }
        }
    }
    out
}

fn canon_runs(errs: &[ValidationError]) -> Vec<String> {
    // maximal runs of one code, sorted inside a run
    let mut out: Vec<String> = vec![];
    let mut run: Vec<String> = vec![];
    let mut cur: Option<&str> = None;
    for e in errs {
        if cur != Some(e.error_code) {
            run.sort();
            out.append(&mut run);
            cur = Some(e.error_code);
        }
        run.push(format!("{}|{}", render_error(e), e.message));
    }
    run.sort();
    out.append(&mut run);
    out
}

pub fn run_validate13(schema: &s::Document, doc: &q::Document, codes: &[String]) -> Vec<String> {
    let plan = plan_of(codes);
    let errs = validate(schema, doc, &plan);
    let mut out = vec!["OK".to_string()];
    out.extend(render_errors(&errs));
    // the plan's result is the in-order union of its rules run alone
    let mut alone: Vec<ValidationError> = vec![];
    let mut codes_ok = true;
    for c in codes {
        let single = plan_of(&[c.clone()]);
        let e1 = validate(schema, doc, &single);
        if e1.iter().any(|e| e.error_code != c.as_str()) || single.rules[0].error_code() != c.as_str() {
            codes_ok = false;
        }
        alone.extend(e1);
    }
    out.push(format!("UNION {}", if canon_runs(&errs) == canon_runs(&alone) { "ok" } else { "BAD" }));
    out.push(format!("CODES {}", if codes_ok { "ok" } else { "BAD" }));
    out.push(format!("MSG {}", if errs.iter().all(|e| !e.message.trim().is_empty()) { "ok" } else { "BAD" }));
    let positions = doc_positions(doc);
    let locs_ok = errs.iter().all(|e| e.locations.iter().all(|p| positions.contains(&(p.line, p.column))));
    out.push(format!("LOCS {}", if locs_ok { "ok" } else { "BAD" }));
    let json_ok = errs.iter().all(|e| {
        let v = serde_json::to_value(e).unwrap();
        let expect = serde_json::json!({
            "locations": e.locations.iter().map(|p| serde_json::json!({"line": p.line, "column": p.column})).collect::<Vec<_>>(),
            "message": e.message,
        });
        // same JSON object (member order inside an object carries no meaning); the text must parse back to it
        v == expect && serde_json::from_str::<serde_json::Value>(&serde_json::to_string(e).unwrap()).ok() == Some(expect.clone())
    });
    out.push(format!("JSON {}", if json_ok { "ok" } else { "BAD" }));
    let dp: Vec<&str> = default_rules_validation_plan().rules.iter().map(|r| r.error_code()).collect();
    // each of the 24 implemented rules exactly once, in whatever order
    let mut dp_sorted = dp.clone();
    dp_sorted.sort();
    let mut all_sorted: Vec<&str> = ALL_RULES.to_vec();
    all_sorted.sort();
    out.push(format!("DEFAULTPLAN {}", if dp_sorted == all_sorted { "ok" } else { "BAD" }));
    out
}

// ---------------------------------------------------------------- C12: purity
fn canon_full(errs: &[ValidationError]) -> Vec<String> {
    canon_runs(errs)
}

/// history: docs[0] is the document under test, the others are validated before / around it with
/// the same plan and schema; threads: the same on 16 threads sharing &plan and &schema.
pub fn run_purity(schema: &s::Document, docs: &[q::Document], codes: &[String]) -> Vec<String> {
    let plan = plan_of(codes);
    let schema_before = schema.clone();
    let docs_before: Vec<q::Document> = docs.to_vec();
    // reference: a fresh plan for every document
    let reference: Vec<Vec<String>> = docs.iter().map(|d| canon_full(&validate(schema, d, &plan_of(codes)))).collect();
    let first = validate(schema, &docs[0], &plan);
    let mut out = vec!["OK".to_string()];
    out.extend(render_errors(&first));
    // one shared plan, the whole history, twice, forwards and backwards
    let mut history_ok = true;
    for round in 0..2 {
        let order: Vec<usize> = if round == 0 { (0..docs.len()).collect() } else { (0..docs.len()).rev().collect() };
        for i in order {
            if canon_full(&validate(schema, &docs[i], &plan)) != reference[i] {
                history_ok = false;
            }
        }
    }
    out.push(format!("HISTORY {}", if history_ok { "ok" } else { "BAD" }));
    // other SCHEMAS in the history: variants of the schema with the same number of definitions (one
    // type renamed / the definitions reversed / one definition duplicated over another) take turns in
    // ONE variable (same address), each validated before the real schema is put back and validated;
    // also from a clone at another address, and on a fresh thread
    let mut schemas_ok = true;
    {
        let mut variants: Vec<s::Document> = vec![];
        let mut renamed = schema.clone();
        for d in renamed.definitions.iter_mut().rev() {
            if let s::Definition::TypeDefinition(s::TypeDefinition::Object(o)) = d {
                o.name = format!("{}Zz", o.name);
                break;
            }
        }
        variants.push(renamed);
        let mut reversed = schema.clone();
        reversed.definitions.reverse();
        variants.push(reversed);
        let mut dup = schema.clone();
        let n = dup.definitions.len();
        if n >= 2 {
            dup.definitions[n - 1] = dup.definitions[0].clone();
        }
        variants.push(dup);
        // the arguments of the directive definitions rotated among them, the field lists of the
        // object types rotated among them (same names, other contents)
        {
            let mut v = schema.clone();
            let lists: Vec<_> = v.definitions.iter().filter_map(|d| match d { s::Definition::DirectiveDefinition(dd) => Some((dd.arguments.clone(), dd.locations.clone(), dd.repeatable)), _ => None }).collect();
            let mut k = 0usize;
            for d in v.definitions.iter_mut() {
                if let s::Definition::DirectiveDefinition(dd) = d {
                    k += 1;
                    let (a, l, r) = lists[k % lists.len()].clone();
                    dd.arguments = a;
                    dd.locations = l;
                    dd.repeatable = r;
                }
            }
            variants.push(v);
        }
        {
            let mut v = schema.clone();
            let lists: Vec<_> = v.definitions.iter().filter_map(|d| match d { s::Definition::TypeDefinition(s::TypeDefinition::Object(o)) => Some((o.fields.clone(), o.implements_interfaces.clone())), _ => None }).collect();
            let mut k = 0usize;
            for d in v.definitions.iter_mut() {
                if let s::Definition::TypeDefinition(s::TypeDefinition::Object(o)) = d {
                    k += 1;
                    let (f, i) = lists[k % lists.len()].clone();
                    o.fields = f;
                    o.implements_interfaces = i;
                }
            }
            variants.push(v);
        }
        // a FRESH plan whose first schema is a variant, then used for the real schema
        for v in variants.iter() {
            let p2 = plan_of(codes);
            for d in docs.iter() {
                let _ = std::panic::catch_unwind(std::panic::AssertUnwindSafe(|| validate(v, d, &p2)));
            }
            for (i, d) in docs.iter().enumerate() {
                if canon_full(&validate(schema, d, &p2)) != reference[i] {
                    schemas_ok = false;
                }
            }
        }
        let mut slot: s::Document = schema.clone();
        for v in variants {
            slot = v;
            for d in docs.iter() {
                // (a variant may have lost its query root: the documented panic of that case is not the point here)
                let _ = std::panic::catch_unwind(std::panic::AssertUnwindSafe(|| validate(&slot, d, &plan)));
            }
            slot = schema.clone();
            for (i, d) in docs.iter().enumerate() {
                if canon_full(&validate(&slot, d, &plan)) != reference[i] {
                    schemas_ok = false;
                }
            }
        }
        let elsewhere = Box::new(schema.clone());
        for (i, d) in docs.iter().enumerate() {
            if canon_full(&validate(&elsewhere, d, &plan)) != reference[i] {
                schemas_ok = false;
            }
        }
        let fresh: Vec<Vec<String>> = std::thread::scope(|sc| sc.spawn(|| docs.iter().map(|d| canon_full(&validate(schema, d, &plan_of(codes)))).collect()).join().unwrap());
        if fresh != reference {
            schemas_ok = false;
        }
    }
    out.push(format!("SCHEMAS {}", if schemas_ok { "ok" } else { "BAD" }));
    // 16 threads, each validating all documents (rotated start), sharing &plan / &schema
    let threads_ok = std::sync::atomic::AtomicBool::new(true);
    std::thread::scope(|sc| {
        for t in 0..16usize {
            let plan = &plan;
            let reference = &reference;
            let threads_ok = &threads_ok;
            sc.spawn(move || {
                for k in 0..docs.len() * 3 {
                    let i = (k + t) % docs.len();
                    if canon_full(&validate(schema, &docs[i], plan)) != reference[i] {
                        threads_ok.store(false, std::sync::atomic::Ordering::SeqCst);
                    }
                }
            });
        }
    });
    out.push(format!("THREADS {}", if threads_ok.load(std::sync::atomic::Ordering::SeqCst) { "ok" } else { "BAD" }));
    let unchanged = *schema == schema_before && docs.iter().zip(docs_before.iter()).all(|(a, b)| a == b) && plan.rules.len() == codes.len()
        && plan.rules.iter().zip(codes.iter()).all(|(r, c)| r.error_code() == c.as_str());
    out.push(format!("UNCHANGED {}", if unchanged { "ok" } else { "BAD" }));
    out
}

//! validate(): running plans on the implementation and rendering the errors canonically.
use graphql_tools::static_graphql::{query as q, schema as s};
use graphql_tools::validation::rules::*;
use graphql_tools::validation::utils::ValidationError;
use graphql_tools::validation::validate::{validate, ValidationPlan};

pub const ALL_RULES: &[&str] = &[
    "UniqueOperationNames", "LoneAnonymousOperation", "SingleFieldSubscriptions", "KnownTypeNames",
    "FragmentsOnCompositeTypes", "VariablesAreInputTypes", "LeafFieldSelections", "FieldsOnCorrectType",
    "UniqueFragmentNames", "KnownFragmentNames", "NoUnusedFragments", "OverlappingFieldsCanBeMerged",
    "NoFragmentsCycle", "PossibleFragmentSpreads", "NoUnusedVariables", "NoUndefinedVariables",
    "KnownArgumentNames", "UniqueArgumentNames", "UniqueVariableNames", "ProvidedRequiredArguments",
    "KnownDirectives", "VariablesInAllowedPosition", "ValuesOfCorrectType", "UniqueDirectivesPerLocation",
];

pub fn rule_by_code(code: &str) -> Option<Box<dyn ValidationRule>> {
    Some(match code {
        "UniqueOperationNames" => Box::new(UniqueOperationNames::new()),
        "LoneAnonymousOperation" => Box::new(LoneAnonymousOperation::new()),
        "SingleFieldSubscriptions" => Box::new(SingleFieldSubscriptions::new()),
        "KnownTypeNames" => Box::new(KnownTypeNames::new()),
        "FragmentsOnCompositeTypes" => Box::new(FragmentsOnCompositeTypes::new()),
        "VariablesAreInputTypes" => Box::new(VariablesAreInputTypes::new()),
        "LeafFieldSelections" => Box::new(LeafFieldSelections::new()),
        "FieldsOnCorrectType" => Box::new(FieldsOnCorrectType::new()),
        "UniqueFragmentNames" => Box::new(UniqueFragmentNames::new()),
        "KnownFragmentNames" => Box::new(KnownFragmentNames::new()),
        "NoUnusedFragments" => Box::new(NoUnusedFragments::new()),
        "OverlappingFieldsCanBeMerged" => Box::new(OverlappingFieldsCanBeMerged::new()),
        "NoFragmentsCycle" => Box::new(NoFragmentsCycle::new()),
        "PossibleFragmentSpreads" => Box::new(PossibleFragmentSpreads::new()),
        "NoUnusedVariables" => Box::new(NoUnusedVariables::new()),
        "NoUndefinedVariables" => Box::new(NoUndefinedVariables::new()),
        "KnownArgumentNames" => Box::new(KnownArgumentNames::new()),
        "UniqueArgumentNames" => Box::new(UniqueArgumentNames::new()),
        "UniqueVariableNames" => Box::new(UniqueVariableNames::new()),
        "ProvidedRequiredArguments" => Box::new(ProvidedRequiredArguments::new()),
        "KnownDirectives" => Box::new(KnownDirectives::new()),
        "VariablesInAllowedPosition" => Box::new(VariablesInAllowedPosition::new()),
        "ValuesOfCorrectType" => Box::new(ValuesOfCorrectType::new()),
        "UniqueDirectivesPerLocation" => Box::new(UniqueDirectivesPerLocation::new()),
        _ => return None,
    })
}

pub fn plan_of(codes: &[String]) -> ValidationPlan {
    let mut plan = ValidationPlan::new();
    for c in codes {
        plan.add_rule(rule_by_code(c).expect("known rule code"));
    }
    plan
}

/// the owner named by a KnownArgumentNames message
fn info_of(e: &ValidationError) -> String {
    if e.error_code == "KnownArgumentNames" {
        for (marker, prefix) in [("on field \"", ""), ("on directive \"", "")] {
            if let Some(i) = e.message.find(marker) {
                let rest = &e.message[i + marker.len()..];
                if let Some(j) = rest.find('"') {
                    return format!("{}{}", prefix, &rest[..j]);
                }
            }
        }
        return "?".to_string();
    }
    "-".to_string()
}

pub fn render_error(e: &ValidationError) -> String {
    let locs: Vec<String> = e.locations.iter().map(|p| format!("{}:{}", p.line, p.column)).collect();
    format!("E {} | {} | {}", e.error_code, locs.join(","), info_of(e))
}

/// errors grouped into maximal runs of one code; inside a run the order is unspecified
pub fn render_errors(errs: &[ValidationError]) -> Vec<String> {
    let mut out = vec![];
    let mut cur: Option<&str> = None;
    for e in errs {
        if cur != Some(e.error_code) {
            if cur.is_some() {
                out.push("#ORDERED".to_string());
            }
            out.push("#UNORDERED".to_string());
            cur = Some(e.error_code);
        }
        out.push(render_error(e));
    }
    if cur.is_some() {
        out.push("#ORDERED".to_string());
    }
    out
}

pub fn parse_plan(extra: &str) -> Vec<String> {
    // "(plan A B C)"
    extra
        .trim()
        .trim_start_matches("(plan")
        .trim_end_matches(')')
        .split_whitespace()
        .map(|x| x.to_string())
        .collect()
}

pub fn run_validate(schema: &s::Document, doc: &q::Document, codes: &[String]) -> Vec<String> {
    let plan = plan_of(codes);
    let errs = validate(schema, doc, &plan);
    let mut out = vec!["OK".to_string()];
    out.extend(render_errors(&errs));
    out
}

//! SplitMix64: every random choice of the harness derives from one state seeded by VERIF_SEED.
#[derive(Clone)]
pub struct Rng(pub u64);

impl Rng {
    pub fn new(seed: u64) -> Self {
        // scramble the seed so that consecutive seeds give unrelated streams
        let mut r = Rng(seed ^ 0x1234_5678_9ABC_DEF1);
        let a = r.next();
        let b = r.next();
        Rng(a ^ b.rotate_left(17))
    }
    pub fn next(&mut self) -> u64 {
        self.0 = self.0.wrapping_add(0x9E3779B97F4A7C15);
        let mut z = self.0;
        z = (z ^ (z >> 30)).wrapping_mul(0xBF58476D1CE4E5B9);
        z = (z ^ (z >> 27)).wrapping_mul(0x94D049BB133111EB);
        z ^ (z >> 31)
    }
    pub fn below(&mut self, n: usize) -> usize {
        if n == 0 {
            0
        } else {
            (self.next() % (n as u64)) as usize
        }
    }
    pub fn range(&mut self, lo: usize, hi: usize) -> usize {
        lo + self.below(hi - lo + 1)
    }
    /// true with probability p/100
    pub fn pct(&mut self, p: u32) -> bool {
        (self.next() % 100) < p as u64
    }
    pub fn pick<'a, T>(&mut self, v: &'a [T]) -> &'a T {
        &v[self.below(v.len())]
    }
    pub fn fork(&mut self) -> Rng {
        let a = self.next();
        Rng::new(a)
    }
    pub fn shuffle<T>(&mut self, v: &mut Vec<T>) {
        for i in (1..v.len()).rev() {
            let j = self.below(i + 1);
            v.swap(i, j);
        }
    }
}

//! Bounded-exhaustive input families over a synthetic schema that has one field / argument for
//! every (base input type x wrapper shape), with and without a default value.
use crate::gast::*;
use crate::gen::SchemaInfo;
use crate::rng::Rng;

pub const BASES: &[&str] = &["Int", "Float", "String", "Boolean", "ID", "Color", "Date", "Point"];

/// wrapper shapes (outermost first), "L" = list, "N" = non-null; no "NN"
pub const SHAPES: &[&str] = &["", "N", "L", "LN", "NL", "NLN", "LL", "LLN", "LNL", "NLL", "NLNL", "NLNLN", "LNLN", "NLLN"];

pub fn shape_type(base: &str, shape: &str) -> GType {
    let mut t = GType::Named(base.to_string());
    for c in shape.chars().rev() {
        t = match c {
            'L' => GType::List(Box::new(t)),
            _ => GType::NonNull(Box::new(t)),
        };
    }
    t
}

/// a default value acceptable for (base, shape)
fn default_for(base: &str, shape: &str) -> String {
    let scalar = match base {
        "Int" => "7",
        "Float" => "1.5",
        "String" => "\"d\"",
        "Boolean" => "true",
        "ID" => "\"id\"",
        "Color" => "RED",
        "Date" => "\"2020\"",
        _ => "{x: 1}",
    };
    let mut v = scalar.to_string();
    let inner: String = shape.chars().filter(|c| *c == 'L').collect();
    for _ in inner.chars() {
        v = format!("[{}]", v);
    }
    v
}

pub fn synth_schema_sdl() -> String {
    let mut q = String::new();
    let mut d_args = String::new();
    for b in BASES {
        for (k, sh) in SHAPES.iter().enumerate() {
            let t = shape_type(b, sh).print();
            q.push_str(&format!("  f_{}_{}(a: {}): Int\n", b, k, t));
            q.push_str(&format!("  g_{}_{}(a: {} = {}): Int\n", b, k, t, default_for(b, sh)));
        }
        d_args.push_str(&format!("{}0: {}, {}1: [{}!], ", b.to_lowercase(), b, b.to_lowercase(), b));
    }
    format!(
        "enum Color {{ RED GREEN BLUE }}\nenum Signal {{ GREEN AMBER }}\nscalar Date\n\
         input Point {{ x: Int! y: Int! = 0 label: String tags: [String!] inner: Point pts: [[Point!]] c: Color d: Date f: Float b: Boolean id: ID nl: [Int!]! }}\n\
         input Small {{ p: Int! q: Int }}\ninterface Node {{ id: ID! }}\ninterface Named implements Node {{ id: ID! name: String }}\n\
         type A implements Node & Named {{ id: ID! name: String nick: String a: Int peer: B self: A list: [A!]! nested: [[A]] selfN: A! selfL: [A] selfLN: [A!] selfNL: [A]! nameN: String! names: [String] arg1(x: Int): A arg2(y: Int!, z: Int, l: [Int!], ln: [Int!]!, d: Int! = 1): A leafArg(x: Int, y: Int!): Int }}\n\
         type B implements Node {{ id: ID! b: Float peer: A peerN: A! peerL: [A] peerLN: [A!] peerNL: [A]! peerNLN: [A!]! peerLL: [[A]] s: String sN: String! sL: [String] i: Int name: String nick: String arg1(x: Int): A arg2(q: Int): A leafArg(q: Int): Int }}\nunion AB = A | B\n\
         type Query {{\n  both(color: Color, signal: Signal, colors: [Color], box: Small): Int\n  small(a: Small, l: [Small!]): Int\n  node: Node\n  named: Named\n  a: A\n  b: B\n  ab: AB\n{}}}\n\
         type Mutation {{ m(a: Int): Int }}\ntype Subscription {{ s1: Int s2: Int sa: A }}\n\
         directive @args({}req: Boolean! = true) repeatable on FIELD | QUERY | MUTATION | SUBSCRIPTION | FRAGMENT_DEFINITION | FRAGMENT_SPREAD | INLINE_FRAGMENT\n\
         directive @onQ on QUERY\ndirective @onM on MUTATION\ndirective @onS on SUBSCRIPTION\ndirective @onF on FIELD\n\
         directive @onFD on FRAGMENT_DEFINITION\ndirective @onFS on FRAGMENT_SPREAD\ndirective @onIF on INLINE_FRAGMENT\n\
         directive @any on QUERY | MUTATION | SUBSCRIPTION | FIELD | FRAGMENT_DEFINITION | FRAGMENT_SPREAD | INLINE_FRAGMENT\n\
         directive @rep repeatable on QUERY | MUTATION | SUBSCRIPTION | FIELD | FRAGMENT_DEFINITION | FRAGMENT_SPREAD | INLINE_FRAGMENT\n\
         directive @typeOnly on OBJECT\n\
         directive @mixA on OBJECT | FIELD | FIELD_DEFINITION | QUERY | ENUM_VALUE | INLINE_FRAGMENT\n\
         directive @mixB repeatable on SCHEMA | FRAGMENT_SPREAD | ARGUMENT_DEFINITION | FRAGMENT_DEFINITION | INPUT_OBJECT | MUTATION | SUBSCRIPTION\n\
         directive @mixC on INLINE_FRAGMENT | INTERFACE | SUBSCRIPTION | UNION | FIELD\n\
         directive @pairFQ on FIELD | QUERY\ndirective @pairSD on FRAGMENT_SPREAD | FRAGMENT_DEFINITION\n{}",
        q, d_args, crate::schemas::BUILTINS
    )
}

/// literals: every Value kind, nested to depth 2 (depth 3 sampled), small alphabet
pub fn literal_pool(depth3: bool) -> Vec<GValue> {
    let atoms = vec![
        GValue::Int(1), GValue::Int(2147483648), GValue::Int(-2147483648), GValue::Float("1.5".into()), GValue::Str("s".into()),
        GValue::Bool(true), GValue::Null, GValue::Enum("RED".into()), GValue::Enum("NOPE".into()),
    ];
    let mut out = atoms.clone();
    out.push(GValue::List(vec![]));
    for a in &atoms {
        out.push(GValue::List(vec![a.clone()]));
    }
    out.push(GValue::List(vec![GValue::Int(1), GValue::Null]));
    out.push(GValue::List(vec![GValue::Int(1), GValue::Str("s".into())]));
    out.push(GValue::List(vec![GValue::List(vec![])]));
    out.push(GValue::List(vec![GValue::List(vec![GValue::Int(1)]), GValue::List(vec![GValue::Null])]));
    out.push(GValue::List(vec![GValue::List(vec![GValue::Int(1)]), GValue::Null]));
    out.push(GValue::Obj(vec![]));
    out.push(GValue::Obj(vec![("x".into(), GValue::Int(1))]));
    out.push(GValue::Obj(vec![("x".into(), GValue::Int(1)), ("y".into(), GValue::Null)]));
    out.push(GValue::Obj(vec![("x".into(), GValue::Int(1)), ("zz".into(), GValue::Int(1))]));
    out.push(GValue::Obj(vec![("y".into(), GValue::Int(1))]));
    out.push(GValue::Obj(vec![("x".into(), GValue::Str("s".into()))]));
    out.push(GValue::Obj(vec![("x".into(), GValue::Int(1)), ("nl".into(), GValue::List(vec![GValue::Int(1), GValue::Null]))]));
    out.push(GValue::Obj(vec![("x".into(), GValue::Int(1)), ("nl".into(), GValue::Int(3))]));
    out.push(GValue::Obj(vec![("x".into(), GValue::Int(1)), ("inner".into(), GValue::Obj(vec![("x".into(), GValue::Null)]))]));
    out.push(GValue::Obj(vec![("x".into(), GValue::Int(1)), ("pts".into(), GValue::List(vec![GValue::List(vec![GValue::Obj(vec![("x".into(), GValue::Int(2))])])]))]));
    out.push(GValue::List(vec![GValue::Obj(vec![("x".into(), GValue::Int(1))])]));
    out.push(GValue::List(vec![GValue::Obj(vec![("x".into(), GValue::Int(1))]), GValue::Obj(vec![])]));
    if depth3 {
        out.push(GValue::List(vec![GValue::List(vec![GValue::List(vec![GValue::Int(1)])])]));
        out.push(GValue::List(vec![GValue::List(vec![GValue::Obj(vec![("x".into(), GValue::Int(1))]), GValue::Int(1)])]));
        out.push(GValue::Obj(vec![("x".into(), GValue::Int(1)), ("inner".into(), GValue::Obj(vec![("x".into(), GValue::Int(1)), ("tags".into(), GValue::List(vec![GValue::Null]))]))]));
        out.push(GValue::Obj(vec![("x".into(), GValue::Int(1)), ("pts".into(), GValue::List(vec![GValue::List(vec![GValue::Null])]))]));
    }
    out
}

fn f(name: &str, args: Vec<(String, GValue)>) -> GSel {
    GSel::Field { alias: None, name: name.into(), args, dirs: vec![], sels: vec![] }
}

/// (expected type, literal) at a position of kind `pos`:
/// 0 field argument, 1 argument with default, 2 directive argument (named types and [T!] only),
/// 3 variable default, 4 inside a list literal one level down, 5 inside an input object field
pub fn literal_case(base: &str, k: usize, lit: &GValue, pos: usize) -> Option<GDoc> {
    let shape = SHAPES[k];
    let sel = match pos {
        0 => f(&format!("f_{}_{}", base, k), vec![("a".into(), lit.clone())]),
        1 => f(&format!("g_{}_{}", base, k), vec![("a".into(), lit.clone())]),
        2 => {
            let an = match shape {
                "" => format!("{}0", base.to_lowercase()),
                "LN" => format!("{}1", base.to_lowercase()),
                _ => return None,
            };
            GSel::Field { alias: None, name: "a".into(), args: vec![], dirs: vec![GDir { name: "args".into(), args: vec![(an, lit.clone())] }],
                sels: vec![f("id", vec![])] }
        }
        3 => {
            return Some(GDoc(vec![GDef::Op { kind: OpKind::Query, name: Some("Q".into()),
                vars: vec![GVar { name: "v".into(), ty: shape_type(base, shape), default: Some(lit.clone()) }], dirs: vec![],
                sels: vec![f(&format!("f_{}_{}", base, k), vec![("a".into(), GValue::Var("v".into()))])] }]));
        }
        4 => {
            // the literal as an item of a list given to the [shape] version, if that shape exists
            let outer = format!("L{}", shape);
            let ko = SHAPES.iter().position(|s| *s == outer)?;
            f(&format!("f_{}_{}", base, ko), vec![("a".into(), GValue::List(vec![lit.clone()]))])
        }
        _ => {
            // inside an input object: Point has fields of several types
            let field = match (base, shape) {
                ("Int", "N") => "x", ("String", "") => "label", ("String", "LN") => "tags", ("Point", "") => "inner",
                ("Point", "LLN") => "pts", ("Color", "") => "c", ("Date", "") => "d", ("Float", "") => "f", ("Boolean", "") => "b",
                ("ID", "") => "id", ("Int", "NLN") => "nl", _ => return None,
            };
            let mut members = vec![(field.to_string(), lit.clone())];
            if field != "x" {
                members.push(("x".to_string(), GValue::Int(1)));
            }
            if field != "nl" {
                members.push(("nl".to_string(), GValue::List(vec![])));
            }
            f("f_Point_0", vec![("a".into(), GValue::Obj(members))])
        }
    };
    Some(GDoc(vec![GDef::Op { kind: OpKind::SelSet, name: None, vars: vec![], dirs: vec![], sels: vec![sel] }]))
}

/// variable usage tuple: variable of type (vb, vk) with default kind dk (0 absent, 1 null, 2 non-null),
/// used at the location of type (lb, lk), with or without a location default, at position kind `pos`
/// (0 directly, 1 as a list item of the [T] version, 2 through a fragment)
pub fn variable_case(vb: &str, vk: usize, dk: usize, lb: &str, lk: usize, loc_default: bool, pos: usize) -> Option<GDoc> {
    let vt = shape_type(vb, SHAPES[vk]);
    let default = match dk {
        0 => None,
        1 => Some(GValue::Null),
        _ => {
            // a literal of the right shape
            let scalar = match vb {
                "Int" => GValue::Int(7), "Float" => GValue::Float("1.5".into()), "String" => GValue::Str("d".into()),
                "Boolean" => GValue::Bool(true), "ID" => GValue::Str("i".into()), "Color" => GValue::Enum("RED".into()),
                "Date" => GValue::Str("2020".into()), _ => GValue::Obj(vec![("x".into(), GValue::Int(1)), ("nl".into(), GValue::List(vec![]))]),
            };
            let mut v = scalar;
            for c in SHAPES[vk].chars().rev() {
                if c == 'L' {
                    v = GValue::List(vec![v]);
                }
            }
            Some(v)
        }
    };
    let fname = |k: usize| format!("{}_{}_{}", if loc_default { "g" } else { "f" }, lb, k);
    let use_sel = match pos {
        1 => {
            let outer = format!("L{}", SHAPES[lk]);
            let ko = SHAPES.iter().position(|s| *s == outer)?;
            f(&fname(ko), vec![("a".into(), GValue::List(vec![GValue::Var("v".into())]))])
        }
        _ => f(&fname(lk), vec![("a".into(), GValue::Var("v".into()))]),
    };
    let mut defs = vec![];
    let sels = if pos == 2 {
        defs.push(GDef::Frag { name: "UseV".into(), tc: "Query".into(), dirs: vec![], sels: vec![use_sel] });
        vec![GSel::Spread { name: "UseV".into(), dirs: vec![] }]
    } else {
        vec![use_sel]
    };
    defs.insert(0, GDef::Op { kind: OpKind::Query, name: Some("Q".into()), vars: vec![GVar { name: "v".into(), ty: vt, default }], dirs: vec![], sels });
    Some(GDoc(defs))
}

/// directive placement: directive `dname` applied `mult` times at location `loc` (0..6), the node
/// nested `nest` levels inside other directive-bearing nodes
pub fn directive_case(dname: &str, loc: usize, mult: usize, nest: usize) -> GDoc {
    let ds: Vec<GDir> = (0..mult).map(|_| GDir { name: dname.to_string(), args: vec![] }).collect();
    let leaf = f("id", vec![]);
    let mut inner: Vec<GSel> = match loc {
        3 => vec![GSel::Field { alias: None, name: "id".into(), args: vec![], dirs: ds.clone(), sels: vec![] }],
        5 => vec![GSel::Spread { name: "Fd".into(), dirs: ds.clone() }],
        6 => vec![GSel::Inline { tc: None, dirs: ds.clone(), sels: vec![leaf.clone()] }],
        _ => vec![leaf.clone()],
    };
    for i in 0..nest {
        inner = if i % 2 == 0 {
            vec![GSel::Field { alias: None, name: "self".into(), args: vec![], dirs: vec![GDir { name: "onF".into(), args: vec![] }], sels: inner }]
        } else {
            vec![GSel::Inline { tc: Some("A".into()), dirs: vec![GDir { name: "onIF".into(), args: vec![] }], sels: inner }]
        };
    }
    let body = vec![GSel::Field { alias: None, name: "a".into(), args: vec![], dirs: vec![], sels: inner }];
    let (kind, root_sels) = match loc {
        1 => (OpKind::Mutation, vec![f("m", vec![])]),
        2 => (OpKind::Subscription, vec![f("s1", vec![])]),
        _ => (OpKind::Query, body.clone()),
    };
    let mut defs = vec![GDef::Op { kind, name: Some("Q".into()), vars: vec![], dirs: if loc <= 2 { ds.clone() } else { vec![] }, sels: root_sels }];
    if loc == 4 || loc == 5 {
        defs.push(GDef::Frag { name: "Fd".into(), tc: "A".into(), dirs: if loc == 4 { ds } else { vec![] }, sels: vec![leaf] });
        if loc == 4 {
            // keep the fragment used
            if let GDef::Op { sels, .. } = &mut defs[0] {
                *sels = vec![GSel::Field { alias: None, name: "a".into(), args: vec![], dirs: vec![], sels: vec![GSel::Spread { name: "Fd".into(), dirs: vec![] }] }];
            }
        }
    }
    GDoc(defs)
}

pub const SYNTH_DIRECTIVES: &[&str] = &["onQ", "onM", "onS", "onF", "onFD", "onFS", "onIF", "any", "rep", "typeOnly", "zzUnknown", "skip", "mixA", "mixB", "mixC", "pairFQ", "pairSD"];

pub fn synth_schema() -> SchemaInfo {
    SchemaInfo::new("synthetic", &synth_schema_sdl())
}

pub fn pick_sample<T: Clone>(all: Vec<T>, n: usize, rng: &mut Rng) -> Vec<T> {
    if all.len() <= n {
        return all;
    }
    let mut v = all;
    rng.shuffle(&mut v);
    v.truncate(n);
    v
}

/// C07: the same variable used at TWO locations (each with / without a location default, same or
/// different location types), in either order, in the operation or split over a fragment
pub fn two_usages_case(vb: &str, vk: usize, dk: usize, l1: usize, d1: bool, l2: usize, d2: bool, split: bool) -> Option<GDoc> {
    let one = variable_case(vb, vk, dk, vb, l1, d1, 0)?;
    let two = variable_case(vb, vk, dk, vb, l2, d2, 0)?;
    let sel2 = match &two.0[0] {
        GDef::Op { sels, .. } => sels[0].clone(),
        _ => return None,
    };
    let mut doc = one;
    if split {
        doc.0.push(GDef::Frag { name: "Second".into(), tc: "Query".into(), dirs: vec![], sels: vec![sel2] });
        if let GDef::Op { sels, .. } = &mut doc.0[0] {
            sels.push(GSel::Spread { name: "Second".into(), dirs: vec![] });
        }
    } else if let GDef::Op { sels, .. } = &mut doc.0[0] {
        // distinct response keys so that the merge rule is not involved
        let aliased = match sel2 {
            GSel::Field { name, args, dirs, sels, .. } => GSel::Field { alias: Some("second".into()), name, args, dirs, sels },
            x => x,
        };
        sels.push(aliased);
    }
    Some(doc)
}

/// C11: subscription root selections built from fields, aliases (same field under two keys, two
/// fields under one key, introspection fields first / second in a group), inline and named fragments
pub fn subscription_roots() -> Vec<GDoc> {
    let fld = |alias: Option<&str>, name: &str| GSel::Field { alias: alias.map(|x| x.to_string()), name: name.into(), args: vec![], dirs: vec![], sels: vec![] };
    let atoms: Vec<GSel> = vec![
        fld(None, "s1"), fld(None, "s2"), fld(Some("k"), "s1"), fld(Some("k"), "s2"), fld(Some("j"), "s1"),
        fld(None, "__typename"), fld(Some("k"), "__typename"), fld(Some("s1"), "__typename"), fld(Some("k"), "__schema"),
    ];
    let mut out = vec![];
    for a in 0..atoms.len() {
        for b in 0..atoms.len() {
            for place in 0..4 {
                let second = match place {
                    0 => atoms[b].clone(),
                    1 => GSel::Inline { tc: None, dirs: vec![], sels: vec![atoms[b].clone()] },
                    2 => GSel::Inline { tc: Some("Subscription".into()), dirs: vec![], sels: vec![GSel::Inline { tc: None, dirs: vec![], sels: vec![atoms[b].clone()] }] },
                    _ => GSel::Spread { name: "SF".into(), dirs: vec![] },
                };
                let mut defs = vec![GDef::Op { kind: OpKind::Subscription, name: Some("S".into()), vars: vec![], dirs: vec![], sels: vec![atoms[a].clone(), second] }];
                if place == 3 {
                    defs.push(GDef::Frag { name: "SF".into(), tc: "Subscription".into(), dirs: vec![], sels: vec![GSel::Inline { tc: Some("Subscription".into()), dirs: vec![], sels: vec![atoms[b].clone()] }] });
                }
                out.push(GDoc(defs));
            }
        }
    }
    // single root selections
    for a in 0..atoms.len() {
        out.push(GDoc(vec![GDef::Op { kind: OpKind::Subscription, name: None, vars: vec![], dirs: vec![], sels: vec![atoms[a].clone()] }]));
    }
    out
}

/// C05: two same-key fields at the root of `a` (type A: fields a: Int, name: String, id, peer: B, self: A,
/// list, nested) placed directly / behind inline fragments on the same, another or an abstract type /
/// in named fragments reached along one or two paths, with sub-selections that agree or differ one
/// level further down, in both orders
pub fn merge_cases(rng: &mut Rng, n: usize) -> Vec<GDoc> {
    let leaf = |alias: Option<&str>, name: &str, arg: Option<GValue>| GSel::Field { alias: alias.map(|x| x.to_string()), name: name.into(),
        args: arg.map(|v| vec![("zz".to_string(), v)]).unwrap_or_default(), dirs: vec![], sels: vec![] };
    let mut out = vec![];
    for _ in 0..n {
        // the deepest level: two fields under key x that agree or differ
        let differ = rng.below(4);
        let (x1, x2) = match differ {
            0 => (leaf(Some("x"), "name", None), leaf(Some("x"), "name", None)),
            1 => (leaf(Some("x"), "name", None), leaf(Some("x"), "nick", None)),
            2 => (leaf(Some("x"), "nick", None), leaf(Some("x"), "name", None)),
            _ => (leaf(Some("x"), "name", None), leaf(None, "name", None)),
        };
        let depth = rng.below(3);
        let wrap_self = |inner: Vec<GSel>, alias: &str, d: usize| -> GSel {
            let mut cur = inner;
            for _ in 0..d {
                cur = vec![GSel::Field { alias: None, name: "self".into(), args: vec![], dirs: vec![], sels: cur }];
            }
            GSel::Field { alias: Some(alias.into()), name: "self".into(), args: vec![], dirs: vec![], sels: cur }
        };
        // body1 / body2 optionally behind named fragments
        let use_frags = rng.pct(60);
        let (b1, b2): (Vec<GSel>, Vec<GSel>) = if use_frags {
            (vec![GSel::Spread { name: "MA".into(), dirs: vec![] }], vec![GSel::Spread { name: "MB".into(), dirs: vec![] }])
        } else {
            (vec![x1.clone()], vec![x2.clone()])
        };
        // pairs: an "exclusive" pair (behind inline fragments on two different object types) and a plain pair
        let excl = vec![
            GSel::Inline { tc: Some("A".into()), dirs: vec![], sels: vec![wrap_self(b1.clone(), "o", depth)] },
            GSel::Inline { tc: Some("B".into()), dirs: vec![], sels: vec![GSel::Field { alias: Some("o".into()), name: "peer".into(), args: vec![], dirs: vec![], sels: {
                let mut cur = b2.clone();
                for _ in 0..depth { cur = vec![GSel::Field { alias: None, name: "self".into(), args: vec![], dirs: vec![], sels: cur }]; }
                cur } }] },
        ];
        let plain = vec![wrap_self(b1.clone(), "p", depth), wrap_self(b2.clone(), "p", depth)];
        let mut sels: Vec<GSel> = vec![];
        match rng.below(4) {
            0 => { sels.extend(excl.clone()); sels.extend(plain.clone()); }
            1 => { sels.extend(plain.clone()); sels.extend(excl.clone()); }
            2 => sels.extend(plain.clone()),
            _ => sels.extend(excl.clone()),
        }
        if rng.pct(30) {
            sels.reverse();
        }
        let root_field = if rng.pct(50) { "node" } else { "ab" };
        let mut defs = vec![GDef::Op { kind: OpKind::SelSet, name: None, vars: vec![], dirs: vec![],
            sels: vec![GSel::Field { alias: None, name: root_field.into(), args: vec![], dirs: vec![], sels }] }];
        if use_frags {
            let shared = rng.pct(40);
            defs.push(GDef::Frag { name: "MA".into(), tc: "A".into(), dirs: vec![], sels: if shared { vec![GSel::Spread { name: "MC".into(), dirs: vec![] }, x1.clone()] } else { vec![GSel::Field { alias: None, name: "self".into(), args: vec![], dirs: vec![], sels: vec![x1.clone()] }] } });
            defs.push(GDef::Frag { name: "MB".into(), tc: "A".into(), dirs: vec![], sels: if shared { vec![GSel::Spread { name: "MC".into(), dirs: vec![] }, x2.clone()] } else { vec![GSel::Field { alias: None, name: "self".into(), args: vec![], dirs: vec![], sels: vec![x2.clone()] }] } });
            if shared {
                defs.push(GDef::Frag { name: "MC".into(), tc: "A".into(), dirs: vec![], sels: vec![leaf(Some("y"), "name", None)] });
            }
        }
        out.push(GDoc(defs));
    }
    out
}

/// C06 / C02 / C01: a fragment with type condition T (inline and named) inside a selection set of
/// type P, for EVERY ordered pair (P, T) of composite types of the schema: inside a fragment
/// definition on P, and (when P is reachable from the query root through fields without required
/// arguments) inside the operation itself, so that no other rule masks the verdict.
pub fn spread_pairs(si: &SchemaInfo) -> Vec<String> {
    use crate::gen::{inner_name, tfields, tname};
    use graphql_tools::static_graphql::query as q;
    let comps = si.composite_names();
    // shortest paths of field names from the query root to each composite type
    let mut path: std::collections::HashMap<String, Vec<String>> = std::collections::HashMap::new();
    if let Some(root) = si.root(OpKind::Query) {
        path.insert(root.clone(), vec![]);
        let mut queue = std::collections::VecDeque::new();
        queue.push_back(root);
        while let Some(cur) = queue.pop_front() {
            let here = path[&cur].clone();
            if let Some(td) = si.type_by_name(&cur) {
                for f in tfields(td) {
                    let required = f.arguments.iter().any(|a| matches!(a.value_type, q::Type::NonNullType(_)) && a.default_value.is_none());
                    if required {
                        continue;
                    }
                    let target = inner_name(&f.field_type).to_string();
                    if comps.contains(&target) && !path.contains_key(&target) {
                        let mut p = here.clone();
                        p.push(f.name.clone());
                        path.insert(target.clone(), p);
                        queue.push_back(target);
                    }
                }
            }
        }
    }
    let leaf_of = |t: &str| -> String {
        // a leaf selection valid on T
        let _ = t;
        "__typename".to_string()
    };
    let mut out = vec![];
    for p in &comps {
        for t in &comps {
            let _ = tname;
            out.push(format!("{{ __typename }} fragment F on {} {{ ... on {} {{ {} }} }}", p, t, leaf_of(t)));
            out.push(format!("{{ __typename }} fragment F on {} {{ ...G }} fragment G on {} {{ {} }}", p, t, leaf_of(t)));
            if let Some(fields) = path.get(p) {
                let open: String = fields.iter().map(|f| format!("{} {{ ", f)).collect();
                let close: String = fields.iter().map(|_| "} ").collect();
                out.push(format!("{{ {}... on {} {{ {} }} {}}}", open, t, leaf_of(t), close));
                out.push(format!("{{ {}...G {}}} fragment G on {} {{ {} }}", open, close, t, leaf_of(t)));
            }
        }
    }
    out
}

/// C03 / C05: fragments on type A that spread each other (cycles through spreads only and through
/// fields), reached from mutually exclusive contexts (same response key under `... on A` / `... on B`)
/// and from plain contexts, in random order — the synthetic schema's A/B are distinct object types.
pub fn merge_cycle_cases(rng: &mut Rng, n: usize) -> Vec<GDoc> {
    let leaf = |alias: Option<&str>, name: &str| GSel::Field { alias: alias.map(|x| x.to_string()), name: name.into(), args: vec![], dirs: vec![], sels: vec![] };
    let field = |alias: Option<&str>, name: &str, sels: Vec<GSel>| GSel::Field { alias: alias.map(|x| x.to_string()), name: name.into(), args: vec![], dirs: vec![], sels };
    let mut out = vec![];
    for _ in 0..n {
        let k = rng.range(2, 4);
        let fname = |i: usize| format!("F{}", i);
        let mut defs: Vec<GDef> = vec![];
        let spreads = |rng: &mut Rng| -> Vec<GSel> {
            let c = rng.range(1, 2);
            (0..c).map(|_| {
                let mut s = GSel::Spread { name: fname(rng.below(k)), dirs: vec![] };
                // now and then behind one or two nested inline fragments (typed / untyped)
                for _ in 0..(if rng.pct(35) { rng.range(1, 2) } else { 0 }) {
                    s = GSel::Inline { tc: match rng.below(3) { 0 => None, 1 => Some("A".into()), _ => Some("Named".into()) }, dirs: vec![], sels: vec![s] };
                }
                s
            }).collect()
        };
        // the operation
        let mut sels: Vec<GSel> = vec![];
        for _ in 0..rng.range(2, 4) {
            match rng.below(3) {
                0 => {
                    sels.push(GSel::Inline { tc: Some("A".into()), dirs: vec![], sels: vec![field(Some("o"), "self", spreads(rng))] });
                    sels.push(GSel::Inline { tc: Some("B".into()), dirs: vec![], sels: vec![field(Some("o"), "peer", spreads(rng))] });
                }
                1 => {
                    sels.push(GSel::Inline { tc: Some("A".into()), dirs: vec![], sels: vec![field(Some("p"), "self", spreads(rng)), field(Some("p"), "self", spreads(rng))] });
                }
                _ => {
                    sels.push(GSel::Inline { tc: Some("A".into()), dirs: vec![], sels: vec![field(None, "self", spreads(rng))] });
                }
            }
        }
        let root_field = if rng.pct(50) { "node" } else { "ab" };
        defs.push(GDef::Op { kind: OpKind::SelSet, name: None, vars: vec![], dirs: vec![], sels: vec![field(None, root_field, sels)] });
        for i in 0..k {
            let mut body: Vec<GSel> = vec![];
            for _ in 0..rng.range(1, 3) {
                match rng.below(20) {
                    0..=4 => body.push(leaf(Some("x"), if rng.pct(50) { "name" } else { "nick" })),
                    5..=12 => body.extend(spreads(rng).into_iter().take(1)),
                    _ => {
                        let mut inner: Vec<GSel> = spreads(rng).into_iter().take(1).collect();
                        if rng.pct(40) {
                            inner.push(leaf(Some("x"), if rng.pct(50) { "name" } else { "nick" }));
                        }
                        body.push(field(None, "self", inner));
                    }
                }
            }
            defs.push(GDef::Frag { name: fname(i), tc: "A".into(), dirs: vec![], sels: body });
        }
        out.push(GDoc(defs));
    }
    out
}

/// C07: 1..3 named operations that define different subsets of the variables $v0..$v2 (Boolean,
/// now and then Int or Boolean!) and enter a graph of 2..3 fragments on Query (every edge set for 2
/// fragments, sampled for 3, cycles included) at different fragments; fragment Fi uses $vi (and
/// sometimes another one) in `f_Boolean_0(a: ..)` / `f_Boolean_1(a: ..)` (Boolean / Boolean!).
pub fn variable_graph_cases(rng: &mut Rng, n: usize) -> Vec<GDoc> {
    let usage = |v: &str, strict: bool| GSel::Field { alias: None, name: if strict { "f_Boolean_1".into() } else { "f_Boolean_0".into() },
        args: vec![("a".to_string(), GValue::Var(v.to_string()))], dirs: vec![], sels: vec![] };
    let mut out = vec![];
    for i in 0..n {
        let k = if i % 3 == 0 { 2 } else { 3 };
        let edges: u32 = if k == 2 { (i / 3) as u32 % 16 } else { (rng.next() & 0x1FF) as u32 };
        let mut defs = vec![];
        let nops = rng.range(1, 3);
        let same_names = if rng.pct(25) { rng.range(1, 2) } else { 0 };
        for o in 0..nops {
            let mut vars = vec![];
            for v in 0..k {
                if rng.pct(60) {
                    let ty = match rng.below(10) {
                        0 => GType::Named("Int".into()),
                        1 | 2 => GType::NonNull(Box::new(GType::Named("Boolean".into()))),
                        _ => GType::Named("Boolean".into()),
                    };
                    vars.push(GVar { name: format!("v{}", v), ty, default: if rng.pct(15) { Some(GValue::Bool(true)) } else { None } });
                }
            }
            let mut sels = vec![];
            for f in 0..k {
                if rng.pct(45) {
                    let sp = GSel::Spread { name: format!("F{}", f), dirs: vec![] };
                    sels.push(if rng.pct(30) { GSel::Inline { tc: Some("Query".into()), dirs: vec![], sels: vec![sp] } } else { sp });
                }
            }
            if sels.is_empty() {
                sels.push(GSel::Spread { name: format!("F{}", rng.below(k)), dirs: vec![] });
            }
            if rng.pct(25) {
                sels.push(usage(&format!("v{}", rng.below(k)), false));
            }
            // a quarter of the documents give all operations the same name, or no name at all
            // (rejected by the operation-name rules, but the variable rules work per operation)
            // ... and now and then an operation carries the name of a fragment (separate name spaces)
            let name = match same_names { 1 => Some("Q".to_string()), 2 => None, _ => if rng.pct(15) { Some(format!("F{}", rng.below(k))) } else { Some(format!("Q{}", o)) } };
            defs.push(GDef::Op { kind: OpKind::Query, name, vars, dirs: vec![], sels });
        }
        for f in 0..k {
            let mut sels = vec![usage(&format!("v{}", f), rng.pct(25))];
            if rng.pct(20) {
                sels.push(usage(&format!("v{}", rng.below(k)), false));
            }
            for g in 0..k {
                if edges & (1 << (f * k + g)) != 0 {
                    let sp = GSel::Spread { name: format!("F{}", g), dirs: vec![] };
                    sels.push(if rng.pct(30) { GSel::Inline { tc: None, dirs: vec![], sels: vec![sp] } } else { sp });
                }
            }
            defs.push(GDef::Frag { name: format!("F{}", f), tc: "Query".into(), dirs: vec![], sels });
        }
        if rng.pct(30) {
            defs.reverse();
        }
        out.push(GDoc(defs));
    }
    out
}


/// C05: two fields under the same response key whose return types have every combination of
/// list / non-null shape over a composite or a leaf type, under mutually exclusive parents
/// (`... on A` / `... on B` inside the union-typed `ab`) in both orders, and under the same parent
/// (two fields of A), with agreeing sub-selections: only the type shapes decide.
pub fn merge_shape_cases() -> Vec<GDoc> {
    let a_comp = ["self", "selfN", "selfL", "selfLN", "selfNL", "list", "nested", "peer"];
    let b_comp = ["peer", "peerN", "peerL", "peerLN", "peerNL", "peerNLN", "peerLL"];
    let a_leaf = ["name", "nameN", "names", "a", "id"];
    let b_leaf = ["s", "sN", "sL", "i", "b", "id"];
    let fld = |name: &str, comp: bool| GSel::Field { alias: Some("k".into()), name: name.into(), args: vec![], dirs: vec![],
        sels: if comp { vec![GSel::Field { alias: None, name: "id".into(), args: vec![], dirs: vec![], sels: vec![] }] } else { vec![] } };
    let on = |t: &str, s: GSel| GSel::Inline { tc: Some(t.into()), dirs: vec![], sels: vec![s] };
    let doc = |root: &str, sels: Vec<GSel>| GDoc(vec![GDef::Op { kind: OpKind::SelSet, name: None, vars: vec![], dirs: vec![],
        sels: vec![GSel::Field { alias: None, name: root.into(), args: vec![], dirs: vec![], sels }] }]);
    let mut out = vec![];
    for (al, bl, comp) in [(&a_comp[..], &b_comp[..], true), (&a_leaf[..], &b_leaf[..], false)] {
        for x in al {
            for y in bl {
                out.push(doc("ab", vec![on("A", fld(x, comp)), on("B", fld(y, comp))]));
                out.push(doc("ab", vec![on("B", fld(y, comp)), on("A", fld(x, comp))]));
            }
            for x2 in al {
                out.push(doc("a", vec![fld(x, comp), fld(x2, comp)]));
            }
        }
    }
    // a composite against a leaf under exclusive parents
    out.push(doc("ab", vec![on("A", fld("self", true)), on("B", fld("s", false))]));
    out.push(doc("ab", vec![on("B", fld("s", false)), on("A", fld("self", true))]));
    out
}

/// C11 / C19: a subscription whose root selection set spreads fragments on Subscription that spread
/// each other (2..3 fragments, random edge sets incl. repeats and diamonds), each fragment placing
/// zero or one field BEFORE and AFTER each of its spreads (so that what follows a repeated spread
/// matters); fields drawn from a pool with at most two distinct response keys plus __typename.
pub fn subscription_graph_cases(rng: &mut Rng, n: usize) -> Vec<GDoc> {
    subscription_graph_cases_on(rng, n, "Subscription", "s1", "s2")
}

/// the same over a subscription root type `root` with fields `f1`, `f2` (type conditions name `root`)
pub fn subscription_graph_cases_on(rng: &mut Rng, n: usize, root: &str, f1: &str, f2: &str) -> Vec<GDoc> {
    subscription_graph_cases_tcs(rng, n, f1, f2, &[root])
}

/// the same with the type condition of every fragment (and of the inline wrappers) drawn from
/// `tcs`: the root type, interfaces it implements, unions that contain it, unrelated types
pub fn subscription_graph_cases_tcs(rng: &mut Rng, n: usize, f1: &str, f2: &str, tcs: &[&str]) -> Vec<GDoc> {
    let fld = |alias: Option<&str>, name: &str| GSel::Field { alias: alias.map(|x| x.to_string()), name: name.into(), args: vec![], dirs: vec![], sels: vec![] };
    let atoms: Vec<GSel> = vec![fld(None, f1), fld(None, f2), fld(Some(f1), f2), fld(Some("k"), f1), fld(None, "__typename")];
    let mut out = vec![];
    for _ in 0..n {
        let k = rng.range(1, 3);
        let one_key = rng.pct(50); // half of the documents use a single response key throughout: valid ones
        let pick = |rng: &mut Rng| -> GSel { if one_key { atoms[0].clone() } else { atoms[rng.below(atoms.len())].clone() } };
        let body = |rng: &mut Rng, targets: Vec<usize>| -> Vec<GSel> {
            let mut sels = vec![];
            for t in targets {
                if rng.pct(35) {
                    sels.push(pick(rng));
                }
                let sp = GSel::Spread { name: format!("F{}", t), dirs: vec![] };
                sels.push(if rng.pct(25) { GSel::Inline { tc: if tcs.len() > 1 && rng.pct(60) { Some(tcs[rng.below(tcs.len())].to_string()) } else { None }, dirs: vec![], sels: vec![sp] } } else { sp });
            }
            if rng.pct(60) || sels.is_empty() {
                sels.push(pick(rng));
            }
            sels
        };
        let mut defs = vec![];
        let mut roots: Vec<usize> = (0..rng.range(1, 3)).map(|_| rng.below(k)).collect();
        if rng.pct(30) {
            let r = roots[0];
            roots.push(r); // the same fragment spread twice
        }
        defs.push(GDef::Op { kind: OpKind::Subscription, name: Some("S".into()), vars: vec![], dirs: vec![], sels: body(rng, roots) });
        for f in 0..k {
            // acyclic: only higher-numbered targets; a target may repeat
            let mut targets = vec![];
            for g in (f + 1)..k {
                if rng.pct(60) {
                    targets.push(g);
                    if rng.pct(20) {
                        targets.push(g);
                    }
                }
            }
            defs.push(GDef::Frag { name: format!("F{}", f), tc: tcs[rng.below(tcs.len())].into(), dirs: vec![], sels: body(rng, targets) });
        }
        out.push(GDoc(defs));
    }
    out
}

/// C05: two fields with the same response key and the same field name whose single argument takes
/// ALL ordered pairs of values from a pool with every literal kind (scalars, enum, null, variable,
/// lists of different lengths, objects with equal / subset / superset / reordered key sets, nested);
/// plus argument present on one side only. Only the argument comparison decides.
pub fn merge_argument_cases() -> Vec<GDoc> {
    let o = |kv: Vec<(&str, GValue)>| GValue::Obj(kv.into_iter().map(|(k, v)| (k.to_string(), v)).collect());
    let pool: Vec<GValue> = vec![
        GValue::Int(1), GValue::Int(2), GValue::Float("1.5".into()), GValue::Str("a".into()), GValue::Bool(true), GValue::Null,
        GValue::Float("0.3".into()), GValue::Float("0.30000000000000004".into()), GValue::Float("1e-20".into()), GValue::Float("2e-20".into()), GValue::Float("1.0".into()),
        GValue::Enum("RED".into()), GValue::Var("v".into()), GValue::Var("w".into()),
        GValue::List(vec![]), GValue::List(vec![GValue::Int(1)]), GValue::List(vec![GValue::Int(1), GValue::Int(2)]), GValue::List(vec![GValue::Int(2), GValue::Int(1)]),
        o(vec![]), o(vec![("x", GValue::Int(1))]), o(vec![("x", GValue::Int(1)), ("y", GValue::Int(2))]), o(vec![("y", GValue::Int(2)), ("x", GValue::Int(1))]),
        o(vec![("y", GValue::Int(2))]), o(vec![("x", GValue::Int(2))]),
        o(vec![("inner", o(vec![("x", GValue::Int(1))]))]), o(vec![("inner", o(vec![("x", GValue::Int(1)), ("y", GValue::Int(0))]))]),
        GValue::List(vec![o(vec![("x", GValue::Var("v".into()))])]), GValue::List(vec![o(vec![("x", GValue::Var("v".into())), ("y", GValue::List(vec![GValue::Int(1)]))])]),
    ];
    let fld = |arg: Option<&GValue>| GSel::Field { alias: Some("k".into()), name: "f_Point_0".into(),
        args: arg.map(|v| vec![("a".to_string(), v.clone())]).unwrap_or_default(), dirs: vec![], sels: vec![] };
    let vars = vec![GVar { name: "v".into(), ty: GType::Named("Int".into()), default: None }, GVar { name: "w".into(), ty: GType::Named("Int".into()), default: None }];
    let doc = |a: GSel, b: GSel| GDoc(vec![GDef::Op { kind: OpKind::Query, name: Some("Q".into()), vars: vars.clone(), dirs: vec![], sels: vec![a, b] }]);
    let mut out = vec![];
    for x in &pool {
        for y in &pool {
            out.push(doc(fld(Some(x)), fld(Some(y))));
        }
        out.push(doc(fld(Some(x)), fld(None)));
        out.push(doc(fld(None), fld(Some(x))));
    }
    out
}


/// C09: an outer field with arguments, a wrapper (nothing / inline fragments on known, unknown or no
/// type / an unknown field / directive-bearing variants) and an inner field or directive with
/// arguments that are declared, undeclared, duplicated (adjacent and not), missing although
/// required (named, list-typed, defaulted): every combination, so that what the argument rules
/// remember between a field / directive and its arguments is exercised at every nesting.
pub fn argument_slot_cases() -> Vec<GDoc> {
    let i = |n: i64| GValue::Int(n);
    let fld = |name: &str, args: Vec<(&str, GValue)>, dirs: Vec<GDir>, sels: Vec<GSel>| GSel::Field { alias: None, name: name.into(),
        args: args.into_iter().map(|(k, v)| (k.to_string(), v)).collect(), dirs, sels };
    let dir = |name: &str, args: Vec<(&str, GValue)>| GDir { name: name.into(), args: args.into_iter().map(|(k, v)| (k.to_string(), v)).collect() };
    let leaf = || vec![fld("id", vec![], vec![], vec![])];
    // inner selections (placed innermost)
    let inners: Vec<GSel> = vec![
        fld("arg1", vec![("x", i(1))], vec![], leaf()),
        fld("arg1", vec![("y", i(1))], vec![], leaf()),                       // y not declared on arg1 (but on arg2)
        fld("arg1", vec![("x", i(1)), ("zz", i(2)), ("x", i(3))], vec![], leaf()), // duplicate, not adjacent, plus unknown
        fld("arg2", vec![("y", i(1)), ("ln", GValue::List(vec![]))], vec![], leaf()),
        fld("arg2", vec![("z", i(1))], vec![], leaf()),                       // y and ln missing
        fld("arg2", vec![("x", i(1)), ("y", i(2)), ("ln", GValue::List(vec![i(1)]))], vec![], leaf()), // x declared on arg1 only
        fld("name", vec![], vec![dir("args", vec![("int0", i(1))])], vec![]),
        fld("name", vec![], vec![dir("args", vec![("x", i(1))])], vec![]),    // x: an argument of the outer field, not of @args
        fld("name", vec![("x", i(1))], vec![dir("onF", vec![])], vec![]),     // name takes no arguments
        fld("nope", vec![("x", i(1))], vec![], vec![]),                       // unknown field
        fld("name", vec![], vec![dir("zzUnknown", vec![("x", i(1))])], vec![]), // unknown directive
        // an unknown directive ON a field with arguments, its arguments named like the field's
        fld("arg1", vec![("x", i(1))], vec![dir("zzUnknown", vec![("x", GValue::Obj(vec![("x".into(), i(1))])), ("y", i(2))])], leaf()),
        fld("arg2", vec![("y", i(1)), ("ln", GValue::List(vec![]))], vec![dir("zzUnknown", vec![("l", GValue::List(vec![i(1)])), ("y", GValue::Null)])], leaf()),
        GSel::Inline { tc: None, dirs: vec![dir("zzUnknown", vec![("x", i(1))])], sels: leaf() },
        GSel::Spread { name: "NoSuch".into(), dirs: vec![dir("zzUnknown", vec![("x", i(1)), ("y", i(1))])] },
    ];
    let wrap = |k: usize, inner: GSel| -> GSel {
        match k {
            0 => inner,
            1 => GSel::Inline { tc: None, dirs: vec![], sels: vec![inner] },
            2 => GSel::Inline { tc: Some("A".into()), dirs: vec![], sels: vec![inner] },
            3 => GSel::Inline { tc: Some("Ghost".into()), dirs: vec![], sels: vec![inner] },
            4 => GSel::Inline { tc: Some("Ghost".into()), dirs: vec![], sels: vec![fld("who", vec![], vec![], vec![inner])] },
            5 => fld("nope", vec![], vec![], vec![inner]),
            6 => fld("nope", vec![("q", i(1))], vec![], vec![inner]),
            7 => GSel::Inline { tc: Some("Named".into()), dirs: vec![dir("onIF", vec![])], sels: vec![inner] },
            _ => GSel::Inline { tc: Some("B".into()), dirs: vec![], sels: vec![fld("arg1", vec![("x", i(1))], vec![], vec![inner])] },
        }
    };
    let mut out = vec![];
    for (oi, outer_args) in [vec![("x", i(1))], vec![], vec![("x", i(1)), ("y", i(2))]].into_iter().enumerate() {
        for k in 0..9 {
            for inner in &inners {
                for sibling_first in [false, true] {
                    let mut sels = vec![wrap(k, inner.clone())];
                    if sibling_first {
                        sels.insert(0, fld("id", vec![], vec![], vec![]));
                    }
                    let outer = fld("arg1", outer_args.clone(), if oi == 1 { vec![dir("onF", vec![])] } else { vec![] }, sels);
                    out.push(GDoc(vec![GDef::Op { kind: OpKind::SelSet, name: None, vars: vec![], dirs: vec![],
                        sels: vec![fld("a", vec![], vec![], vec![outer])] }]));
                }
            }
        }
    }
    out
}

/// C04: a field f selected under `... on T` inside a selection set of type P, for EVERY ordered pair
/// (P, T) of composite types of the schema (T also absent = untyped fragment, and one level deeper:
/// `... on T { ... on U { f } }` for sampled U) and EVERY field name defined anywhere on P or T (plus
/// an undefined one): is f looked up on the right type?
pub fn field_owner_cases(si: &SchemaInfo, rng: &mut Rng, max: usize) -> Vec<String> {
    use crate::gen::{inner_name, tfields};
    let comps = si.composite_names();
    let is_comp = |n: &str| comps.iter().any(|c| c == n);
    let sel_for = |owner: &str, f: &str| -> String {
        // a well-formed selection of field f as declared on `owner` (sub-selection iff composite)
        match si.type_by_name(owner).and_then(|t| tfields(t).iter().find(|x| x.name == f)) {
            Some(fd) if is_comp(inner_name(&fd.field_type)) => format!("{} {{ __typename }}", f),
            _ => f.to_string(),
        }
    };
    let mut all = vec![];
    for p in &comps {
        for t in &comps {
            let mut names: Vec<String> = vec!["zzNope".to_string(), "__typename".to_string()];
            for owner in [p, t] {
                if let Some(td) = si.type_by_name(owner) {
                    for f in tfields(td) {
                        if f.arguments.iter().all(|a| !matches!(a.value_type, graphql_tools::static_graphql::query::Type::NonNullType(_)) || a.default_value.is_some()) && !names.contains(&f.name) {
                            names.push(f.name.clone());
                        }
                    }
                }
            }
            for f in &names {
                let owner = if si.type_by_name(t).map(|td| tfields(td).iter().any(|x| &x.name == f)).unwrap_or(false) { t } else { p };
                all.push(format!("{{ __typename }} fragment F on {} {{ ... on {} {{ {} }} }}", p, t, sel_for(owner, f)));
                all.push(format!("{{ __typename }} fragment F on {} {{ ... {{ ... on {} {{ {} }} }} }}", p, t, sel_for(owner, f)));
                let u = &comps[rng.below(comps.len())];
                all.push(format!("{{ __typename }} fragment F on {} {{ ... on {} {{ ... on {} {{ {} }} }} }}", p, t, u, sel_for(owner, f)));
            }
        }
    }
    pick_sample(all, max, rng)
}

/// C07 / C16: a variable inside an OBJECT literal for the input type Point (fields with and without
/// defaults, list-typed fields), the literal placed at a position of EVERY wrapper shape of Point:
/// bare (single-value coercion at list positions), inside matching list brackets, and nested in
/// `inner:`; variable types with and without non-null / default.
pub fn variable_object_cases() -> Vec<GDoc> {
    let vts: Vec<(GType, Option<GValue>)> = vec![
        (GType::Named("Int".into()), None),
        (GType::Named("Int".into()), Some(GValue::Int(3))),
        (GType::NonNull(Box::new(GType::Named("Int".into()))), None),
        (GType::Named("String".into()), None),
        (GType::List(Box::new(GType::NonNull(Box::new(GType::Named("String".into()))))), None),
        (GType::List(Box::new(GType::NonNull(Box::new(GType::Named("Int".into()))))), Some(GValue::List(vec![]))),
        (GType::NonNull(Box::new(GType::List(Box::new(GType::NonNull(Box::new(GType::Named("Int".into()))))))), None),
    ];
    let mut out = vec![];
    for (k, shape) in SHAPES.iter().enumerate() {
        for placement in 0..3 {
            for field in ["x", "y", "label", "tags", "nl"] {
                for (vt, dv) in &vts {
                    let mut obj = GValue::Obj(vec![("x".to_string(), GValue::Int(1)), ("nl".to_string(), GValue::List(vec![])), (field.to_string(), GValue::Var("v".into()))]
                        .into_iter().rev().collect::<Vec<_>>().into_iter().rev().collect());
                    // drop the constant duplicate of the field that carries the variable
                    if let GValue::Obj(ref mut kv) = obj {
                        let mut seen = false;
                        kv.retain(|(kk, vv)| { if kk == field && !matches!(vv, GValue::Var(_)) { false } else { if kk == field { if seen { return false; } seen = true; } true } });
                    }
                    let mut v = match placement {
                        2 => GValue::Obj(vec![("x".to_string(), GValue::Int(1)), ("nl".to_string(), GValue::List(vec![])), ("inner".to_string(), obj)]),
                        _ => obj,
                    };
                    if placement == 1 {
                        for c in shape.chars().rev() {
                            if c == 'L' {
                                v = GValue::List(vec![v]);
                            }
                        }
                    }
                    out.push(GDoc(vec![GDef::Op { kind: OpKind::Query, name: Some("Q".into()),
                        vars: vec![GVar { name: "v".into(), ty: vt.clone(), default: dv.clone() }], dirs: vec![],
                        sels: vec![GSel::Field { alias: None, name: format!("f_Point_{}", k), args: vec![("a".to_string(), v)], dirs: vec![], sels: vec![] }] }]));
                }
            }
        }
    }
    out
}

/// C05: fragment DAGs over fields with colliding response keys: 3..5 fragments on A, each with 0..2
/// leaf fields from a small pool (x: name / x: nick / y: name / name) and 0..3 spreads of later
/// fragments in RANDOM order (shared sub-fragments, diamonds, a conflicting fragment placed after an
/// already compared one); reached from the selection set's own fields, from a sibling same-key
/// field, or from two same-key fields one level down.
pub fn merge_fragment_dag_cases(rng: &mut Rng, n: usize) -> Vec<GDoc> {
    let leaf = |alias: Option<&str>, name: &str| GSel::Field { alias: alias.map(|x| x.to_string()), name: name.into(), args: vec![], dirs: vec![], sels: vec![] };
    let leaves = |rng: &mut Rng| -> Vec<GSel> {
        (0..rng.below(3)).map(|_| match rng.below(5) {
            0 => leaf(Some("x"), "name"), 1 => leaf(Some("x"), "nick"), 2 => leaf(Some("y"), "name"), 3 => leaf(None, "name"), _ => leaf(Some("y"), "id"),
        }).collect()
    };
    let mut out = vec![];
    for _ in 0..n {
        let k = rng.range(3, 5);
        let mut defs = vec![];
        let spreads_of = |rng: &mut Rng, from: usize| -> Vec<GSel> {
            let mut t: Vec<usize> = ((from + 1)..k).filter(|_| rng.pct(55)).collect();
            for a in (1..t.len()).rev() {
                let b = rng.below(a + 1);
                t.swap(a, b);
            }
            t.into_iter().map(|g| GSel::Spread { name: format!("D{}", g), dirs: vec![] }).collect()
        };
        let mut top: Vec<GSel> = leaves(rng);
        let mut roots: Vec<GSel> = (0..k).filter(|_| rng.pct(50)).map(|g| GSel::Spread { name: format!("D{}", g), dirs: vec![] }).collect();
        if roots.is_empty() {
            roots.push(GSel::Spread { name: "D0".into(), dirs: vec![] });
        }
        let body: Vec<GSel> = match rng.below(3) {
            0 => { top.extend(roots); top }
            1 => vec![GSel::Field { alias: Some("p".into()), name: "self".into(), args: vec![], dirs: vec![], sels: if top.is_empty() { vec![leaf(None, "id")] } else { top } },
                      GSel::Field { alias: Some("p".into()), name: "self".into(), args: vec![], dirs: vec![], sels: roots }],
            _ => { let mut v = roots; v.extend(top); v }
        };
        defs.push(GDef::Op { kind: OpKind::SelSet, name: None, vars: vec![], dirs: vec![],
            sels: vec![GSel::Field { alias: None, name: "a".into(), args: vec![], dirs: vec![], sels: body }] });
        for f in 0..k {
            let mut sels = vec![];
            let sp = spreads_of(rng, f);
            let lv = leaves(rng);
            if rng.pct(50) { sels.extend(lv); sels.extend(sp); } else { sels.extend(sp); sels.extend(lv); }
            if sels.is_empty() {
                sels.push(leaf(None, "id"));
            }
            defs.push(GDef::Frag { name: format!("D{}", f), tc: "A".into(), dirs: vec![], sels });
        }
        out.push(GDoc(defs));
    }
    out
}


/// C10: 2..7 directives on ONE node drawn with repetition from declared non-repeatable, declared
/// repeatable and undeclared names (so that duplicates of each kind occur next to several others),
/// on a field, an inline fragment, a fragment spread or the operation.
pub fn directive_mix_cases(rng: &mut Rng, n: usize) -> Vec<GDoc> {
    let pool = ["onF", "any", "rep", "zzUnknown", "zzOther", "skip", "onIF", "onFS", "onQ", "mixA", "mixB", "mixC", "pairFQ"];
    let mut out = vec![];
    for _ in 0..n {
        let m = rng.range(2, 7);
        let sub: Vec<&str> = (0..rng.range(2, 4)).map(|_| *rng.pick(&pool)).collect();
        let ds: Vec<GDir> = (0..m).map(|_| GDir { name: rng.pick(&sub).to_string(), args: vec![] }).collect();
        let leaf = GSel::Field { alias: None, name: "id".into(), args: vec![], dirs: vec![], sels: vec![] };
        let mut defs = vec![];
        let (op_dirs, inner): (Vec<GDir>, Vec<GSel>) = match rng.below(4) {
            0 => (vec![], vec![GSel::Field { alias: None, name: "id".into(), args: vec![], dirs: ds, sels: vec![] }]),
            1 => (vec![], vec![GSel::Inline { tc: if rng.pct(50) { Some("A".into()) } else { None }, dirs: ds, sels: vec![leaf.clone()] }]),
            2 => {
                defs.push(GDef::Frag { name: "Fd".into(), tc: "A".into(), dirs: vec![], sels: vec![leaf.clone()] });
                (vec![], vec![GSel::Spread { name: "Fd".into(), dirs: ds }])
            }
            _ => (ds, vec![leaf.clone()]),
        };
        defs.insert(0, GDef::Op { kind: OpKind::Query, name: Some("Q".into()), vars: vec![], dirs: op_dirs,
            sels: vec![GSel::Field { alias: None, name: "a".into(), args: vec![], dirs: vec![], sels: inner }] });
        out.push(GDoc(defs));
    }
    out
}

/// C09 / C04 / C16: the SAME field name selected under two different parent types in one enclosing
/// selection set (siblings across inline fragments, or a nested selection followed by a sibling),
/// where the two types declare the field with different arguments (A.arg2(y!, z, l, ln!, d) vs
/// B.arg2(q)) — both orders, every combination of argument sets.
pub fn argument_sibling_cases() -> Vec<GDoc> {
    let i = |n: i64| GValue::Int(n);
    let argsets: Vec<Vec<(&str, GValue)>> = vec![vec![("y", i(1)), ("ln", GValue::List(vec![]))], vec![("q", i(1))], vec![], vec![("y", i(1)), ("q", i(2)), ("ln", GValue::List(vec![i(1)]))]];
    let arg2 = |args: &Vec<(&str, GValue)>| GSel::Field { alias: None, name: "arg2".into(),
        args: args.iter().map(|(k, v)| (k.to_string(), v.clone())).collect(), dirs: vec![], sels: vec![GSel::Field { alias: None, name: "id".into(), args: vec![], dirs: vec![], sels: vec![] }] };
    let on = |t: &str, s: GSel| GSel::Inline { tc: Some(t.into()), dirs: vec![], sels: vec![s] };
    let under = |f: &str, s: GSel| GSel::Field { alias: None, name: f.into(), args: vec![], dirs: vec![], sels: vec![s] };
    let doc = |root: &str, sels: Vec<GSel>| GDoc(vec![GDef::Op { kind: OpKind::SelSet, name: None, vars: vec![], dirs: vec![],
        sels: vec![GSel::Field { alias: None, name: root.into(), args: vec![], dirs: vec![], sels }] }]);
    let mut out = vec![];
    // the same with a LEAF field (no nested selection set is entered between the two occurrences):
    // A.leafArg(x, y!) vs B.leafArg(q); `node` / `ab` have no such field at all
    let leafsets: Vec<Vec<(&str, GValue)>> = vec![vec![("x", i(1)), ("y", i(2))], vec![("q", i(1))], vec![("y", i(1))], vec![]];
    let leaf = |args: &Vec<(&str, GValue)>| GSel::Field { alias: None, name: "leafArg".into(),
        args: args.iter().map(|(k, v)| (k.to_string(), v.clone())).collect(), dirs: vec![], sels: vec![] };
    for a1 in &leafsets {
        for a2 in &leafsets {
            for flip in [false, true] {
                let pairs: Vec<(&str, GSel, GSel)> = vec![
                    ("ab", on("A", leaf(a1)), on("B", leaf(a2))),
                    ("node", on("A", leaf(a1)), leaf(a2)),            // then a field Node does not have
                    ("node", on("B", leaf(a1)), on("A", leaf(a2))),
                    ("a", under("peer", leaf(a1)), leaf(a2)),
                    ("b", under("peer", leaf(a1)), leaf(a2)),
                    ("a", on("B", leaf(a1)), leaf(a2)),
                ];
                for (root, x, y) in pairs {
                    out.push(doc(root, if flip { vec![y, x] } else { vec![x, y] }));
                }
            }
        }
    }
    for a1 in &argsets {
        for a2 in &argsets {
            for flip in [false, true] {
                let pairs: Vec<(&str, GSel, GSel)> = vec![
                    ("ab", on("A", arg2(a1)), on("B", arg2(a2))),
                    ("node", on("A", arg2(a1)), on("B", arg2(a2))),
                    ("a", under("peer", arg2(a1)), arg2(a2)),          // B.arg2 nested, then A.arg2
                    ("b", under("peer", arg2(a1)), arg2(a2)),          // A.arg2 nested, then B.arg2
                    ("a", on("B", arg2(a1)), arg2(a2)),
                    ("a", under("self", arg2(a1)), arg2(a2)),
                ];
                for (root, x, y) in pairs {
                    out.push(doc(root, if flip { vec![y, x] } else { vec![x, y] }));
                }
            }
        }
    }
    out
}


/// C08: object literals for the two-field input type Small { p: Int!  q: Int } with EVERY subset of
/// the keys {p, q, z (unknown), w (unknown)}, p and q taking good / null / wrong-kind values, as a
/// direct argument, as a list item and as a lone value at a list position.
pub fn small_object_cases() -> Vec<GDoc> {
    let mut out = vec![];
    let pvals = [GValue::Int(1), GValue::Null, GValue::Str("s".into())];
    let qvals = [GValue::Int(2), GValue::Null];
    for mask in 0..16u32 {
        for pv in &pvals {
            for qv in &qvals {
                if mask & 1 == 0 && !matches!(pv, GValue::Int(_)) { continue; }
                if mask & 2 == 0 && !matches!(qv, GValue::Int(_)) { continue; }
                let mut kv = vec![];
                if mask & 4 != 0 { kv.push(("z".to_string(), GValue::Int(3))); }
                if mask & 1 != 0 { kv.push(("p".to_string(), pv.clone())); }
                if mask & 8 != 0 { kv.push(("w".to_string(), GValue::Obj(vec![]))); }
                if mask & 2 != 0 { kv.push(("q".to_string(), qv.clone())); }
                let obj = GValue::Obj(kv);
                for (arg, v) in [("a", obj.clone()), ("l", GValue::List(vec![obj.clone()])), ("l", obj.clone())] {
                    out.push(GDoc(vec![GDef::Op { kind: OpKind::SelSet, name: None, vars: vec![], dirs: vec![],
                        sels: vec![GSel::Field { alias: None, name: "small".into(), args: vec![(arg.to_string(), v)], dirs: vec![], sels: vec![] }] }]));
                }
            }
        }
    }
    // the same key twice (no rule of the 24 forbids it; every occurrence is checked on its own)
    for kv in [
        vec![("p", GValue::Int(1)), ("p", GValue::Int(2))],
        vec![("p", GValue::Int(1)), ("q", GValue::Int(2)), ("p", GValue::Str("s".into()))],
        vec![("p", GValue::Str("s".into())), ("p", GValue::Int(1))],
        vec![("q", GValue::Int(1)), ("q", GValue::Str("s".into())), ("p", GValue::Int(1))],
        vec![("p", GValue::Null), ("p", GValue::Int(1))],
        vec![("z", GValue::Int(1)), ("p", GValue::Int(1)), ("z", GValue::Int(1))],
    ] {
        let obj = GValue::Obj(kv.into_iter().map(|(k, v)| (k.to_string(), v)).collect());
        for (arg, v) in [("a", obj.clone()), ("l", GValue::List(vec![obj.clone(), obj.clone()]))] {
            out.push(GDoc(vec![GDef::Op { kind: OpKind::SelSet, name: None, vars: vec![], dirs: vec![],
                sels: vec![GSel::Field { alias: None, name: "small".into(), args: vec![(arg.to_string(), v)], dirs: vec![], sels: vec![] }] }]));
        }
    }
    out
}


/// C13 (and the rules' own properties): documents that several rules have something to say about at
/// once, so that what one rule leaves behind can change another's answer: variable graphs in which
/// one fragment NAME is defined twice with different bodies (different spreads, different variable
/// usages), with fragment cycles and unknown spreads mixed in.
pub fn shared_state_cases(rng: &mut Rng, n: usize) -> Vec<GDoc> {
    let mut out = vec![];
    for mut d in variable_graph_cases(rng, n) {
        let names: Vec<String> = d.0.iter().filter_map(|x| match x { GDef::Frag { name, .. } => Some(name.clone()), _ => None }).collect();
        if names.len() >= 2 {
            // give the last fragment the name of an earlier one
            let target = names[rng.below(names.len() - 1)].clone();
            let last = names[names.len() - 1].clone();
            for x in d.0.iter_mut() {
                if let GDef::Frag { name, .. } = x {
                    if *name == last {
                        *name = target.clone();
                    }
                }
            }
            if rng.pct(40) {
                // spreads of the vanished name now point to the shared one as well
                fn rn(sels: &mut Vec<GSel>, from: &str, to: &str) {
                    for s in sels.iter_mut() {
                        match s {
                            GSel::Spread { name, .. } => { if name == from { *name = to.to_string(); } }
                            GSel::Field { sels, .. } | GSel::Inline { sels, .. } => rn(sels, from, to),
                        }
                    }
                }
                for x in d.0.iter_mut() {
                    match x { GDef::Op { sels, .. } | GDef::Frag { sels, .. } => rn(sels, &last, &target) }
                }
            }
        }
        out.push(d);
    }
    out
}

/// C11: 1..5 definitions drawn from shorthand queries, anonymous and named operations of the three
/// kinds (names from a two-element pool, so the same name recurs across kinds) and fragment
/// definitions, in every order the sampler produces (fragments first / between / last).
pub fn operation_mix_cases(rng: &mut Rng, n: usize) -> Vec<GDoc> {
    let leaf = |name: &str| GSel::Field { alias: None, name: name.into(), args: vec![], dirs: vec![], sels: vec![] };
    let mut out = vec![];
    for _ in 0..n {
        let m = rng.range(1, 5);
        let mut defs = vec![];
        let mut nfr = 0;
        for _ in 0..m {
            let d = match rng.below(9) {
                0 => GDef::Op { kind: OpKind::SelSet, name: None, vars: vec![], dirs: vec![], sels: vec![leaf("__typename")] },
                1 => GDef::Op { kind: OpKind::Query, name: None, vars: vec![], dirs: vec![], sels: vec![leaf("__typename")] },
                2 => GDef::Op { kind: OpKind::Mutation, name: None, vars: vec![], dirs: vec![], sels: vec![GSel::Field { alias: None, name: "m".into(), args: vec![], dirs: vec![], sels: vec![] }] },
                3 => GDef::Op { kind: OpKind::Subscription, name: None, vars: vec![], dirs: vec![], sels: vec![leaf("s1")] },
                4 => GDef::Op { kind: OpKind::Query, name: Some(rng.pick(&["A", "B"]).to_string()), vars: vec![], dirs: vec![], sels: vec![leaf("__typename")] },
                5 => GDef::Op { kind: OpKind::Mutation, name: Some(rng.pick(&["A", "B"]).to_string()), vars: vec![], dirs: vec![], sels: vec![leaf("m")] },
                6 => GDef::Op { kind: OpKind::Subscription, name: Some(rng.pick(&["A", "B"]).to_string()), vars: vec![], dirs: vec![], sels: vec![leaf("s1")] },
                _ => { nfr += 1; GDef::Frag { name: format!("{}", rng.pick(&["A", "B", "Fx"])), tc: "Query".into(), dirs: vec![], sels: vec![leaf("__typename")] } }
            };
            defs.push(d);
        }
        let _ = nfr;
        out.push(GDoc(defs));
    }
    out
}


/// C05: THREE fields under one response key, each behind `... on A` / `... on B` (or directly), each
/// one of the leaf fields of its type (A: id, name, nick, a; B: id, name, nick, i): every triple, under the
/// union-typed and the interface-typed root field — a conflict between the 2nd and 3rd that the 1st
/// does not share, identical leaf fields on different object types, and so on.
pub fn merge_triple_cases() -> Vec<GDoc> {
    let atoms: Vec<(&str, &str)> = vec![("A", "id"), ("A", "name"), ("A", "nick"), ("A", "a"), ("B", "id"), ("B", "name"), ("B", "nick"), ("B", "i")];
    let mut out = vec![];
    for root in ["ab", "node"] {
        for x in &atoms {
            for y in &atoms {
                for z in &atoms {
                    let sels: Vec<GSel> = [x, y, z].iter().map(|(t, f)| GSel::Inline { tc: Some(t.to_string()), dirs: vec![],
                        sels: vec![GSel::Field { alias: Some("k".into()), name: f.to_string(), args: vec![], dirs: vec![], sels: vec![] }] }).collect();
                    out.push(GDoc(vec![GDef::Op { kind: OpKind::SelSet, name: None, vars: vec![], dirs: vec![],
                        sels: vec![GSel::Field { alias: None, name: root.into(), args: vec![], dirs: vec![], sels }] }]));
                }
            }
        }
    }
    out
}


/// C03 / C05: one self-spreading fragment with TWO same-key fields each leading back to the fragment
/// (a multi-edge of the cycle), the two spreads behind every combination of wrappers (direct, one
/// or two nested inline fragments typed / untyped, an extra field level), plus the same with the
/// second edge going through a second fragment.
pub fn cycle_multi_edge_cases() -> Vec<GDoc> {
    let sp = |n: &str| GSel::Spread { name: n.into(), dirs: vec![] };
    let inl = |tc: Option<&str>, x: GSel| GSel::Inline { tc: tc.map(|t| t.to_string()), dirs: vec![], sels: vec![x] };
    let fld = |x: Vec<GSel>| GSel::Field { alias: None, name: "self".into(), args: vec![], dirs: vec![], sels: x };
    let wrappers: Vec<Box<dyn Fn(GSel) -> GSel>> = vec![
        Box::new(|x| x),
        Box::new(move |x| inl(None, x)),
        Box::new(move |x| inl(Some("A"), x)),
        Box::new(move |x| inl(Some("Named"), inl(Some("A"), x))),
        Box::new(move |x| inl(None, inl(None, x))),
        Box::new(move |x| inl(Some("A"), inl(None, inl(Some("Named"), x)))),
        Box::new(move |x| fld(vec![x])),
        Box::new(move |x| fld(vec![inl(Some("Named"), inl(Some("A"), x))])),
    ];
    let mut out = vec![];
    for w1 in &wrappers {
        for w2 in &wrappers {
            for two in [false, true] {
                let second = if two { "G" } else { "F" };
                let body = vec![fld(vec![w1(sp("F"))]), fld(vec![w2(sp(second))])];
                let mut defs = vec![
                    GDef::Op { kind: OpKind::SelSet, name: None, vars: vec![], dirs: vec![], sels: vec![GSel::Field { alias: None, name: "a".into(), args: vec![], dirs: vec![], sels: vec![sp("F")] }] },
                    GDef::Frag { name: "F".into(), tc: "A".into(), dirs: vec![], sels: body },
                ];
                if two {
                    defs.push(GDef::Frag { name: "G".into(), tc: "A".into(), dirs: vec![], sels: vec![fld(vec![w1(sp("F"))]), GSel::Field { alias: None, name: "id".into(), args: vec![], dirs: vec![], sels: vec![] }] });
                }
                out.push(GDoc(defs));
            }
        }
    }
    out
}


/// C08: TWO enum literals in one document, at positions expecting two enums that share a value
/// (Color { RED GREEN BLUE }, Signal { GREEN AMBER }): every pair of literals from both enums and an
/// unknown name, as sibling arguments in both orders, in two fields, in two operations, and with a
/// list item first.
pub fn enum_pair_cases() -> Vec<GDoc> {
    let lits = ["RED", "GREEN", "AMBER", "NOPE"];
    let e = |x: &str| GValue::Enum(x.to_string());
    let fld = |alias: Option<&str>, args: Vec<(&str, GValue)>| GSel::Field { alias: alias.map(|a| a.to_string()), name: "both".into(),
        args: args.into_iter().map(|(k, v)| (k.to_string(), v)).collect(), dirs: vec![], sels: vec![] };
    let op = |name: &str, sels: Vec<GSel>| GDef::Op { kind: OpKind::Query, name: Some(name.into()), vars: vec![], dirs: vec![], sels };
    let mut out = vec![];
    for x in lits {
        for y in lits {
            out.push(GDoc(vec![op("Q", vec![fld(None, vec![("color", e(x)), ("signal", e(y))])])]));
            out.push(GDoc(vec![op("Q", vec![fld(None, vec![("signal", e(y)), ("color", e(x))])])]));
            out.push(GDoc(vec![op("Q", vec![fld(Some("a1"), vec![("color", e(x))]), fld(Some("a2"), vec![("signal", e(y))])])]));
            out.push(GDoc(vec![op("Q", vec![fld(Some("a1"), vec![("signal", e(y))]), fld(Some("a2"), vec![("color", e(x))])])]));
            out.push(GDoc(vec![op("Q1", vec![fld(None, vec![("color", e(x))])]), op("Q2", vec![fld(None, vec![("signal", e(y))])])]));
            out.push(GDoc(vec![op("Q", vec![fld(None, vec![("colors", GValue::List(vec![e(x)])), ("signal", e(y))])])]));
        }
    }
    out
}

/// C13: documents on which SEVERAL rules report, with two or more operation names each used twice
/// (so that rules reporting after the walk have several errors of their own), unknown fragments,
/// undefined variables and unknown fields spread over the operations.
pub fn multi_error_cases(rng: &mut Rng, n: usize) -> Vec<GDoc> {
    let leaf = |name: &str| GSel::Field { alias: None, name: name.into(), args: vec![], dirs: vec![], sels: vec![] };
    let mut out = vec![];
    for _ in 0..n {
        let mut names = vec!["Foo", "Foo", "Bar", "Bar"];
        if rng.pct(40) { names.push("Baz"); }
        if rng.pct(30) { names.push("Foo"); }
        for a in (1..names.len()).rev() {
            let b = rng.below(a + 1);
            names.swap(a, b);
        }
        let mut defs = vec![];
        for nm in names {
            let mut sels = vec![leaf("__typename")];
            match rng.below(5) {
                0 => sels.push(GSel::Spread { name: "Missing".into(), dirs: vec![] }),
                1 => sels.push(leaf("zzNope")),
                2 => sels.push(GSel::Field { alias: None, name: "f_Int_0".into(), args: vec![("a".to_string(), GValue::Var("u".into()))], dirs: vec![], sels: vec![] }),
                3 => sels.push(GSel::Field { alias: None, name: "a".into(), args: vec![], dirs: vec![GDir { name: "zzUnknown".into(), args: vec![] }], sels: vec![] }),
                _ => {}
            }
            defs.push(GDef::Op { kind: OpKind::Query, name: Some(nm.to_string()), vars: vec![], dirs: vec![], sels });
        }
        if rng.pct(50) {
            defs.push(GDef::Frag { name: "Unused".into(), tc: "Query".into(), dirs: vec![], sels: vec![leaf("__typename")] });
        }
        out.push(GDoc(defs));
    }
    out
}

/// C05: a sub-fragment S shared by two fragments F1 { ...S } and F2 { ...S ...T } (both orders of
/// F2's spreads), the conflicting field only in T, compared with the selection set's own field or
/// with a sibling same-key field's sub-selection — exhaustive over the leaf fields involved and the
/// orders of the spreads.
pub fn merge_shared_subfragment_cases() -> Vec<GDoc> {
    let leaf = |alias: Option<&str>, name: &str| GSel::Field { alias: alias.map(|x| x.to_string()), name: name.into(), args: vec![], dirs: vec![], sels: vec![] };
    let sp = |n: &str| GSel::Spread { name: n.into(), dirs: vec![] };
    let mut out = vec![];
    for l1 in ["name", "nick"] {
        for l2 in ["name", "nick"] {
            for ls in 0..3 {
                for f2_swapped in [false, true] {
                    for op_swapped in [false, true] {
                        for nested in [false, true] {
                            let s_body = match ls { 0 => leaf(None, "id"), 1 => leaf(Some("x"), "name"), _ => leaf(Some("y"), "nick") };
                            let f2 = if f2_swapped { vec![sp("T"), sp("S")] } else { vec![sp("S"), sp("T")] };
                            let spreads = if op_swapped { vec![sp("F2"), sp("F1")] } else { vec![sp("F1"), sp("F2")] };
                            let body: Vec<GSel> = if nested {
                                vec![GSel::Field { alias: Some("p".into()), name: "self".into(), args: vec![], dirs: vec![], sels: vec![leaf(Some("x"), l1)] },
                                     GSel::Field { alias: Some("p".into()), name: "self".into(), args: vec![], dirs: vec![], sels: spreads }]
                            } else {
                                let mut v = vec![leaf(Some("x"), l1)];
                                v.extend(spreads);
                                v
                            };
                            out.push(GDoc(vec![
                                GDef::Op { kind: OpKind::SelSet, name: None, vars: vec![], dirs: vec![], sels: vec![GSel::Field { alias: None, name: "a".into(), args: vec![], dirs: vec![], sels: body }] },
                                GDef::Frag { name: "F1".into(), tc: "A".into(), dirs: vec![], sels: vec![sp("S")] },
                                GDef::Frag { name: "F2".into(), tc: "A".into(), dirs: vec![], sels: f2 },
                                GDef::Frag { name: "S".into(), tc: "A".into(), dirs: vec![], sels: vec![s_body] },
                                GDef::Frag { name: "T".into(), tc: "A".into(), dirs: vec![], sels: vec![leaf(Some("x"), l2)] },
                            ]));
                        }
                    }
                }
            }
        }
    }
    out
}

/// C10: sequences of 2..4 SIBLING nodes (field with a nested selection, inline fragment, fragment
/// spread, leaf field), each carrying 0..2 directives from a pool of location-restricted ones, inside
/// a field / an inline fragment / a fragment definition that follows the operation: what the rule
/// remembers about the current location must be right AFTER leaving a nested node.
pub fn directive_sibling_cases(rng: &mut Rng, n: usize) -> Vec<GDoc> {
    let pool = ["onF", "onIF", "onFS", "onFD", "onQ", "any", "zzUnknown", "mixA", "mixB", "mixC", "pairSD"];
    let dirs = |rng: &mut Rng| -> Vec<GDir> { (0..rng.below(3)).map(|_| GDir { name: rng.pick(&pool).to_string(), args: vec![] }).collect() };
    let leaf = |d: Vec<GDir>| GSel::Field { alias: None, name: "id".into(), args: vec![], dirs: d, sels: vec![] };
    let mut out = vec![];
    for _ in 0..n {
        let mut sibs = vec![];
        for _ in 0..rng.range(2, 4) {
            let d = dirs(rng);
            sibs.push(match rng.below(4) {
                0 => GSel::Field { alias: None, name: "self".into(), args: vec![], dirs: d, sels: vec![GSel::Inline { tc: Some("A".into()), dirs: dirs(rng), sels: vec![leaf(dirs(rng))] }] },
                1 => GSel::Inline { tc: if rng.pct(50) { Some("Named".into()) } else { None }, dirs: d, sels: vec![leaf(dirs(rng)), GSel::Spread { name: "Fd".into(), dirs: dirs(rng) }] },
                2 => GSel::Spread { name: "Fd".into(), dirs: d },
                _ => leaf(d),
            });
        }
        let opd = dirs(rng);
        let frd = dirs(rng);
        let mut defs = vec![
            GDef::Op { kind: *rng.pick(&[OpKind::Query, OpKind::SelSet, OpKind::Query]), name: None, vars: vec![], dirs: vec![], sels: vec![GSel::Field { alias: None, name: "a".into(), args: vec![], dirs: dirs(rng), sels: sibs }] },
            GDef::Frag { name: "Fd".into(), tc: "A".into(), dirs: frd, sels: vec![leaf(dirs(rng)), GSel::Inline { tc: None, dirs: dirs(rng), sels: vec![leaf(vec![])] }] },
        ];
        if let GDef::Op { kind, dirs: d0, name, .. } = &mut defs[0] {
            if *kind != OpKind::SelSet {
                *d0 = opd;
                *name = Some("Q".into());
            }
        }
        if rng.pct(30) {
            defs.reverse();
        }
        out.push(GDoc(defs));
    }
    out
}

/// C11: subscriptions with up to four root selections drawn from fields, aliased fields (aliases
/// colliding with each other and with field names), __typename under an alias, the same field twice,
/// inline fragments on the root type; and operation mixes whose names differ only in case.
pub fn subscription_key_cases(rng: &mut Rng, n: usize) -> Vec<GDoc> {
    let f = |alias: Option<&str>, name: &str| GSel::Field { alias: alias.map(|a| a.to_string()), name: name.into(), args: vec![], dirs: vec![], sels: vec![] };
    let atoms: Vec<GSel> = vec![f(None, "s1"), f(None, "s2"), f(Some("s1"), "s2"), f(Some("k"), "s1"), f(Some("k"), "s2"), f(Some("t"), "__typename"), f(None, "__typename"), f(Some("s2"), "s2")];
    let mut out = vec![];
    for i in 0..n {
        if i % 5 == 4 {
            // names differing in case / equal across kinds
            let names = ["A", "a", "A"];
            let kinds = [OpKind::Query, OpKind::Mutation, OpKind::Subscription];
            let m = rng.range(2, 3);
            let defs: Vec<GDef> = (0..m).map(|_| {
                let k = *rng.pick(&kinds);
                let body = match k { OpKind::Mutation => f(None, "m"), OpKind::Subscription => f(None, "s1"), _ => f(None, "__typename") };
                GDef::Op { kind: k, name: Some(rng.pick(&names).to_string()), vars: vec![], dirs: vec![], sels: vec![body] }
            }).collect();
            out.push(GDoc(defs));
            continue;
        }
        let mut sels = vec![];
        for _ in 0..rng.range(1, 4) {
            let a = atoms[rng.below(atoms.len())].clone();
            sels.push(match rng.below(4) { 0 => GSel::Inline { tc: Some("Subscription".into()), dirs: vec![], sels: vec![a] }, 1 => GSel::Inline { tc: None, dirs: vec![], sels: vec![a] }, _ => a });
        }
        out.push(GDoc(vec![GDef::Op { kind: OpKind::Subscription, name: Some("S".into()), vars: vec![], dirs: vec![], sels }]));
    }
    out
}

/// C07: one variable whose ONLY usage sits in an unusual place: a directive argument on the operation
/// itself, on a field, on an inline fragment or on a fragment spread; inside its own or another
/// variable's default value; in an argument of an unknown field / unknown directive; inside a
/// fragment reached only through an inline fragment of another fragment; never.
pub fn variable_site_cases() -> Vec<GDoc> {
    let v = || GValue::Var("v".into());
    let leaf = || GSel::Field { alias: None, name: "f_Boolean_0".into(), args: vec![], dirs: vec![], sels: vec![] };
    let args_dir = |val: GValue| GDir { name: "args".into(), args: vec![("boolean0".to_string(), val)] };
    let mut out = vec![];
    for vt in [GType::Named("Boolean".into()), GType::NonNull(Box::new(GType::Named("Boolean".into()))), GType::Named("Int".into())] {
        for site in 0..12 {
            let mut vars = vec![GVar { name: "v".into(), ty: vt.clone(), default: None }];
            let mut opdirs = vec![];
            let mut sels = vec![leaf()];
            let mut defs_extra = vec![];
            match site {
                0 => opdirs.push(args_dir(v())),
                1 => sels = vec![GSel::Field { alias: None, name: "f_Boolean_0".into(), args: vec![], dirs: vec![args_dir(v())], sels: vec![] }],
                2 => sels = vec![GSel::Inline { tc: None, dirs: vec![args_dir(v())], sels: vec![leaf()] }],
                3 => { sels = vec![GSel::Spread { name: "Fz".into(), dirs: vec![args_dir(v())] }]; defs_extra.push(GDef::Frag { name: "Fz".into(), tc: "Query".into(), dirs: vec![], sels: vec![leaf()] }); }
                4 => vars[0].default = Some(v()),
                5 => vars.push(GVar { name: "w".into(), ty: GType::Named("Boolean".into()), default: Some(v()) }),
                6 => sels = vec![GSel::Field { alias: None, name: "zzNope".into(), args: vec![("a".to_string(), v())], dirs: vec![], sels: vec![] }],
                7 => sels = vec![GSel::Field { alias: None, name: "f_Boolean_0".into(), args: vec![], dirs: vec![GDir { name: "zzUnknown".into(), args: vec![("x".to_string(), v())] }], sels: vec![] }],
                8 => {
                    sels = vec![GSel::Spread { name: "Fa".into(), dirs: vec![] }];
                    defs_extra.push(GDef::Frag { name: "Fa".into(), tc: "Query".into(), dirs: vec![], sels: vec![GSel::Inline { tc: Some("Query".into()), dirs: vec![], sels: vec![GSel::Spread { name: "Fb".into(), dirs: vec![] }] }] });
                    defs_extra.push(GDef::Frag { name: "Fb".into(), tc: "Query".into(), dirs: vec![], sels: vec![GSel::Field { alias: None, name: "f_Boolean_0".into(), args: vec![("a".to_string(), GValue::List(vec![GValue::Obj(vec![("k".to_string(), GValue::List(vec![v()]))])]))], dirs: vec![], sels: vec![] }] });
                }
                // one field, two arguments of the same type `Int!`, one declaring a default: either order
                10 | 11 => {
                    let mut args = vec![("y".to_string(), v()), ("d".to_string(), v()), ("ln".to_string(), GValue::List(vec![]))];
                    if site == 11 {
                        args.swap(0, 1);
                    }
                    sels = vec![GSel::Field { alias: None, name: "a".into(), args: vec![], dirs: vec![], sels: vec![GSel::Field { alias: None, name: "arg2".into(), args, dirs: vec![], sels: vec![GSel::Field { alias: None, name: "id".into(), args: vec![], dirs: vec![], sels: vec![] }] }] }];
                }
                _ => {}
            }
            let mut defs = vec![GDef::Op { kind: OpKind::Query, name: Some("Q".into()), vars, dirs: opdirs, sels }];
            defs.extend(defs_extra);
            out.push(GDoc(defs));
        }
    }
    out
}

/// name spaces are separate in GraphQL: a fragment may be called like a type, like an operation,
/// like a field or like a variable.  Renames the fragments of `d` (definitions and every spread)
/// by a random injective map into `pool` (names of other name spaces) and, `name_ops`, gives the
/// operations names taken from the same pool (so that an operation and a fragment share a name).
pub fn collide_names(d: &GDoc, rng: &mut Rng, pool: &[&str], name_ops: bool) -> GDoc {
    let mut frag_names: Vec<String> = vec![];
    for def in &d.0 {
        if let GDef::Frag { name, .. } = def {
            if !frag_names.contains(name) {
                frag_names.push(name.clone());
            }
        }
    }
    let mut free: Vec<&str> = pool.to_vec();
    let mut map: Vec<(String, String)> = vec![];
    for n in &frag_names {
        if free.is_empty() || rng.pct(20) {
            continue;
        }
        let i = rng.below(free.len());
        map.push((n.clone(), free.remove(i).to_string()));
    }
    fn ren(map: &[(String, String)], n: &str) -> String {
        map.iter().find(|(a, _)| a == n).map(|(_, b)| b.clone()).unwrap_or_else(|| n.to_string())
    }
    fn go(map: &[(String, String)], s: &[GSel]) -> Vec<GSel> {
        s.iter()
            .map(|x| match x {
                GSel::Field { alias, name, args, dirs, sels } => GSel::Field { alias: alias.clone(), name: name.clone(), args: args.clone(), dirs: dirs.clone(), sels: go(map, sels) },
                GSel::Spread { name, dirs } => GSel::Spread { name: ren(map, name), dirs: dirs.clone() },
                GSel::Inline { tc, dirs, sels } => GSel::Inline { tc: tc.clone(), dirs: dirs.clone(), sels: go(map, sels) },
            })
            .collect()
    }
    let mut used_op_names: Vec<String> = vec![];
    let mut defs = vec![];
    let n_ops = d.0.iter().filter(|x| matches!(x, GDef::Op { .. })).count();
    for def in &d.0 {
        match def {
            GDef::Op { kind, name, vars, dirs, sels } => {
                let mut kind = *kind;
                let mut name = name.clone();
                if name_ops {
                    // an operation named like one of the (renamed) fragments, or like a pool name
                    let cands: Vec<String> = map.iter().map(|(_, b)| b.clone()).chain(frag_names.iter().cloned()).chain(pool.iter().map(|s| s.to_string())).filter(|c| !used_op_names.contains(c)).collect();
                    if !cands.is_empty() && (n_ops == 1 || name.is_some()) {
                        let c = cands[rng.below(cands.len().min(map.len() + frag_names.len()).max(1))].clone();
                        used_op_names.push(c.clone());
                        name = Some(c);
                        if kind == OpKind::SelSet {
                            kind = OpKind::Query;
                        }
                    }
                }
                defs.push(GDef::Op { kind, name, vars: vars.clone(), dirs: dirs.clone(), sels: go(&map, sels) });
            }
            GDef::Frag { name, tc, dirs, sels } => defs.push(GDef::Frag { name: ren(&map, name), tc: tc.clone(), dirs: dirs.clone(), sels: go(&map, sels) }),
        }
    }
    GDoc(defs)
}

/// C05, mutually exclusive parents (inline fragments on A / B below an abstract field) whose
/// same-keyed composite fields reach a same-keyed sub-field directly on one side and only through
/// a named fragment (possibly nested, possibly below a further inline fragment) on the other; the
/// sub-fields differ in name or arguments (allowed: the parents are disjoint) or in shape (never
/// allowed); the same with non-exclusive parents (A twice) where every difference is a conflict
pub fn merge_exclusive_fragment_cases() -> Vec<GDoc> {
    let fld = |alias: Option<&str>, name: &str, args: Vec<(String, GValue)>, sels: Vec<GSel>| GSel::Field { alias: alias.map(|s| s.to_string()), name: name.into(), args, dirs: vec![], sels };
    let spread = |n: &str| GSel::Spread { name: n.into(), dirs: vec![] };
    // sub-fields keyed n on type A (the composite field is `peer`/`self` returning A on both sides)
    let subs: Vec<(&str, Vec<(String, GValue)>)> = vec![
        ("name", vec![]),
        ("nick", vec![]),
        ("a", vec![]),
        ("nameN", vec![]),
        ("names", vec![]),
        ("leafArg", vec![("x".to_string(), GValue::Int(1)), ("y".to_string(), GValue::Int(2))]),
        ("leafArg", vec![("x".to_string(), GValue::Int(3)), ("y".to_string(), GValue::Int(2))]),
    ];
    let mut out = vec![];
    for (i, s1) in subs.iter().enumerate() {
        for (j, s2) in subs.iter().enumerate() {
            if i == j {
                continue;
            }
            for place in 0..6usize {
                for parents in 0..3usize {
                    // side 1: direct; side 2: by placement
                    let n1 = fld(Some("n"), s1.0, s1.1.clone(), vec![]);
                    let n2 = fld(Some("n"), s2.0, s2.1.clone(), vec![]);
                    let mut frags: Vec<GDef> = vec![];
                    let (sub1, sub2): (Vec<GSel>, Vec<GSel>) = match place {
                        0 => (vec![n1], vec![n2]),
                        1 => {
                            frags.push(GDef::Frag { name: "F".into(), tc: "A".into(), dirs: vec![], sels: vec![n2] });
                            (vec![n1], vec![spread("F")])
                        }
                        2 => {
                            frags.push(GDef::Frag { name: "F".into(), tc: "A".into(), dirs: vec![], sels: vec![n1] });
                            (vec![spread("F")], vec![n2])
                        }
                        3 => {
                            frags.push(GDef::Frag { name: "F".into(), tc: "A".into(), dirs: vec![], sels: vec![spread("G")] });
                            frags.push(GDef::Frag { name: "G".into(), tc: "A".into(), dirs: vec![], sels: vec![n2] });
                            (vec![n1], vec![GSel::Inline { tc: None, dirs: vec![], sels: vec![spread("F")] }])
                        }
                        4 => {
                            frags.push(GDef::Frag { name: "F".into(), tc: "A".into(), dirs: vec![], sels: vec![n1] });
                            frags.push(GDef::Frag { name: "G".into(), tc: "A".into(), dirs: vec![], sels: vec![n2] });
                            (vec![spread("F")], vec![spread("G")])
                        }
                        _ => {
                            frags.push(GDef::Frag { name: "F".into(), tc: "Named".into(), dirs: vec![], sels: vec![GSel::Inline { tc: Some("A".into()), dirs: vec![], sels: vec![n2] }] });
                            (vec![fld(None, "id", vec![], vec![]), n1], vec![spread("F"), fld(None, "id", vec![], vec![])])
                        }
                    };
                    let (c1, f1, c2, f2) = match parents {
                        0 => ("A", "self", "B", "peer"),
                        1 => ("B", "peer", "A", "self"),
                        _ => ("A", "self", "A", "self"),
                    };
                    let root = fld(None, "node", vec![], vec![
                        GSel::Inline { tc: Some(c1.into()), dirs: vec![], sels: vec![fld(Some("o"), f1, vec![], sub1)] },
                        GSel::Inline { tc: Some(c2.into()), dirs: vec![], sels: vec![fld(Some("o"), f2, vec![], sub2)] },
                    ]);
                    let mut defs = vec![GDef::Op { kind: OpKind::SelSet, name: None, vars: vec![], dirs: vec![], sels: vec![root] }];
                    defs.extend(frags);
                    out.push(GDoc(defs));
                }
            }
        }
    }
    out
}

/// C19: fragments NAMED like types of the synthetic schema (A, B) with every type condition,
/// mixed with inline fragments on those types, in every order (length 2 exhaustive, 3 sampled)
pub fn collect_name_collision_cases(rng: &mut Rng, n3: usize) -> Vec<GDoc> {
    let leaf = |alias: &str| GSel::Field { alias: Some(alias.into()), name: "id".into(), args: vec![], dirs: vec![], sels: vec![] };
    let items: Vec<GSel> = vec![
        GSel::Spread { name: "A".into(), dirs: vec![] },
        GSel::Spread { name: "B".into(), dirs: vec![] },
        GSel::Inline { tc: Some("A".into()), dirs: vec![], sels: vec![leaf("ia")] },
        GSel::Inline { tc: Some("B".into()), dirs: vec![], sels: vec![leaf("ib")] },
        GSel::Inline { tc: Some("Node".into()), dirs: vec![], sels: vec![leaf("in")] },
    ];
    let tcs = ["A", "B", "Node"];
    let mk = |seq: Vec<GSel>, ta: &str, tb: &str| {
        GDoc(vec![
            GDef::Op { kind: OpKind::SelSet, name: None, vars: vec![], dirs: vec![], sels: vec![GSel::Field { alias: None, name: "node".into(), args: vec![], dirs: vec![], sels: seq }] },
            GDef::Frag { name: "A".into(), tc: ta.into(), dirs: vec![], sels: vec![leaf("fa"), GSel::Inline { tc: Some("B".into()), dirs: vec![], sels: vec![leaf("fab")] }] },
            GDef::Frag { name: "B".into(), tc: tb.into(), dirs: vec![], sels: vec![leaf("fb"), GSel::Spread { name: "A".into(), dirs: vec![] }] },
        ])
    };
    let mut out = vec![];
    let mut three = vec![];
    for ta in tcs {
        for tb in tcs {
            for x in &items {
                for y in &items {
                    out.push(mk(vec![x.clone(), y.clone()], ta, tb));
                    for z in &items {
                        three.push(mk(vec![x.clone(), y.clone(), z.clone()], ta, tb));
                    }
                }
            }
        }
    }
    out.extend(pick_sample(three, n3, rng));
    out
}

/// C14: the documents of the targeted families of the rule properties (synthetic schema) as
/// sources of the meaning-preserving rewrites: whatever state a rule keeps while it walks a
/// document (memo tables, first-usage records, visited lists) is exercised under every order
pub fn rewrite_source_pool(rng: &mut Rng) -> Vec<GDoc> {
    let mut out: Vec<GDoc> = vec![];
    for vb in ["Int", "Point", "Color"] {
        for vk in 0..4 {
            for dk in 0..2 {
                for l1 in 0..4 {
                    for d1 in [false, true] {
                        for d2 in [false, true] {
                            // the same location type twice (with / without location default), and a neighbour
                            for l2 in [l1, (l1 + 1) % 4] {
                                if let Some(d) = two_usages_case(vb, vk, dk, l1, d1, l2, d2, rng.pct(30)) {
                                    out.push(d);
                                }
                            }
                        }
                    }
                }
            }
        }
    }
    out.extend(variable_site_cases());
    out.extend(pick_sample(variable_object_cases(), 300, rng));
    out.extend(argument_sibling_cases());
    out.extend(argument_slot_cases());
    out.extend(pick_sample(directive_argument_cases(), 100, rng));
    out.extend(directive_sibling_cases(rng, 300));
    out.extend(directive_mix_cases(rng, 300));
    out.extend(pick_sample(merge_exclusive_fragment_cases(), 300, rng));
    out.extend(merge_shared_subfragment_cases());
    out.extend(merge_argument_cases());
    out.extend(merge_argument_order_cases());
    out.extend(enum_pair_cases());
    out.extend(small_object_cases());
    out.extend(operation_mix_cases(rng, 300));
    out.extend(subscription_key_cases(rng, 200));
    out.extend(merge_fragment_dag_cases(rng, 300));
    out.extend(valid_variable_dag_cases(rng, 400));
    out.extend(merge_untyped_wrapper_cases());
    out
}

/// variable definitions of EVERY kind of type (the first object, interface, union, enum, custom
/// scalar, built-in scalar and input object of the schema, and an unknown name), bare and as
/// `[T!]`, with a default value of every literal kind: the rules that look at variable definitions
/// meet output types there (VariablesAreInputTypes is the one that reports them; the others must cope)
pub fn variable_default_cases(si: &SchemaInfo) -> Vec<String> {
    use graphql_tools::static_graphql::schema::TypeDefinition as TD;
    let mut picked: Vec<String> = vec!["ZzUnknownType".to_string()];
    let mut seen_kind = [false; 7];
    for t in si.types() {
        let (k, n) = match t {
            TD::Object(o) => (0, o.name.clone()),
            TD::Interface(o) => (1, o.name.clone()),
            TD::Union(o) => (2, o.name.clone()),
            TD::Enum(o) => (3, o.name.clone()),
            TD::Scalar(o) => (if ["Int", "Float", "String", "Boolean", "ID"].contains(&o.name.as_str()) { 5 } else { 4 }, o.name.clone()),
            TD::InputObject(o) => (6, o.name.clone()),
        };
        if !seen_kind[k] {
            seen_kind[k] = true;
            picked.push(n);
        }
    }
    let lits = ["1", "1.5", "\"s\"", "true", "null", "ZZENUM", "[1]", "[]", "{a: 1}", "{}", "[[\"x\"]]", "[{a: [null]}]"];
    let mut out = vec![];
    for t in &picked {
        for wrap in ["{}", "[{}!]", "{}!"] {
            let ty = wrap.replace("{}", t);
            for l in lits {
                out.push(format!("query Q($v: {} = {}) {{ __typename }}", ty, l));
            }
            out.push(format!("query Q($v: {}) {{ __typename }}", ty));
        }
    }
    out
}

/// C09: arguments of DIRECTIVES of every declaration kind (executable-only, type-system-only,
/// mixed, with declared arguments, undeclared) at every kind of site, with an unknown argument,
/// a duplicated argument, a declared argument, or none: the only possible violation sits on the directive
pub fn directive_argument_cases() -> Vec<GDoc> {
    let leaf = || GSel::Field { alias: None, name: "id".into(), args: vec![], dirs: vec![], sels: vec![] };
    let mut out = vec![];
    for dname in ["typeOnly", "mixA", "mixB", "onF", "any", "args", "zzUnknown", "skip"] {
        for variant in 0..5usize {
            let args: Vec<(String, GValue)> = match variant {
                0 => vec![("zz".to_string(), GValue::Int(1))],
                1 => vec![("zz".to_string(), GValue::Int(1)), ("zz".to_string(), GValue::Int(2))],
                2 => vec![("int0".to_string(), GValue::Int(1))],
                3 => vec![("int0".to_string(), GValue::Int(1)), ("zz".to_string(), GValue::Int(1)), ("int0".to_string(), GValue::Int(1))],
                _ => vec![],
            };
            for site in 0..5usize {
                let d = vec![GDir { name: dname.to_string(), args: args.clone() }];
                let none: Vec<GDir> = vec![];
                let pick = |s: usize| if s == site { d.clone() } else { none.clone() };
                let inner = vec![
                    GSel::Field { alias: None, name: "id".into(), args: vec![], dirs: pick(0), sels: vec![] },
                    GSel::Inline { tc: Some("A".into()), dirs: pick(1), sels: vec![GSel::Field { alias: Some("x".into()), name: "arg1".into(), args: vec![("x".to_string(), GValue::Int(1))], dirs: vec![], sels: vec![leaf()] }] },
                    GSel::Spread { name: "Fd".into(), dirs: pick(2) },
                ];
                out.push(GDoc(vec![
                    GDef::Op { kind: OpKind::Query, name: Some("Q".into()), vars: vec![], dirs: pick(3), sels: vec![GSel::Field { alias: None, name: "a".into(), args: vec![], dirs: vec![], sels: inner }] },
                    GDef::Frag { name: "Fd".into(), tc: "A".into(), dirs: pick(4), sels: vec![leaf()] },
                ]));
            }
        }
    }
    out
}

/// C05: same response key, same field, SEVERAL arguments: the same set in another order (mergeable),
/// values swapped between the arguments, one argument missing / extra, one value different — the
/// second field direct, in a fragment, or under a mutually exclusive parent (never a conflict there)
pub fn merge_argument_order_cases() -> Vec<GDoc> {
    let i = |n: i64| GValue::Int(n);
    let a = |kv: Vec<(&str, GValue)>| -> Vec<(String, GValue)> { kv.into_iter().map(|(k, v)| (k.to_string(), v)).collect() };
    let base = a(vec![("y", i(1)), ("z", i(2)), ("ln", GValue::List(vec![i(3)]))]);
    let variants: Vec<Vec<(String, GValue)>> = vec![
        a(vec![("y", i(1)), ("z", i(2)), ("ln", GValue::List(vec![i(3)]))]),
        a(vec![("z", i(2)), ("y", i(1)), ("ln", GValue::List(vec![i(3)]))]),
        a(vec![("ln", GValue::List(vec![i(3)])), ("z", i(2)), ("y", i(1))]),
        a(vec![("y", i(2)), ("z", i(1)), ("ln", GValue::List(vec![i(3)]))]),
        a(vec![("z", i(1)), ("y", i(2)), ("ln", GValue::List(vec![i(3)]))]),
        a(vec![("y", i(1)), ("ln", GValue::List(vec![i(3)]))]),
        a(vec![("ln", GValue::List(vec![i(3)])), ("y", i(1))]),
        a(vec![("y", i(1)), ("z", i(2)), ("ln", GValue::List(vec![i(3)])), ("d", i(1))]),
        a(vec![("d", i(1)), ("ln", GValue::List(vec![i(3)])), ("z", i(2)), ("y", i(1))]),
        a(vec![("y", i(1)), ("z", GValue::Var("v".into())), ("ln", GValue::List(vec![i(3)]))]),
        a(vec![("z", GValue::Var("v".into())), ("ln", GValue::List(vec![i(3)])), ("y", i(1))]),
        a(vec![("y", i(1)), ("z", i(2)), ("ln", GValue::List(vec![i(3), i(3)]))]),
    ];
    let leaf = || GSel::Field { alias: None, name: "id".into(), args: vec![], dirs: vec![], sels: vec![] };
    let fld = |args: Vec<(String, GValue)>| GSel::Field { alias: Some("k".into()), name: "arg2".into(), args, dirs: vec![], sels: vec![leaf()] };
    let lf = |args: Vec<(String, GValue)>| GSel::Field { alias: Some("k".into()), name: "leafArg".into(), args, dirs: vec![], sels: vec![] };
    let mut out = vec![];
    let vars = vec![GVar { name: "v".into(), ty: GType::Named("Int".into()), default: None }];
    let mut all: Vec<(Vec<(String, GValue)>, Vec<(String, GValue)>)> = vec![];
    for v in &variants {
        all.push((base.clone(), v.clone()));
        all.push((v.clone(), variants[1].clone()));
    }
    for (x, y) in all {
        for place in 0..4usize {
            let mut defs = vec![];
            let sels = match place {
                0 => vec![GSel::Field { alias: None, name: "a".into(), args: vec![], dirs: vec![], sels: vec![fld(x.clone()), fld(y.clone())] }],
                1 => {
                    defs.push(GDef::Frag { name: "F".into(), tc: "A".into(), dirs: vec![], sels: vec![fld(y.clone())] });
                    vec![GSel::Field { alias: None, name: "a".into(), args: vec![], dirs: vec![], sels: vec![fld(x.clone()), GSel::Spread { name: "F".into(), dirs: vec![] }] }]
                }
                2 => vec![GSel::Field { alias: None, name: "node".into(), args: vec![], dirs: vec![], sels: vec![
                    GSel::Inline { tc: Some("A".into()), dirs: vec![], sels: vec![fld(x.clone())] },
                    GSel::Inline { tc: Some("A".into()), dirs: vec![], sels: vec![GSel::Inline { tc: None, dirs: vec![], sels: vec![fld(y.clone())] }] }] }],
                _ => vec![GSel::Field { alias: None, name: "node".into(), args: vec![], dirs: vec![], sels: vec![
                    GSel::Inline { tc: Some("A".into()), dirs: vec![], sels: vec![fld(x.clone())] },
                    GSel::Inline { tc: Some("B".into()), dirs: vec![], sels: vec![GSel::Field { alias: Some("k".into()), name: "arg2".into(), args: vec![("q".to_string(), i(1))], dirs: vec![], sels: vec![leaf()] }] }] }],
            };
            defs.insert(0, GDef::Op { kind: OpKind::Query, name: Some("Q".into()), vars: vars.clone(), dirs: vec![], sels });
            out.push(GDoc(defs));
        }
    }
    // two-argument leaf field: both orders, swapped values
    for (x, y) in [
        (a(vec![("x", i(1)), ("y", i(2))]), a(vec![("y", i(2)), ("x", i(1))])),
        (a(vec![("x", i(1)), ("y", i(2))]), a(vec![("x", i(2)), ("y", i(1))])),
        (a(vec![("x", i(1)), ("y", i(2))]), a(vec![("y", i(1)), ("x", i(2))])),
        (a(vec![("y", i(2)), ("x", i(1))]), a(vec![("x", i(1)), ("y", i(2))])),
    ] {
        out.push(GDoc(vec![GDef::Op { kind: OpKind::Query, name: Some("Q".into()), vars: vars.clone(), dirs: vec![], sels: vec![GSel::Field { alias: None, name: "a".into(), args: vec![], dirs: vec![], sels: vec![lf(x.clone()), lf(y.clone())] }] }]));
    }
    out
}

/// C01 / C07, valid by construction: 2..3 operations over a DAG of 2..5 fragments on Query; every
/// fragment uses at most one variable (own aliased field) and spreads later fragments (diamonds,
/// shared sub-fragments); every operation declares exactly the variables its spreads reach and
/// every fragment is reached by some operation.  Whatever a variable rule remembers from one
/// operation (or one path) must not leak into the next.
pub fn valid_variable_dag_cases(rng: &mut Rng, n: usize) -> Vec<GDoc> {
    let mut out = vec![];
    for _ in 0..n {
        let k = rng.range(2, 5);
        let nv = rng.range(1, 3);
        let mut edges: Vec<Vec<usize>> = vec![vec![]; k];
        let mut uses: Vec<Option<usize>> = vec![None; k];
        for f in 0..k {
            for g in (f + 1)..k {
                if rng.pct(55) {
                    edges[f].push(g);
                }
            }
            if rng.pct(65) || edges[f].is_empty() {
                uses[f] = Some(rng.below(nv));
            }
        }
        // closure of variables reached from a fragment
        let mut reach_vars: Vec<Vec<bool>> = vec![vec![false; nv]; k];
        let mut reach_frags: Vec<Vec<bool>> = vec![vec![false; k]; k];
        for f in (0..k).rev() {
            reach_frags[f][f] = true;
            if let Some(v) = uses[f] {
                reach_vars[f][v] = true;
            }
            for &g in &edges[f].clone() {
                for v in 0..nv {
                    if reach_vars[g][v] {
                        reach_vars[f][v] = true;
                    }
                }
                for h in 0..k {
                    if reach_frags[g][h] {
                        reach_frags[f][h] = true;
                    }
                }
            }
        }
        let nops = rng.range(2, 3);
        let mut op_roots: Vec<Vec<usize>> = (0..nops).map(|_| { let m = rng.range(1, 3); (0..m).map(|_| rng.below(k)).collect() }).collect();
        // every fragment must be reached by some operation
        for f in 0..k {
            if !op_roots.iter().any(|rs| rs.iter().any(|&r| reach_frags[r][f])) {
                let o = rng.below(nops);
                op_roots[o].push(f);
            }
        }
        let mut defs = vec![];
        let mut op_defs = vec![];
        for (o, roots) in op_roots.iter().enumerate() {
            let mut dedup: Vec<usize> = vec![];
            for r in roots {
                if !dedup.contains(r) {
                    dedup.push(*r);
                }
            }
            let mut vars = vec![];
            for v in 0..nv {
                if dedup.iter().any(|&r| reach_vars[r][v]) {
                    vars.push(GVar { name: format!("v{}", v), ty: GType::Named("Int".into()), default: None });
                }
            }
            let mut sels: Vec<GSel> = dedup.iter().map(|r| GSel::Spread { name: format!("F{}", r), dirs: vec![] }).collect();
            if rng.pct(40) {
                sels.insert(rng.below(sels.len() + 1), GSel::Field { alias: Some(format!("own{}", o)), name: "f_Int_0".into(), args: vec![], dirs: vec![], sels: vec![] });
            }
            op_defs.push(GDef::Op { kind: OpKind::Query, name: Some(format!("Op{}", o)), vars, dirs: vec![], sels });
        }
        let mut frag_defs = vec![];
        for f in 0..k {
            let mut sels: Vec<GSel> = vec![];
            if let Some(v) = uses[f] {
                sels.push(GSel::Field { alias: Some(format!("x{}", f)), name: "f_Int_0".into(), args: vec![("a".to_string(), GValue::Var(format!("v{}", v)))], dirs: vec![], sels: vec![] });
            }
            for &g in &edges[f] {
                let sp = GSel::Spread { name: format!("F{}", g), dirs: vec![] };
                sels.push(if rng.pct(20) { GSel::Inline { tc: None, dirs: vec![], sels: vec![sp] } } else { sp });
            }
            if sels.is_empty() {
                sels.push(GSel::Field { alias: None, name: "__typename".into(), args: vec![], dirs: vec![], sels: vec![] });
            }
            // order of usage and spreads varies
            if rng.pct(50) {
                sels.reverse();
            }
            frag_defs.push(GDef::Frag { name: format!("F{}", f), tc: "Query".into(), dirs: vec![], sels });
        }
        // definitions in a random interleaving
        let mut all: Vec<GDef> = op_defs;
        all.extend(frag_defs);
        for a in (1..all.len()).rev() {
            if rng.pct(50) {
                let b = rng.below(a + 1);
                all.swap(a, b);
            }
        }
        defs.extend(all);
        out.push(GDoc(defs));
    }
    out
}

/// C06 (and C02 through the default plan): a fragment whose type condition is a type of EVERY kind
/// (object, interface, union, enum, scalar, input object, unknown), inline and as a definition,
/// with a body that no other rule can object to (`__typename`)
pub fn fragment_condition_cases(si: &SchemaInfo) -> Vec<String> {
    let mut names: Vec<String> = si.types().iter().map(|t| crate::gen::tname(t).to_string()).collect();
    names.push("ZzUnknownType".to_string());
    let mut out = vec![];
    for t in &names {
        out.push(format!("{{ __typename ... on {} {{ __typename }} }}", t));
        out.push(format!("{{ x: __typename ... on {} {{ ... {{ y: __typename }} }} }}", t));
        out.push(format!("{{ __typename ...F }} fragment F on {} {{ __typename }}", t));
        out.push(format!("{{ ... {{ ... on {} @skip(if: true) {{ __typename }} }} }}", t));
    }
    out
}

/// C05 / C01: same-keyed fields under provably disjoint parents (A / B) that differ in field name or
/// arguments (allowed), one or both standing inside an inline fragment WITHOUT type condition
/// (bare or with a directive), directly or through a named fragment; and the same under one parent
/// (A / A: a conflict).  An untyped inline fragment changes nothing about the enclosing type.
pub fn merge_untyped_wrapper_cases() -> Vec<GDoc> {
    let leaf = |alias: &str, name: &str, args: Vec<(String, GValue)>| GSel::Field { alias: Some(alias.into()), name: name.into(), args, dirs: vec![], sels: vec![] };
    let untyped = |sels: Vec<GSel>, with_dir: bool| GSel::Inline { tc: None, dirs: if with_dir { vec![GDir { name: "skip".into(), args: vec![("if".to_string(), GValue::Bool(false))] }] } else { vec![] }, sels };
    let pairs: Vec<(GSel, GSel)> = vec![
        (leaf("n", "name", vec![]), leaf("n", "nick", vec![])),
        (leaf("n", "leafArg", vec![("x".to_string(), GValue::Int(1)), ("y".to_string(), GValue::Int(2))]), leaf("n", "leafArg", vec![("q".to_string(), GValue::Int(1))])),
        (leaf("n", "name", vec![]), leaf("n", "name", vec![])),
        (leaf("n", "name", vec![]), leaf("n", "id", vec![])),
    ];
    let mut out = vec![];
    for (x, y) in &pairs {
        for wrap in 0..6usize {
            for parents in 0..2usize {
                let mut defs: Vec<GDef> = vec![];
                let c2 = if parents == 0 { "B" } else { "A" };
                // the B side cannot select A-only fields: on B use name / nick / leafArg(q:) / id, all defined on B
                let (first, second): (Vec<GSel>, Vec<GSel>) = match wrap {
                    0 => (vec![untyped(vec![x.clone()], false)], vec![y.clone()]),
                    1 => (vec![x.clone()], vec![untyped(vec![y.clone()], true)]),
                    2 => (vec![untyped(vec![x.clone()], true)], vec![untyped(vec![untyped(vec![y.clone()], false)], false)]),
                    3 => {
                        defs.push(GDef::Frag { name: "W".into(), tc: "A".into(), dirs: vec![], sels: vec![untyped(vec![x.clone()], false)] });
                        (vec![GSel::Spread { name: "W".into(), dirs: vec![] }], vec![y.clone()])
                    }
                    4 => {
                        defs.push(GDef::Frag { name: "W".into(), tc: c2.into(), dirs: vec![], sels: vec![untyped(vec![y.clone()], true)] });
                        (vec![x.clone()], vec![untyped(vec![GSel::Spread { name: "W".into(), dirs: vec![] }], false)])
                    }
                    _ => (vec![x.clone()], vec![y.clone()]),
                };
                // with parents A / A the second field must exist on A as written; leafArg(q:) does not: skip
                if parents == 1 && matches!(y, GSel::Field { args, .. } if args.iter().any(|(k, _)| k == "q")) {
                    continue;
                }
                let root = GSel::Field { alias: None, name: "node".into(), args: vec![], dirs: vec![], sels: vec![
                    GSel::Inline { tc: Some("A".into()), dirs: vec![], sels: first },
                    GSel::Inline { tc: Some(c2.into()), dirs: vec![], sels: second },
                ] };
                defs.insert(0, GDef::Op { kind: OpKind::SelSet, name: None, vars: vec![], dirs: vec![], sels: vec![root] });
                out.push(GDoc(defs));
            }
        }
    }
    out
}

/// C11 / C02 on the `lonely` schema: a subscription whose extra root field sits two fragment levels
/// down (outer condition: an interface of the root, the union containing it, or the root; inner
/// condition: the root or another interface), inline and through named fragments, every field
/// defined where it is selected — only SingleFieldSubscriptions can object (or nothing, when both
/// levels select the same key)
pub fn subscription_nested_clean_cases() -> Vec<GDoc> {
    let f = |n: &str| GSel::Field { alias: None, name: n.into(), args: vec![], dirs: vec![], sels: vec![] };
    let own = |tc: &str| -> Option<&'static str> { match tc { "Ev" => None, "Node" | "Pet" => Some("id"), _ => Some("name") } };
    let mut out = vec![];
    for outer in ["Named", "Node", "Pet", "Ev", "Subscription"] {
        for inner in ["Subscription", "Named", "Node"] {
            for same_key in [false, true] {
                for form in 0..3usize {
                    let inner_field = if same_key { own(outer).unwrap_or("id") } else if inner == "Subscription" { "other" } else if own(outer) == Some("id") { if inner == "Node" { continue } else { "name" } } else { "id" };
                    // the inner field must be defined on the inner type
                    let defined = match inner { "Subscription" => ["id", "name", "other"].contains(&inner_field), "Named" => ["id", "name"].contains(&inner_field), _ => inner_field == "id" };
                    if !defined {
                        continue;
                    }
                    let mut inner_sels = vec![f(inner_field)];
                    if outer == "Ev" && !same_key {
                        inner_sels.insert(0, f("id"));
                    }
                    let mut outer_sels: Vec<GSel> = vec![];
                    if let Some(o) = own(outer) {
                        outer_sels.push(f(o));
                    }
                    let mut defs = vec![];
                    match form {
                        0 => {
                            outer_sels.push(GSel::Inline { tc: Some(inner.into()), dirs: vec![], sels: inner_sels });
                            defs.push(GDef::Op { kind: OpKind::Subscription, name: Some("S".into()), vars: vec![], dirs: vec![], sels: vec![GSel::Inline { tc: Some(outer.into()), dirs: vec![], sels: outer_sels }] });
                        }
                        1 => {
                            outer_sels.push(GSel::Inline { tc: Some(inner.into()), dirs: vec![], sels: inner_sels });
                            defs.push(GDef::Op { kind: OpKind::Subscription, name: None, vars: vec![], dirs: vec![], sels: vec![GSel::Spread { name: "Outer".into(), dirs: vec![] }] });
                            defs.push(GDef::Frag { name: "Outer".into(), tc: outer.into(), dirs: vec![], sels: outer_sels });
                        }
                        _ => {
                            outer_sels.push(GSel::Spread { name: "Inner".into(), dirs: vec![] });
                            defs.push(GDef::Op { kind: OpKind::Subscription, name: Some("S".into()), vars: vec![], dirs: vec![], sels: vec![GSel::Inline { tc: Some(outer.into()), dirs: vec![], sels: outer_sels }] });
                            defs.push(GDef::Frag { name: "Inner".into(), tc: inner.into(), dirs: vec![], sels: inner_sels });
                        }
                    }
                    out.push(GDoc(defs));
                }
            }
        }
    }
    out
}

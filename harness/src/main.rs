//! gth — the correspondence harness: generates inputs, runs the implementation (the current
//! working tree of /repo), writes the inputs for the Coq model and the implementation's
//! canonical results.
mod gast;
mod gen;
mod jobs;
mod op_trace;
mod op_validate;
mod render;
mod rng;
mod schemas;
mod sx;

use std::io::Write;
use std::panic::{catch_unwind, AssertUnwindSafe};

pub struct Case {
    pub id: String,
    pub family: String,
    pub schema: usize,
    pub op: String,
    pub doc: Option<String>,
    /// further, already serialised, arguments of the model call
    pub extra: Vec<String>,
    /// free-form information for the replay file / statistics
    pub note: String,
}

fn json_str(s: &str) -> String {
    serde_json::to_string(s).unwrap()
}

fn main() {
    let args: Vec<String> = std::env::args().collect();
    if args.len() < 2 {
        eprintln!("usage: gth emit --prop Cxx --tier quick|thorough --seed N --shard k/K --out DIR");
        std::process::exit(2);
    }
    if args[1] == "dump-schemas" {
        for si in jobs::schema_pool() {
            println!("{}\t{}", si.name, sx::schema(&si.doc));
        }
        return;
    }
    let mut prop = "C15".to_string();
    let mut tier = "quick".to_string();
    let mut seed: u64 = 1;
    let mut shard = (0usize, 1usize);
    let mut out = "out".to_string();
    let mut replay: Option<String> = None;
    let mut i = 2;
    while i < args.len() {
        match args[i].as_str() {
            "--prop" => {
                prop = args[i + 1].clone();
                i += 2
            }
            "--tier" => {
                tier = args[i + 1].clone();
                i += 2
            }
            "--seed" => {
                seed = args[i + 1].parse().unwrap();
                i += 2
            }
            "--shard" => {
                let p: Vec<&str> = args[i + 1].split('/').collect();
                shard = (p[0].parse().unwrap(), p[1].parse().unwrap());
                i += 2
            }
            "--out" => {
                out = args[i + 1].clone();
                i += 2
            }
            "--replay" => {
                replay = Some(args[i + 1].clone());
                i += 2
            }
            _ => {
                eprintln!("unknown argument {}", args[i]);
                std::process::exit(2);
            }
        }
    }
    std::panic::set_hook(Box::new(|_| {}));
    // run on a thread with a large stack so that deep (but legitimate) recursion is not
    // mistaken for a defect; stack-sensitive properties (C03) use their own child processes
    let child = std::thread::Builder::new()
        .stack_size(512 * 1024 * 1024)
        .spawn(move || emit(&prop, &tier, seed, shard, &out, replay))
        .unwrap();
    child.join().unwrap();
}

fn emit(prop: &str, tier: &str, seed: u64, shard: (usize, usize), out: &str, replay: Option<String>) {
    std::fs::create_dir_all(out).unwrap();
    let (schemas, cases) = match replay {
        Some(path) => jobs::replay_cases(&path),
        None => jobs::cases_for(prop, tier, seed, shard),
    };
    let mut f_cases = std::io::BufWriter::new(std::fs::File::create(format!("{}/cases.sexp", out)).unwrap());
    let mut f_impl = std::io::BufWriter::new(std::fs::File::create(format!("{}/impl.out", out)).unwrap());
    let mut f_meta = std::io::BufWriter::new(std::fs::File::create(format!("{}/meta.jsonl", out)).unwrap());
    {
        let mut m = serde_json::Map::new();
        for si in &schemas {
            m.insert(si.name.clone(), serde_json::Value::String(si.sdl.clone()));
        }
        std::fs::write(format!("{}/schemas.json", out), serde_json::Value::Object(m).to_string()).unwrap();
    }
    let mut cur_schema: Option<usize> = None;
    let mut unparsable = 0usize;
    for c in &cases {
        let si = &schemas[c.schema];
        let doc_ast = match &c.doc {
            Some(text) => match graphql_tools::parser::parse_query::<String>(text) {
                Ok(d) => Some(d.into_static()),
                Err(_) => {
                    unparsable += 1;
                    continue;
                }
            },
            None => None,
        };
        if cur_schema != Some(c.schema) {
            writeln!(f_cases, "(S {})", sx::schema(&si.doc)).unwrap();
            cur_schema = Some(c.schema);
        }
        let mut line = format!("(C {} {}", c.id, c.op);
        if let Some(d) = &doc_ast {
            line.push(' ');
            line.push_str(&sx::document(d));
        }
        for e in &c.extra {
            line.push(' ');
            line.push_str(e);
        }
        line.push(')');
        writeln!(f_cases, "{}", line).unwrap();

        let res = catch_unwind(AssertUnwindSafe(|| jobs::run_impl(c, si, doc_ast.as_ref())));
        let lines = match res {
            Ok(l) => l,
            Err(_) => vec!["PANIC".to_string()],
        };
        writeln!(f_impl, "#CASE {}", c.id).unwrap();
        for l in &lines {
            writeln!(f_impl, "{}", l).unwrap();
        }
        writeln!(f_impl, "#END").unwrap();
        writeln!(
            f_meta,
            "{{\"id\":{},\"family\":{},\"schema\":{},\"op\":{},\"doc\":{},\"extra\":{},\"note\":{}}}",
            json_str(&c.id),
            json_str(&c.family),
            json_str(&si.name),
            json_str(&c.op),
            json_str(c.doc.as_deref().unwrap_or("")),
            serde_json::to_string(&c.extra).unwrap(),
            json_str(&c.note)
        )
        .unwrap();
    }
    writeln!(f_meta, "{{\"unparsable\":{}}}", unparsable).unwrap();
}

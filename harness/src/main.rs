//! gth — the correspondence harness: generates inputs, runs the implementation (the current
//! working tree of /repo), writes the inputs for the Coq model and the implementation's
//! canonical results.
mod families;
mod gast;
mod gen;
mod genvalid;
mod jobs;
mod op_misc;
mod op_introspect;
mod op_trace;
mod op_transform;
mod op_validate;
mod render;
mod rewrite;
mod rng;
mod schemas;
mod shrink;
mod sx;

use std::io::Write;
use std::panic::{catch_unwind, AssertUnwindSafe};

pub struct Case {
    pub id: String,
    pub family: String,
    pub schema: usize,
    pub op: String,
    pub doc: Option<String>,
    /// further, already serialised, arguments of the model call
    pub extra: Vec<String>,
    /// free-form information for the replay file / statistics
    pub note: String,
}


fn json_str(s: &str) -> String {
    serde_json::to_string(s).unwrap()
}

fn main() {
    let args: Vec<String> = std::env::args().collect();
    if args.len() < 2 {
        eprintln!("usage: gth emit --prop Cxx --tier quick|thorough --seed N --shard k/K --out DIR");
        std::process::exit(2);
    }
    if args[1] == "dump-schemas" {
        for si in jobs::schema_pool() {
            println!("{}\t{}", si.name, sx::schema(&si.doc));
        }
        return;
    }
    if args[1] == "shrink1" {
        // gth shrink1 <replay.json> <driver> <RuleCode> <out.json>: shrink while the implementation's
        // verdict for that rule differs from the oracle's
        std::env::set_var("GTH_SHRINK_RULE", &args[4]);
        shrink_cmd(&args[2], &args[3], "rule", &args[5]);
        return;
    }
    if args[1] == "shrink" {
        // gth shrink <replay.json> <driver> <mode: model|spec> <out.json>
        shrink_cmd(&args[2], &args[3], &args[4], &args[5]);
        return;
    }
    let mut prop = "C15".to_string();
    let mut tier = "quick".to_string();
    let mut seed: u64 = 1;
    let mut shard = (0usize, 1usize);
    let mut out = "out".to_string();
    let mut replay: Option<String> = None;
    let mut isolate = false;
    let mut from: usize = 0;
    let mut append = false;
    let mut stack_mb: usize = 512;
    let mut i = 2;
    while i < args.len() {
        match args[i].as_str() {
            "--prop" => {
                prop = args[i + 1].clone();
                i += 2
            }
            "--tier" => {
                tier = args[i + 1].clone();
                i += 2
            }
            "--seed" => {
                seed = args[i + 1].parse().unwrap();
                i += 2
            }
            "--shard" => {
                let p: Vec<&str> = args[i + 1].split('/').collect();
                shard = (p[0].parse().unwrap(), p[1].parse().unwrap());
                i += 2
            }
            "--out" => {
                out = args[i + 1].clone();
                i += 2
            }
            "--replay" => {
                replay = Some(args[i + 1].clone());
                i += 2
            }
            "--isolate" => {
                isolate = true;
                i += 1
            }
            "--from" => {
                from = args[i + 1].parse().unwrap();
                append = true;
                i += 2
            }
            "--stack-mb" => {
                stack_mb = args[i + 1].parse().unwrap();
                i += 2
            }
            _ => {
                eprintln!("unknown argument {}", args[i]);
                std::process::exit(2);
            }
        }
    }
    std::panic::set_hook(Box::new(|_| {}));
    // run on a thread with a large stack so that deep (but legitimate) recursion is not
    // mistaken for a defect; stack-sensitive properties (C03) use their own child processes
    if isolate {
        isolate_parent(&args, &out);
        return;
    }
    let child = std::thread::Builder::new()
        .stack_size(stack_mb * 1024 * 1024)
        .spawn(move || emit(&prop, &tier, seed, shard, &out, replay, from, append))
        .unwrap();
    child.join().unwrap();
}

/// Run the emission in child processes with a small fixed stack and a per-case deadline: a
/// stack overflow or a hang kills only the child; the parent records OVERFLOW / TIMEOUT for the
/// case that was running and restarts after it.
fn isolate_parent(args: &[String], out: &str) {
    std::fs::create_dir_all(out).unwrap();
    let exe = std::env::current_exe().unwrap();
    let mut from = 0usize;
    let mut guard = 0;
    // deadline scale: a case that misses its deadline is run once more with a 15 times longer one
    // before TIMEOUT is recorded (a stalled machine must not look like a hanging implementation)
    let mut scale = 1u64;
    loop {
        guard += 1;
        if guard > 4000 {
            break;
        }
        let mut cmd = std::process::Command::new(&exe);
        for a in &args[1..] {
            if a != "--isolate" {
                cmd.arg(a);
            }
        }
        cmd.arg("--from").arg(from.to_string()).arg("--stack-mb").arg("8");
        cmd.env("GTH_DEADLINE_SCALE", scale.to_string());
        let status = cmd.status().expect("spawn worker");
        if status.success() {
            break;
        }
        // which case was running?
        let marker = std::fs::read_to_string(format!("{}/current.txt", out)).unwrap_or_default();
        let mut it = marker.split_whitespace();
        let idx: usize = it.next().and_then(|x| x.parse().ok()).unwrap_or(from);
        let id = it.next().unwrap_or("?").to_string();
        if status.code() == Some(3) && scale == 1 {
            scale = 15;
            from = idx;
            continue;
        }
        scale = 1;
        let why = if status.code() == Some(3) { "TIMEOUT" } else { "OVERFLOW" };
        use std::io::Write;
        let mut f = std::fs::OpenOptions::new().append(true).create(true).open(format!("{}/impl.out", out)).unwrap();
        writeln!(f, "#CASE {}\n{}\n#END", id, why).unwrap();
        from = idx + 1;
    }
}

fn emit(prop: &str, tier: &str, seed: u64, shard: (usize, usize), out: &str, replay: Option<String>, from: usize, append: bool) {
    std::fs::create_dir_all(out).unwrap();
    let (schemas, cases) = match replay {
        Some(path) => jobs::replay_cases(&path),
        None => jobs::cases_for(prop, tier, seed, shard),
    };
    let open = |name: &str| {
        let p = format!("{}/{}", out, name);
        if append && from > 0 {
            std::fs::OpenOptions::new().append(true).create(true).open(p).unwrap()
        } else {
            std::fs::File::create(p).unwrap()
        }
    };
    let mut f_cases = std::io::BufWriter::new(open("cases.sexp"));
    let mut f_impl = std::io::BufWriter::new(open("impl.out"));
    let mut f_meta = std::io::BufWriter::new(open("meta.jsonl"));
    // watchdog for isolated runs: a case that runs longer than its deadline ends the process
    let deadline = std::sync::Arc::new(std::sync::atomic::AtomicU64::new(0));
    if append {
        let dl = deadline.clone();
        std::thread::spawn(move || loop {
            std::thread::sleep(std::time::Duration::from_millis(50));
            let d = dl.load(std::sync::atomic::Ordering::SeqCst);
            if d != 0 {
                let now = std::time::SystemTime::now().duration_since(std::time::UNIX_EPOCH).unwrap().as_millis() as u64;
                if now > d {
                    std::process::exit(3);
                }
            }
        });
    }
    {
        let mut m = serde_json::Map::new();
        for si in &schemas {
            m.insert(si.name.clone(), serde_json::Value::String(si.sdl.clone()));
        }
        std::fs::write(format!("{}/schemas.json", out), serde_json::Value::Object(m).to_string()).unwrap();
    }
    let mut cur_schema: Option<usize> = None;
    let mut unparsable = 0usize;
    for (case_index, c) in cases.iter().enumerate() {
        if case_index < from {
            if cur_schema != Some(c.schema) {
                cur_schema = Some(c.schema);
            }
            continue;
        }
        let si = &schemas[c.schema];
        let doc_ast = match &c.doc {
            Some(_) if c.op == "introspect" => None, // the "document" of these cases is JSON text
            Some(text) => match graphql_tools::parser::parse_query::<String>(text) {
                Ok(d) => Some(d.into_static()),
                Err(_) => {
                    unparsable += 1;
                    continue;
                }
            },
            None => None,
        };
        if cur_schema != Some(c.schema) {
            writeln!(f_cases, "(S {})", sx::schema(&si.doc)).unwrap();
            cur_schema = Some(c.schema);
        }
        let mut line = format!("(C {} {}", c.id, c.op);
        if let Some(d) = &doc_ast {
            line.push(' ');
            line.push_str(&sx::document(d));
        }
        for e in &c.extra {
            line.push(' ');
            if let Some(h) = e.strip_prefix("(altdoc ") {
                // a second document given as hex text: hand its parsed AST to the model
                let text = jobs::unhex(h.trim_end_matches(')'));
                match graphql_tools::parser::parse_query::<String>(&text) {
                    Ok(d2) => line.push_str(&format!("(alt {})", sx::document(&d2.into_static()))),
                    Err(_) => line.push_str("(alt (doc))"),
                }
            } else if let Some(h) = e.strip_prefix("(altschema ") {
                let text = jobs::unhex(h.trim_end_matches(')'));
                match graphql_tools::parser::parse_schema::<String>(&text) {
                    Ok(s2) => line.push_str(&format!("(alts {})", sx::schema(&s2.into_static()))),
                    Err(_) => line.push_str("(alts (sdoc))"),
                }
            } else {
                line.push_str(e);
            }
        }
        line.push(')');
        writeln!(f_cases, "{}", line).unwrap();

        writeln!(
            f_meta,
            "{{\"id\":{},\"family\":{},\"schema\":{},\"op\":{},\"doc\":{},\"extra\":{},\"note\":{}}}",
            json_str(&c.id),
            json_str(&c.family),
            json_str(&si.name),
            json_str(&c.op),
            json_str(c.doc.as_deref().unwrap_or("")),
            serde_json::to_string(&c.extra).unwrap(),
            json_str(&c.note)
        )
        .unwrap();
        if append {
            use std::io::Write as _;
            f_cases.flush().unwrap();
            f_impl.flush().unwrap();
            f_meta.flush().unwrap();
            std::fs::write(format!("{}/current.txt", out), format!("{} {}", case_index, c.id)).unwrap();
            let size = c.doc.as_ref().map(|d| d.len()).unwrap_or(0) as u64;
            let now = std::time::SystemTime::now().duration_since(std::time::UNIX_EPOCH).unwrap().as_millis() as u64;
            // generous budget: 2 s + 5 ms per character of the document
            let scale: u64 = std::env::var("GTH_DEADLINE_SCALE").ok().and_then(|x| x.parse().ok()).unwrap_or(1);
            deadline.store(now + scale * (2000 + 5 * size), std::sync::atomic::Ordering::SeqCst);
        }
        let res = catch_unwind(AssertUnwindSafe(|| jobs::run_impl(c, si, doc_ast.as_ref())));
        deadline.store(0, std::sync::atomic::Ordering::SeqCst);
        let lines = match res {
            Ok(l) => l,
            Err(_) => vec!["PANIC".to_string()],
        };
        writeln!(f_impl, "#CASE {}", c.id).unwrap();
        for l in &lines {
            writeln!(f_impl, "{}", l).unwrap();
        }
        writeln!(f_impl, "#END").unwrap();
    }
    writeln!(f_meta, "{{\"unparsable\":{}}}", unparsable).unwrap();
}

fn parse_blocks(text: &str) -> Vec<String> {
    let mut out = vec![];
    let mut inside = false;
    for l in text.lines() {
        if l.starts_with("#CASE ") {
            inside = true;
        } else if l == "#END" {
            inside = false;
        } else if inside {
            out.push(l.to_string());
        }
    }
    out
}

fn canon(lines: &[String]) -> Vec<String> {
    let mut out = vec![];
    let mut buf: Option<Vec<String>> = None;
    for l in lines {
        if l == "#UNORDERED" {
            buf = Some(vec![]);
        } else if l == "#ORDERED" {
            if let Some(mut b) = buf.take() {
                b.sort();
                out.extend(b);
            }
        } else if let Some(b) = buf.as_mut() {
            b.push(l.clone());
        } else {
            out.push(l.clone());
        }
    }
    if let Some(mut b) = buf.take() {
        b.sort();
        out.extend(b);
    }
    out
}

/// does the implementation's output differ from the model's (mode "model") or the oracle's
/// (mode "spec") output on this document?
fn differs(si: &gen::SchemaInfo, doc_text: &str, op: &str, extra: &[String], driver: &str, mode: &str, tmp: &str) -> Option<(Vec<String>, Vec<String>)> {
    let doc = match graphql_tools::parser::parse_query::<String>(doc_text) {
        Ok(d) => d.into_static(),
        Err(_) => return None,
    };
    let c = Case { id: "x".into(), family: "shrink".into(), schema: 0, op: op.to_string(), doc: Some(doc_text.to_string()), extra: extra.to_vec(), note: String::new() };
    let impl_lines = match catch_unwind(AssertUnwindSafe(|| jobs::run_impl(&c, si, Some(&doc)))) {
        Ok(l) => l,
        Err(_) => vec!["PANIC".to_string()],
    };
    let mut line = format!("(C x {} {}", op, sx::document(&doc));
    for e in extra {
        line.push(' ');
        line.push_str(e);
    }
    line.push(')');
    let input = format!("(S {})\n{}\n", sx::schema(&si.doc), line);
    let inpath = format!("{}/shrink_case.sexp", tmp);
    std::fs::write(&inpath, input).unwrap();
    let outp = std::process::Command::new("sh")
        .arg("-c")
        .arg(format!("ulimit -s unlimited; {} < {}", driver, inpath))
        .output()
        .ok()?;
    let all = parse_blocks(&String::from_utf8_lossy(&outp.stdout));
    let (model, spec): (Vec<String>, Option<Vec<String>>) = match all.iter().position(|l| l == "#SPEC") {
        Some(i) => (all[..i].to_vec(), Some(all[i + 1..].to_vec())),
        None => (all, None),
    };
    if mode == "rule" {
        let rule = std::env::var("GTH_SHRINK_RULE").unwrap_or_default();
        let fired = impl_lines.iter().any(|l| l.starts_with(&format!("E {} ", rule)));
        let spec = spec?;
        let want = spec.iter().find(|l| l.starts_with(&format!("V {} ", rule)))?;
        let v = want.split_whitespace().nth(2)?;
        if v == "X" {
            return None;
        }
        return if fired != (v == "1") { Some((impl_lines.clone(), spec.clone())) } else { None };
    }
    let a = canon(&impl_lines);
    let b = if mode == "spec" {
        match spec {
            Some(s) => {
                if s.first().map(|l| l.starts_with("EXEMPT")).unwrap_or(false) {
                    return None;
                }
                canon(&s)
            }
            None => return None,
        }
    } else {
        canon(&model)
    };
    if a != b {
        Some((a, b))
    } else {
        None
    }
}

fn shrink_cmd(replay: &str, driver: &str, mode: &str, out: &str) {
    let text = std::fs::read_to_string(replay).expect("replay file");
    let v: serde_json::Value = serde_json::from_str(&text).expect("json");
    let sdl = v["schema_sdl"].as_str().unwrap_or("");
    let si = gen::SchemaInfo::new(v["schema"].as_str().unwrap_or("replay"), sdl);
    let op = v["op"].as_str().unwrap_or("validate").to_string();
    let extra: Vec<String> = v["extra"].as_array().map(|a| a.iter().map(|x| x.as_str().unwrap_or("").to_string()).collect()).unwrap_or_default();
    let doc_text = v["doc"].as_str().unwrap_or("").to_string();
    let tmp = std::path::Path::new(out).parent().map(|p| p.to_string_lossy().to_string()).unwrap_or_else(|| ".".into());
    std::panic::set_hook(Box::new(|_| {}));
    std::env::set_var("GTH_SHRINK_DRIVER", driver);
    std::env::set_var("GTH_SHRINK_MODE", mode);
    let handle = std::thread::Builder::new().stack_size(512 * 1024 * 1024).spawn(move || {
        let doc = graphql_tools::parser::parse_query::<String>(&doc_text).expect("doc parses").into_static();
        let g = shrink::from_document(&doc);
        if differs(&si, &g.print(), &op, &extra, &driver_s(), &mode_s(), &tmp).is_none() {
            // printing changed the behaviour (or nothing differs): keep the original
            return (doc_text.clone(), false, si, op, extra, tmp);
        }
        let small = shrink::shrink(&g, |t| differs(&si, t, &op, &extra, &driver_s(), &mode_s(), &tmp).is_some(), 20000);
        (small.print(), true, si, op, extra, tmp)
    });
    // (driver and mode are passed through environment to keep the closure 'static)
    let (small, ok, si, op, extra, tmp) = handle.unwrap().join().unwrap();
    let d = differs(&si, &small, &op, &extra, driver, mode, &tmp);
    let mut o = v.clone();
    o["doc"] = serde_json::Value::String(small);
    o["shrunk"] = serde_json::Value::Bool(ok);
    if let Some((a, b)) = d {
        o["implementation_output"] = serde_json::to_value(a).unwrap();
        o[if mode == "spec" { "oracle_output" } else { "model_output" }] = serde_json::to_value(b).unwrap();
    }
    std::fs::write(out, serde_json::to_string_pretty(&o).unwrap()).unwrap();
}
fn driver_s() -> String {
    std::env::var("GTH_SHRINK_DRIVER").unwrap_or_default()
}
fn mode_s() -> String {
    std::env::var("GTH_SHRINK_MODE").unwrap_or_default()
}

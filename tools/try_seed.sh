#!/bin/bash
# usage: tools/try_seed.sh <patch.diff> <prop> [<prop> ...]
# applies the patch to /repo, runs the quick checks of the given properties, undoes the patch.
set -u
patch=$(realpath "$1"); shift
cd /repo || exit 2
if ! git diff --quiet; then echo "/repo has uncommitted changes"; exit 2; fi
git apply "$patch" || { echo "patch does not apply"; exit 2; }
cd /verif
for p in "$@"; do
  out=$(timeout 1200 ./check "$p" 2>&1 | tail -3)
  echo "[$p] $out"
done
git -C /repo checkout -- .

#!/bin/bash
# usage: tools/regress_seeds.sh [seed]   — applies every seeded change to /repo in turn and runs the
# quick check of its target property; prints one line per change (CAUGHT / MISSED), reverts /repo.
# NEVER run while another check may be building from /repo.
set -u
seed=${1:-1}
cd /verif
for d in seeded/C*/; do
  id=$(basename $d); prop=${id%%-*}
  out=$(VERIF_SEED=$seed tools/try_seed.sh $d/patch.diff $prop 2>&1 | grep -E "VIOLATION|OK property|does not apply|uncommitted" | tail -1)
  case "$out" in
    *VIOLATION*) echo "CAUGHT $id $out";;
    *) echo "MISSED $id $out";;
  esac
done
git checkout -q evidence/

#!/usr/bin/env python3
"""development: compare implementation verdicts per rule with the specification oracle on work/VAL"""
import sys, os, json, glob, subprocess, collections
sys.path.insert(0, '/verif')
import importlib.util, importlib.machinery
spec = importlib.util.spec_from_loader("check", importlib.machinery.SourceFileLoader("check", "/verif/check"))
chk = importlib.util.module_from_spec(spec); spec.loader.exec_module(chk)
RULES = ["UniqueOperationNames","LoneAnonymousOperation","SingleFieldSubscriptions","KnownTypeNames","FragmentsOnCompositeTypes","VariablesAreInputTypes","LeafFieldSelections","FieldsOnCorrectType","UniqueFragmentNames","KnownFragmentNames","NoUnusedFragments","OverlappingFieldsCanBeMerged","NoFragmentsCycle","PossibleFragmentSpreads","NoUnusedVariables","NoUndefinedVariables","KnownArgumentNames","UniqueArgumentNames","UniqueVariableNames","ProvidedRequiredArguments","KnownDirectives","VariablesInAllowedPosition","ValuesOfCorrectType","UniqueDirectivesPerLocation"]
bad = collections.defaultdict(list)
tot = 0; exempt = collections.Counter(); agree = collections.Counter()
for d in sorted(glob.glob('/verif/work/VAL/shard_*')):
    impl = chk.parse_out(d + '/impl.out'); model = chk.parse_out(d + '/model.out')
    metas = {}
    for l in open(d + '/meta.jsonl'):
        m = json.loads(l)
        if 'id' in m: metas[m['id']] = m
    sch = json.load(open(d + '/schemas.json'))
    for cid, il in impl.items():
        ml = model.get(cid)
        if ml is None: continue
        _, sl = chk.split_sections(ml)
        if not sl or sl[0].startswith("EXEMPT"): continue
        tot += 1
        iv = set(l.split()[1] for l in il if l.startswith("E "))
        for l in sl:
            p = l.split()
            if p[0] != "V": continue
            code, v = p[1], p[2]
            if v == "X": exempt[code] += 1; continue
            if (code in iv) != (v == "1"):
                bad[code].append((len(metas[cid]['doc']), cid, d, v))
            else:
                agree[(code, v)] += 1
print("cases", tot)
for r in RULES:
    print("%-30s agree0=%5d agree1=%5d exempt=%5d DISAGREE=%d" % (r, agree[(r,'0')], agree[(r,'1')], exempt[r], len(bad[r])))
show = int(os.environ.get("SHOW", "1"))
only = os.environ.get("ONLY")
for r in RULES:
    if only and r != only: continue
    for n, cid, d, v in sorted(bad[r])[:show]:
        m = [json.loads(l) for l in open(d + '/meta.jsonl') if '"id"' in l]
        mm = [x for x in m if x['id'] == cid][0]
        sch = json.load(open(d + '/schemas.json'))
        rep = {"schema": mm['schema'], "schema_sdl": sch[mm['schema']], "doc": mm['doc'], "op": "validate", "extra": ["(plan %s)" % r]}
        json.dump(rep, open('/tmp/ds_in.json', 'w'))
        # shrink against the oracle restricted to this rule
        subprocess.run(["/verif/harness/target/debug/gth", "shrink1", "/tmp/ds_in.json", "/verif/coq/extract/gen/driver", r, "/tmp/ds_out.json"], check=False)
        try:
            o = json.load(open('/tmp/ds_out.json'))
            print("=====", r, "spec says", v, "schema", mm['schema'], cid)
            print(o['doc'])
        except Exception as e:
            print("=====", r, "spec says", v, "schema", mm['schema'], cid, "(not shrunk)")
            print(mm['doc'][:1500])

HOOK_COMMITS = ["b0fe4bc"]
NOTES = "Technique family: machine-checked proof in Coq 8.16.1. See DESIGN.md."
NOTE_DEFAULT = ("Trusted: Coq kernel; the hand-written model is tied to the code by the differential correspondence run on every check "
                "(generator quality bounds it); extraction (ExtrOcamlBasic/ExtrOcamlString only) + driver.ml; harness serialiser/renderers; "
                "graphql-parser is outside the model. Axioms per theorem are recorded in the evidence (expected: none).")
LEVEL = {
    "C15": "Theorems over the Gallina model of operation_visitor.rs / schema_visitor.rs for ALL documents and schemas (no size bound): the callback sequence equals the structural pre/post-order linearisation of the document (hence every node once, nested, in list order, independent of the schema). The model is tied to the code by running the real visitor with a recording OperationVisitor/SchemaVisitor on generated documents and diffing every callback against the extracted model.",
    "C16": "Theorems over the same model: all six context stacks are restored by the walk for every visitor and start state, and the context answers at every callback equal an environment-passing specification (annot) written from the GraphQL spec. Correspondence: the six answers at every callback and the stack depths after the walk (hook) are diffed against the extracted model.",
}
NOTE = {}
TECH = {}
NOT_CLAIMED = {}

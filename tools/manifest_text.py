HOOK_COMMITS = ["b0fe4bc"]
RULE_LEVEL = ("Per-rule theorems over the Gallina model of the rule(s) (theories/Rules.v, run by the modelled visitor): for ALL schemas and documents (unbounded size, depth, wrappers), under the stated well-formedness side conditions, the rule reports at least one error IFF the specification predicate of spec/SpecRules.v (written from the GraphQL spec over the environment-passing annotation) holds; codes of the errors. The model is tied to the code on every run by validating generated documents with exactly these rules and diffing fires/does-not-fire per rule against the extracted model, and the implementation is compared with the extracted specification oracle on the same inputs.")
NOTES = "Technique family: machine-checked proof in Coq 8.16.1. See DESIGN.md."
NOTE_DEFAULT = ("Trusted: Coq kernel; the hand-written model is tied to the code by the differential correspondence run on every check "
                "(generator quality bounds it); extraction (ExtrOcamlBasic/ExtrOcamlString only) + driver.ml; harness serialiser/renderers; "
                "graphql-parser is outside the model. Axioms per theorem are recorded in the evidence (expected: none).")
LEVEL = {
    "C15": "Theorems over the Gallina model of operation_visitor.rs / schema_visitor.rs for ALL documents and schemas (no size bound): the callback sequence equals the structural pre/post-order linearisation of the document (hence every node once, nested, in list order, independent of the schema). The model is tied to the code by running the real visitor with a recording OperationVisitor/SchemaVisitor on generated documents and diffing every callback against the extracted model.",
    "C16": "Theorems over the same model: all six context stacks are restored by the walk for every visitor and start state, and the context answers at every callback equal an environment-passing specification (annot) written from the GraphQL spec. Correspondence: the six answers at every callback and the stack depths after the walk (hook) are diffed against the extracted model.",
}
LEVEL.update({
    "C04": RULE_LEVEL + " Rules: FieldsOnCorrectType, LeafFieldSelections.",
    "C06": RULE_LEVEL + " Rules: UniqueFragmentNames, KnownFragmentNames, KnownTypeNames, FragmentsOnCompositeTypes, PossibleFragmentSpreads, NoUnusedFragments (reachability work-list: fuel sufficiency + least fixed point), NoFragmentsCycle (DFS: totality, soundness, completeness).",
    "C07": RULE_LEVEL + " Rules: UniqueVariableNames, VariablesAreInputTypes, NoUndefinedVariables, NoUnusedVariables (DFS over spreads: tables, totality, reachability), plus the decision core of VariablesInAllowedPosition for all types (effective-type subtyping = IsVariableUsageAllowed).",
    "C08": RULE_LEVEL + " Rule: ValuesOfCorrectType, with the core theorem for every (expected type, literal) pair: walking the literal yields no error iff coercibleb.",
    "C09": RULE_LEVEL + " Rules: KnownArgumentNames (slot invariant; the error names the owner the argument is attached to), UniqueArgumentNames, ProvidedRequiredArguments.",
    "C10": RULE_LEVEL + " Rules: KnownDirectives (location slot invariant), UniqueDirectivesPerLocation.",
    "C11": RULE_LEVEL + " Rules: UniqueOperationNames, LoneAnonymousOperation, SingleFieldSubscriptions (through collect_fields = the specification's CollectFields).",
    "C13": "Theorems over the model of validate.rs/defaults.rs for ALL plans (any length, order, repetitions), schemas and documents: validate = in-order concatenation of the rules run alone (complete case analysis incl. the panic and fuel outcomes), every rule restores the shared context, the default plan holds each of the 24 rules exactly once. Correspondence on random plans x documents: full error lists (code, locations) as multisets per run of one code vs the extracted model; on the implementation additionally plan-result = concatenation of single-rule runs, codes, non-empty messages, locations are node positions, JSON shape, default plan order.",
})
LEVEL.update({
    "C19": "Theorems over the model of collect_fields.rs for ALL schemas, documents, selection sets: totality (fuel suffices on cyclic fragment graphs and unknown names) and, for an object parent type of a well-formed schema, exact equality with the specification's CollectFields (spec/SpecCollect.v: grouped by response key in order of first occurrence, fragments expanded once, type conditions by DoesFragmentTypeApply), plus the grouping guarantees. Correspondence: collect_fields is called on every selection set x every object type of generated documents and diffed against the extracted model and the extracted specification.",
})
LEVEL.update({
    "C18": "17 theorems over the model of the helper traits of ext.rs (and do_types_overlap) for ALL schemas / types (any wrapper depth) / values (any nesting): is_subtype <-> the inductive subtype relation, reflexivity, transitivity (under wf_schema), named subtyping, possible types, overlap <-> intersecting run-time object sets and its symmetry, look-ups by name <-> the definition with that name, root types = schema-definition entries or default names, Value::compare <-> equality as trees, variables_in_use <-> variable leaves, is_required. Correspondence: exhaustive per pool schema (all names, all pairs of definitions, all pairs of type references to depth 2/3, all pairs of ~90 values) against the extracted model and the executable specification relations.",
})
NOTE = {}
TECH = {}
NOT_CLAIMED = {}

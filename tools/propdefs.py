"""Per-property configuration of ./check (what is compared, what counts as non-trivial)."""
import json, os, glob

ALLOWED_AXIOMS = []   # no axiom is expected under any property theorem

TRUSTED_BASE = [
    "Coq 8.16.1 kernel (coqc; full .vo build, no -vos/-vok); vm_compute is used inside Example/witness proofs; native_compute is not used; in the thorough tier coqchk -o (the independent checker) re-checks the property file's .vo with everything it depends on and must report no axioms, no type-in-type, no unsafe fixpoints, no assumed positivity (evidence: coqchk)",
    "no Axiom/Parameter/Admitted in the development (scanned on every run); Print Assumptions of every property theorem recorded in axioms_per_theorem",
    "extraction plugin with ExtrOcamlBasic + ExtrOcamlString only (their built-in Extract Inductive for bool/option/unit/list/prod/sumbool/sumor/ascii->char/string->char list; no Extract Constant of our own), OCaml 4.13.1, coq/extract/driver.ml (I/O only); on every run a sample of the run's own case lines (16 quick / 64 thorough) is re-evaluated by the kernel (vm_compute of GTS.Main.run_line_case inside coqc) and must equal the extracted driver's output line for line (evidence: extraction_crosscheck)",
    "correspondence harness /verif/harness (generators, AST serialiser sx.rs, canonical renderers) and the Coq-side reader/renderer Sexp.v / Render.v / Run.v: a bug there can hide a disagreement, not create a theorem",
    "hand-written Gallina model of the Rust code (coq/theories): tied to /repo's working tree only by differential execution on the generated inputs of this run (distribution in input_distribution)",
    "graphql-parser (parsing, positions) is outside the model: implementation and model both start from the AST the real parser produced",
    "the specification layer (coq/spec) is our reading of the GraphQL specification, October 2021",
]


def kinds_of_trace(lines):
    ks = set()
    for l in lines:
        if l and l[0] in "+-":
            ks.add(l[1:].split(" ", 1)[0])
    return ks


def nontrivial_c15(lines, meta):
    if meta.get("op") == "strace":
        return len(lines) > 20
    ks = kinds_of_trace(lines)
    nested = any((l.startswith("+List (list (") or l.startswith("+Object (obj (") and "(list" in l or l.startswith("+OField")) for l in lines)
    return len(ks) >= 6 and nested


def nontrivial_c16(lines, meta):
    has_wrapped = any(l.startswith(("+List", "+Object")) and (" IL=[" in l) for l in lines)
    has_unknown = any(l.startswith("+Field") and " TL=- " in l for l in lines) or any(l.startswith("+Arg") and l.endswith("IL=-") for l in lines)
    return has_wrapped and has_unknown


def events_only(lines):
    return [l.split(" | ")[0] for l in lines if not l.startswith("DEPTHS")]


def no_depths(lines):
    return [l for l in lines if not l.startswith("DEPTHS")]


_TRACE_GROUP = {"Var": "1vars", "Arg": "2args", "Dir": "3dirs", "Sel": "4selset"}


def canon_tree(lines):
    """The callback trace as a tree (enter/leave nesting), with the children of every node grouped by
    the child LIST they belong to (variable definitions / arguments / directives / selection set;
    everything else is one list) and the groups put in a fixed order: the property fixes the order
    of siblings of one list, not the order in which a node's different child lists are visited.
    A trace that is not well nested has no tree."""
    root = ["ROOT", "", "", []]
    stack = [root]
    for l in lines:
        if not l or l[0] not in "+-":
            stack[-1][3].append([l, "", "", []])
            continue
        head, _, ans = l[1:].partition(" | ")
        if l[0] == "+":
            node = [head, ans, None, []]
            stack[-1][3].append(node)
            stack.append(node)
        else:
            if len(stack) < 2 or stack[-1][0] != head:
                return ["MALFORMED: leave without matching enter: " + l]
            stack[-1][2] = ans
            stack.pop()
    if len(stack) != 1:
        return ["MALFORMED: %d node(s) never left" % (len(stack) - 1)]

    def ser(n):
        kids = sorted(n[3], key=lambda k: _TRACE_GROUP.get(k[0].split(" ", 1)[0], "0same"))  # stable
        return [n[0], n[1], n[2], [ser(k) for k in kids]]
    return [json.dumps(ser(root))]


PROPS = {
    "C15": {
        "rule": "random schema-aware documents (valid-biased, wild, deep) over the curated schema pool, each fifth also against a schema that defines none of its names, plus the schema visitor on every pool schema; compared: full callback sequence (kind, enter/leave, payload digest) with the extracted model, and as a tree (nesting; siblings of one list in list order) with the specification's linearisation. distinct = distinct (schema, document); non-trivial = at least 6 node kinds and a nested list/object value (schema documents: more than 20 callbacks)",
        "nontrivial": nontrivial_c15,
        "impl_view": events_only,
        "model_view": events_only,
        # against the specification: as trees, insensitive to the order in which a node's different
        # child lists are visited (the model comparison above stays sequence-exact)
        "spec_view": lambda l: canon_tree(events_only(l)),
        "impl_spec_view": lambda l: canon_tree(events_only(l)),
        "partial": "",
    },
    "C16": {
        "rule": "same generator families as C15; compared at every callback: the six context answers (current type, its literal, parent type, field definition, input type, its literal) and the six stack depths after the walk (hook verif_stack_depths). non-trivial = a list/object literal under a wrapped ([..]) expected type and at least one unknown field or argument",
        "nontrivial": nontrivial_c16,
        "impl_spec_view": lambda l: canon_tree(no_depths(l)),
        "spec_view": lambda l: canon_tree(l),
        "partial": "",
    },
}


def load_known_findings(root):
    try:
        return json.load(open(os.path.join(root, "known_findings.json")))
    except FileNotFoundError:
        return []


def top_level_operation_names(text):
    """names of the operations of a document text (None for anonymous ones), by a small scanner
    that tracks brace depth outside strings and comments"""
    names = []
    i, n, depth = 0, len(text), 0
    expect_def = True
    while i < n:
        c = text[i]
        if c == "#":
            while i < n and text[i] != "\n":
                i += 1
            continue
        if c == '"':
            if text.startswith('"""', i):
                j = text.find('"""', i + 3)
                i = n if j < 0 else j + 3
                continue
            i += 1
            while i < n and text[i] != '"':
                i += 2 if text[i] == "\\" else 1
            i += 1
            continue
        if c == "{":
            if depth == 0 and expect_def:
                names.append(None)          # shorthand query
            depth += 1
            expect_def = False
            i += 1
            continue
        if c == "}":
            depth -= 1
            if depth == 0:
                expect_def = True
            i += 1
            continue
        if depth == 0 and expect_def and (c.isalpha() or c == "_"):
            j = i
            while j < n and (text[j].isalnum() or text[j] == "_"):
                j += 1
            word = text[i:j]
            if word in ("query", "mutation", "subscription"):
                k = j
                while k < n and text[k] in " \t\r\n,":
                    k += 1
                m = k
                while m < n and (text[m].isalnum() or text[m] == "_"):
                    m += 1
                names.append(text[k:m] if m > k else None)
            expect_def = False
            i = j
            continue
        i += 1
    return names


def has_same_named_operations(text):
    names = top_level_operation_names(text or "")
    return len(names) != len(set(names))


def match_known(known, pid, meta):
    """A disagreement is a known finding only if it falls in a class LISTED in known_findings.json
    (status 'open: ...') whose membership test is decided here from the input alone; a violation
    outside every listed class is never hidden."""
    for k in known:
        if k.get("property") != pid or not str(k.get("status", "")).startswith("open:"):
            continue
        if k.get("class") == "same-named-operations" and has_same_named_operations(meta.get("doc", "")):
            return k["status"][len("open:"):].strip()
    return None


def schema_sdl_pool(root):
    for p in glob.glob(os.path.join(root, "work", "*", "shard_0", "schemas.json")):
        try:
            return json.load(open(p))
        except Exception:
            pass
    return {}


PROPS["VAL"] = {
    "rule": "development job: default plan on random documents",
    "nontrivial": lambda lines, meta: any(l.startswith("E ") for l in lines),
}


# ---------------------------------------------------------------- rule properties
RULES_OF = {
    "C04": ["FieldsOnCorrectType", "LeafFieldSelections"],
    "C05": ["OverlappingFieldsCanBeMerged"],
    "C06": ["UniqueFragmentNames", "KnownFragmentNames", "KnownTypeNames", "FragmentsOnCompositeTypes", "NoUnusedFragments", "NoFragmentsCycle", "PossibleFragmentSpreads"],
    "C07": ["UniqueVariableNames", "VariablesAreInputTypes", "NoUndefinedVariables", "NoUnusedVariables", "VariablesInAllowedPosition"],
    "C08": ["ValuesOfCorrectType"],
    "C09": ["KnownArgumentNames", "UniqueArgumentNames", "ProvidedRequiredArguments"],
    "C10": ["KnownDirectives", "UniqueDirectivesPerLocation"],
    "C11": ["UniqueOperationNames", "LoneAnonymousOperation", "SingleFieldSubscriptions"],
}


def fired(lines):
    """rule code -> set of info strings of its errors"""
    out = {}
    for l in lines:
        if l.startswith("E "):
            p = l.split(" | ")
            out.setdefault(p[0][2:], set()).add(p[2] if len(p) > 2 else "-")
    return out


def make_rule_prop(pid):
    rules = RULES_OF[pid]

    def compare_model(il, ml, meta):
        if not il or not ml or il[0] != ml[0]:
            return False
        fi, fm = fired(il), fired(ml)
        for r in rules:
            if (r in fi) != (r in fm):
                return False
            if r == "KnownArgumentNames" and fi.get(r) != fm.get(r):
                return False          # the owner named by the error
        # every error carries the code of a rule of the plan
        return all(code in rules for code in fi)

    def compare_spec(il, sl, meta, exempt):
        if not il or il[0] != "OK":
            return False
        fi = fired(il)
        ok = True
        for l in sl:
            p = l.split()
            if p[0] != "V" or p[1] not in rules:
                continue
            if p[2] == "X":
                exempt["out-of-scope:" + p[1]] = exempt.get("out-of-scope:" + p[1], 0) + 1
                continue
            if (p[1] in fi) != (p[2] == "1"):
                ok = False
        return ok

    def nontrivial(il, meta):
        # some rule of the property fires, or the document is non-trivially large and accepted
        return any(r in fired(il) for r in rules) or len(meta.get("doc", "")) > 200

    return {"compare_model": compare_model, "compare_spec": compare_spec, "nontrivial": nontrivial,
            "rule": "random schema-aware documents (valid-biased / wild / deep) over the curated schema pool, validated with the plan made of this property's rules (%s); compared per rule: fires / does not fire (implementation vs extracted model, and vs the specification oracle where the rule's side condition holds), every error's code; distinct = distinct (schema, document); non-trivial = one of the rules fires or the document is longer than 200 characters" % ", ".join(rules)}


for _pid in RULES_OF:
    PROPS[_pid] = make_rule_prop(_pid)


def c13_compare_model(il, ml, meta):
    return il == ml


PROPS["C13"] = {
    "rule": "random documents x random plans (default, singletons, sub-sequences, permutations, repetitions); compared: all errors (code, locations) grouped by maximal runs of one code, as multisets inside a run; on the implementation additionally: validate(plan) equals the concatenation of the single-rule runs, every error of a single-rule run has that rule's code, messages non-empty, every location is the position of a node of the parsed document, serde_json shape {locations:[{line,column}],message} only, default plan = the 24 rules in order. distinct = distinct (schema, document, plan); non-trivial = at least one error and a plan of at least 2 rules",
    "compare_model": c13_compare_model,
    "nontrivial": lambda il, meta: any(l.startswith("E ") for l in il) and "plan-len=1" != meta.get("note"),
}


# ---------------------------------------------------------------- C01 / C02
def spec_valid_flag(sl):
    for l in sl:
        if l.startswith("VALID "):
            return l.split()[1] == "1"
    return None


def spec_any_violation(sl):
    """some implemented rule is violated (only rules whose verdict is in scope count)"""
    return any(l.startswith("V ") and l.split()[2] == "1" for l in sl)


def c01_compare_spec(il, sl, meta, exempt):
    v = spec_valid_flag(sl)
    if v is None:
        return None
    if not v:
        exempt["not-spec-valid"] = exempt.get("not-spec-valid", 0) + 1
        return None
    return il == ["OK"]


def c02_compare_spec(il, sl, meta, exempt):
    if not spec_any_violation(sl):
        exempt["spec-valid"] = exempt.get("spec-valid", 0) + 1
        return None
    return bool(il) and il[0] == "OK" and any(l.startswith("E ") for l in il)


def verdict_compare_model(il, ml, meta):
    if not il or not ml or il[0] != ml[0]:
        return False
    return set(fired(il)) == set(fired(ml))


PROPS["C01"] = {
    "rule": "type-directed valid-by-construction documents (all three operation kinds, aliases, arguments of every input shape incl. lists / non-null lists / input objects / defaults / custom scalars, variables with and without defaults, directives, inline and named fragments on objects / interfaces / unions) over the curated schema pool, validated with the default plan; the specification oracle decides validity (VALID 1 = no implemented rule's specification predicate is violated): on those the implementation must return no error. Compared with the model: set of reporting rules. distinct = distinct (schema, document); non-trivial = oracle-valid document with at least one argument and one fragment or variable",
    "compare_model": verdict_compare_model,
    "compare_spec": c01_compare_spec,
    "nontrivial": lambda il, meta: il == ["OK"] and "(" in meta.get("doc", "") and ("..." in meta.get("doc", "") or "$" in meta.get("doc", "")),
}
PROPS["C02"] = {
    "rule": "single-violation injection into valid-by-construction documents (30 operators: one per way a rule can be violated, applied at a random depth / placement: directly, behind inline fragments, inside named fragments) plus grammar-random documents, validated with the default plan; whenever the specification oracle flags an implemented rule (in-scope verdict 1) the implementation must return at least one error. Compared with the model: set of reporting rules. distinct = distinct (schema, document); non-trivial = the oracle flags at least one rule",
    "compare_model": verdict_compare_model,
    "compare_spec": c02_compare_spec,
    "nontrivial": lambda il, meta: any(l.startswith("E ") for l in il),
}


# ---------------------------------------------------------------- C03
def c03_compare_model(il, ml, meta):
    # the model's outcome (OK / PANIC / OUTOFFUEL) against the implementation's (OK / PANIC / OVERFLOW / TIMEOUT)
    return bool(il) and bool(ml) and il[0] == ml[0]


def c03_compare_spec(il, sl, meta, exempt):
    # well-formed schema (the oracle section is EXEMPT otherwise): validation must return normally
    return bool(il) and il[0] == "OK"


PROPS["C03"] = {
    "isolate": True,
    "rule": "cycle-heavy documents: every fragment-spread graph on 1..3 fragments (all 2^(k*k) edge sets; nesting depth 0..4 under fields / inline fragments, reachable or not from the operation, with same-key noise fields), sampled 4-fragment graphs, the stack-overflow witness of DESIGN.md section 5 and relatives, name-pool random documents (wild / deep) on every pool schema, size-scaling towers of same-key fields; default plan and single-rule plans. Each case runs in a child process on an 8 MiB stack with a deadline of 2 s + 5 ms per document character; compared: normal return (OK) vs PANIC / OVERFLOW / TIMEOUT, against the model's outcome and (well-formed schema) against 'must return'. distinct = distinct (schema, document, plan); non-trivial = the document has a fragment cycle (NoFragmentsCycle fires under the default plan) or is larger than 400 characters",
    "compare_model": c03_compare_model,
    "compare_spec": c03_compare_spec,
    "nontrivial": lambda il, meta: any(l.startswith("E NoFragmentsCycle") for l in il) or len(meta.get("doc", "")) > 400,
    "partial": "real stack depth and wall-clock time are outside the model: the theorems give termination of the model for every rule, plan and document (fuel bounds, merge rule included), the harness measures the implementation in child processes",
}


# ---------------------------------------------------------------- C19
def c19_view(lines):
    out = []
    for l in lines:
        if " | " in l:
            head, groups = l.split(" | ", 1)
            out.append(head + " | " + ";".join(sorted(g for g in groups.split(";") if g)))
        else:
            out.append(l)
    return sorted(out)


def c19_nontrivial(il, meta):
    # some group with two fields, and some fragment spread in the document
    return any("," in l for l in il) and "..." in meta.get("doc", "")


PROPS["C19"] = {
    "rule": "collect_fields called on EVERY selection set of the document paired with EVERY object type of the schema; documents: random schema-aware documents, fragment graphs of every shape on up to 3 fragments incl. cycles and unknown fragment names, corpus documents with aliases colliding with / differing from field names and type conditions on the same type / an implemented interface / a containing union / unrelated types; compared: the groups (response key -> fields with positions, in order) as sets of groups, implementation vs extracted model vs the specification's CollectFields. distinct = distinct (schema, document); non-trivial = some response key collects two or more fields and the document spreads a fragment",
    "impl_view": c19_view, "model_view": c19_view, "spec_view": c19_view,
    "nontrivial": c19_nontrivial,
}


# ---------------------------------------------------------------- C18
def c18_norm(lines):
    out = []
    for l in lines:
        if l.startswith("PT "):
            p = l.split(" ")
            out.append(" ".join(p[:2]) + " " + ",".join(sorted(x for x in (p[2] if len(p) > 2 else "").split(",") if x)))
        else:
            out.append(l)
    return out


C18_SPEC_PREFIXES = ("TBN ", "DBN ", "ROOTS ", "PT ", "NST ", "OVL ", "SUB ", "CMP ", "VARS ")


def c18_spec_view(lines):
    return [l for l in c18_norm(lines) if l.startswith(C18_SPEC_PREFIXES)]


PROPS["C18"] = {
    "rule": "one case per pool schema, exhaustive inside, asked AFTER a schema history: four variants of the schema with the same number of definitions (definitions reversed, implements-lists of the objects rotated, union member lists rotated, an object renamed) take turns in ONE variable (same address) and are queried before the real schema is put back there and queried for the answers that count; then: every name (present and one absent) through type_by_name / object_type_by_name / type_map / directive_by_name / field_by_name / input_field_by_name, root operation types, kind predicates, possible_types of every type, is_named_subtype and is_possible_type on ALL pairs of names / definitions, do_types_overlap on ALL pairs of composite types, is_subtype on ALL pairs of type references with wrappers to depth 2 (quick) / 3 (thorough) over every named type (incl. shapes the grammar cannot write, e.g. T!!), Value::compare on ALL pairs of a pool of ~90 values (every kind, lists of different lengths, objects with different key sets, +0.0/-0.0, nesting to depth 3), variables_in_use; compared line by line with the extracted model, and (look-ups by name, roots, possible types, named subtyping, overlap, subtyping, value equality, variable leaves) with the executable specification relations. evaluations counts schemas; the number of individual helper calls is in 'helper_calls'. non-trivial = the schema has an interface implementing an interface or a union, or a schema definition",
    "impl_view": c18_norm, "model_view": c18_norm, "spec_view": c18_spec_view, "impl_spec_view": c18_spec_view,
    "nontrivial": lambda il, meta: len(il) > 200,
}


# ---------------------------------------------------------------- C12
PROPS["C12"] = {
    "two_backends": True,
    "rule": "call histories: one shared plan and schema, the document under test plus 2..8 (thorough: ..49) other documents (valid, invalid, cyclic) validated before and after it, forwards and backwards, every result compared with a fresh-plan run; other SCHEMAS in the history (variants with the same number of definitions — an object renamed, definitions reversed, one definition duplicated over another, directive definitions rotated, object field lists rotated — taking turns in one variable; fresh plans that meet a variant FIRST and the real schema afterwards; a clone at another address; a fresh thread); 16 threads validating the same documents concurrently on the shared &plan / &schema (3 rounds, rotated start); schema, documents and plan compared with clones taken before; the whole case set is also run through a second build of the harness with the other parser back end (graphql_parser_fork) and the canonical outputs must be identical; result of the document under test compared with the extracted model (errors as multisets per run of one code). distinct = distinct (schema, document, plan); non-trivial = at least one error and a history of at least 3 documents. Scheduling is stress-explored, not enumerated",
    "nontrivial": lambda il, meta: any(l.startswith("E ") for l in il) and meta.get("note", "history=0") not in ("history=0", "history=1", "history=2"),
    "partial": "thread interleavings, process-wide statics, HashMap random state and the choice of parser back end are facts about the compiled code: they are stress / differential runs against the model's single answer, not theorems",
}


# ---------------------------------------------------------------- C14
def c14_compare_model(il, ml, meta):
    if il and il[0].startswith("SKIP"):
        return True
    return il == ml


def c14_compare_spec(il, sl, meta, exempt):
    # the property is a relation between two runs of the implementation
    if il and il[0].startswith("SKIP"):
        exempt[il[0]] = exempt.get(il[0], 0) + 1
        return None
    return "VERDICT same" in il and ("RULES same" in il or "RULES n/a" in il)


PROPS["C14"] = {
    "rule": "valid-by-construction, single-violation and grammar-random documents, each with one rewrite: permutation of definitions / selections (60% of the selection lists) / arguments / variable definitions, consistent renaming of operations / fragments (with their spreads) / variables (definitions and all uses) / aliases (response-key equalities preserved), wrapping a part of a selection list in an untyped inline fragment, replacing every directive-free spread of a non-recursive fragment by the typed inline fragment (dropping the definition when unused), print and re-parse with the parser's own printer (compared only when the re-parsed AST equals the original up to positions), permutation of the schema's definitions and of fields / arguments / enum values / union members / interface lists; original and rewritten input validated with the default plan; required: same accept/reject and (except for wrapping / inlining) same set of reporting rules; both runs also compared with the extracted model. distinct = distinct (schema, document, rewrite); non-trivial = the document is rejected (some rule reports) or the rewrite is an inlining / wrapping",
    "compare_model": c14_compare_model,
    "compare_spec": c14_compare_spec,
    # the property relates two runs of the implementation: a DIFF line is a violation by itself
    "impl_oracle": lambda il: not any(l in ("VERDICT DIFF", "RULES DIFF") for l in il),
    "nontrivial": lambda il, meta: any("reject" in l for l in il[:1]) or meta.get("note") in ("inline-spread", "wrap-inline"),
    "partial": "the external printer (Display of documents) is outside the model; theorems: permutations (definitions, selections, arguments, variable definitions, inside the schema), renaming of operations, aliases, fragments and variables, wrapping in an untyped inline fragment, inlining of spreads; re-printing is compared run against run on the implementation",
}


# ---------------------------------------------------------------- C17
def c17_nontrivial(il, meta):
    return "RESULT replace" in il and meta.get("note") != "mask=0" and len(il) > 12


# hook kinds whose nodes never contain a node of the same kind and sit in lists whose parents are
# themselves visited in list order: for them "in list order" fixes the order of ALL calls of that kind
# in the document (definitions, operations, fragment definitions, variable definitions, spreads);
# between a node's different child lists (arguments / directives / selection set) the property fixes
# nothing, so the remaining kinds are compared as multisets here (and in order with the model)
C17_ORDERED_KINDS = ("H Definition ", "H Operation ", "H Fragment ", "H VarDef ", "H Spread ")


def c17_compare_spec(il, sl):
    il = [l for l in il if not l.startswith("RESULT ")]
    if sorted(il) != sorted(sl):
        return False
    for k in C17_ORDERED_KINDS:
        if [l for l in il if l.startswith(k)] != [l for l in sl if l.startswith(k)]:
            return False
    return True


PROPS["C17"] = {
    "rule": "random schema-aware documents x a family of probe transformers: the identity (nothing rewritten), one hook at a time (11 hooks: definition, operation, fragment, selection set, field, fragment spread, inline fragment, directive, argument, value, variable definition), random hook combinations and all hooks, each hook logging every call and rewriting a pseudo-randomly chosen subset of its nodes in a recognisable way (moduli 1..3, offsets 0..6); plus ALL 127 Keep/Replace patterns over selection lists of length 0..6 (exhaustive). Compared: the call log (kind and identity of every hook call, in order), keep/replace of the result, and the complete resulting document (names, aliases, positions, type conditions, list orders and lengths) against the extracted model, and the call log and resulting document against the specification (hook_calls / smap_document of spec/SpecTransform.v). distinct = distinct (document, probe); non-trivial = the probe rewrites something (result is a replacement) and at least 10 hook calls",
    "nontrivial": c17_nontrivial,
    # oracle section: the specification's list of hook calls (logged) and its structural map of the
    # document; the implementation's log and resulting document must equal them
    # (as multisets of calls plus the resulting document: "exactly once per node" and "the result is
    # the input with each node replaced"; the ORDER of the calls is compared kind by kind where the
    # property fixes it — see C17_ORDERED_KINDS — and completely with the model)
    "compare_spec": lambda il, sl, meta, exempt: c17_compare_spec(il, sl),
}


def no_bad_lines(il):
    return not any(l.endswith(" BAD") or l == "PANIC" for l in il)


for _pid in ("C13", "C12"):
    PROPS[_pid]["impl_oracle"] = no_bad_lines


# ---------------------------------------------------------------- C20
def _c20_tree(lines):
    out = []
    for l in lines:
        if l.startswith("JSON "):
            try:
                out.append(("JSON", json.dumps(json.loads(l[5:]), sort_keys=True)))
            except ValueError:
                out.append(("JSON-unparsable", l))
        else:
            out.append(l)
    return out


def c20_compare_model(il, ml, meta):
    if meta.get("family") == "raw-text":
        return True     # byte-level reading is outside the model; the implementation-side assertions apply
    return _c20_tree(il) == _c20_tree(ml)


def c20_compare_spec(il, sl, meta, exempt):
    # oracle section: the structure the schema denotes (encode (abstract_normal pol s)) as one JSON line
    want = [l for l in sl if l.startswith("JSON ")]
    got = [l for l in il if l.startswith("JSON ")]
    if not want:
        return None
    return bool(il) and il[0] == "OK" and _c20_tree(got) == _c20_tree(want)


PROPS["C20"] = {
    "rule": "for every pool schema and both optional-member policies (absent members written as null / left out): the spec-conformant introspection result rendered from the schema; 8 structural mutations of it at random positions (remove a member, change a kind tag, wrong JSON type, duplicate a member, null a required member, extra unknown member, reorder members, strings with 1..4-byte characters / escapes / control characters in descriptions and deprecation reasons); hand-made edge cases; hand-made spec-conformant results (all 19 directive locations one by one and together, optional members present / null / absent, deprecations, default values, deep ofType chains, an interface without implementers) which must parse; raw texts around a valid result (byte order mark, leading / trailing white space, trailing garbage, truncation, empty input) compared on the implementation only; the bundled real-world results (product; thorough: github, shopify). Implementation: parse_introspection_from_string, then parse_introspection through readers delivering 1, 2, 3, 4, 5, 7, 13, 4096 and all bytes per read (outcome must equal the string parse), readers failing at every byte offset for inputs up to 1500 bytes, at 1500 (inputs over 20000 bytes: 40) evenly spaced offsets beyond (must give Err, no panic), serialise + parse again (same structure). Compared: Ok/Err and the parsed structure as a JSON tree (serde_json::to_value) with the extracted model's decode_query/encode_query, and for pristine rendered results with the specification's abstract_normal pol s. distinct = distinct JSON texts; non-trivial = parses Ok and has at least 5 types, or is a mutated result that is rejected",
    "compare_model": c20_compare_model,
    "compare_spec": c20_compare_spec,
    "impl_oracle": no_bad_lines,
    # results known to be spec-conformant (hand-made from the specification's grammar of the result,
    # and the bundled real-world ones) must parse
    "impl_oracle_meta": lambda il, meta: not (meta.get("family") in ("hand-made-conformant", "bundled-real-world", "rendered") and (not il or il[0] != "OK")),
    "nontrivial": lambda il, meta: (bool(il) and il[0] == "OK" and meta.get("doc", "").count('"kind":"OBJECT"') + meta.get("doc", "").count('"kind":"SCALAR"') >= 5) or (bool(il) and il[0] == "ERR" and meta.get("family", "").startswith("mutated")),
    "partial": "byte-level JSON reading, reader chunking and injected I/O errors are serde_json's and are exercised on the implementation only (CHUNKS / FAULTS lines, implementation-side assertion); the theorems are about JSON trees: round trip, losslessness of the rendered result of every well-formed schema, recovery of every listed detail, no duplicate keys; acceptance is characterised at every level (C20_decode_iff_shape) with the five rejection corollaries; invariance under member order / unknown members is proved for a typed relation (C20_invariance_partial: member order inside default VALUES matters, closed counterexample); Float default values are exempt from the oracle (printed differently by design of the oracle's printer)",
    "trusted_extra": ["serde / serde_json derive behaviour (struct-from-object, struct-from-array, internally tagged enums incl. integer tags in buffered content, Option, duplicate keys) as modelled in theories/Introspection.v from probes of serde 1.0.215 / serde_json 1.0.132; tied by the correspondence run on every check"],
}

#!/bin/bash
# usage: tools/try_refactor.sh <patch.diff>  — applies a behaviour-preserving refactoring to /repo,
# runs the repo's tests and ALL quick checks, undoes the patch; prints every check that alarms.
set -u
patch=$(realpath "$1")
cd /repo || exit 2
if ! git diff --quiet; then echo "/repo has uncommitted changes"; exit 2; fi
git apply "$patch" || { echo "patch does not apply"; exit 2; }
echo "tests: $(cargo test --offline 2>&1 | grep -E '^test result' | head -1)"
cd /verif
for p in C01 C02 C03 C04 C05 C06 C07 C08 C09 C10 C11 C12 C13 C14 C15 C16 C17 C18 C19 C20; do
  out=$(timeout 1500 ./check "$p" 2>&1 | tail -1)
  case "$out" in OK*) ;; *) echo "[$p] $out";; esac
done
echo "done"
git -C /repo checkout -- .
git -C /verif checkout evidence/ 2>/dev/null

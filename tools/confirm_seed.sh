#!/bin/bash
# usage: tools/confirm_seed.sh <mutant id, e.g. m19>   (uses the agent's scratch worktree /tmp/mut/<id>)
# confirms: patch applies to a clean tree, existing tests pass with it, demo fails with it and passes without it
set -u
id=$1
wt=/tmp/mut/$id; out=/tmp/mut/$id-out
cd $wt || exit 2
git checkout -q -- . ; git apply $out/patch.diff || { echo "PATCH DOES NOT APPLY"; exit 1; }
echo "files: $(git diff --stat | tail -1)"
t=$(cargo test --offline 2>&1 | grep -E '^test result: .* passed' | head -1); echo "tests with change: $t"
cd $out/demo && (cargo build --offline >/dev/null 2>&1; bin=$(ls target/debug/ 2>/dev/null | grep -v '\.d$' | grep -v -E '^(build|deps|examples|incremental)$' | head -1); ./target/debug/$bin >/tmp/mut/$id-with.txt 2>&1; echo "demo with change: exit $?")
cd $wt && git checkout -q -- . 
cd $out/demo && (cargo build --offline >/dev/null 2>&1; bin=$(ls target/debug/ | grep -v '\.d$' | grep -v -E '^(build|deps|examples|incremental)$' | head -1); ./target/debug/$bin >/tmp/mut/$id-without.txt 2>&1; echo "demo without change: exit $?")
cd $wt && git apply $out/patch.diff

#!/bin/bash
# Build (incrementally) everything a check needs: the Coq development (full .vo build),
# the extracted OCaml model + driver, and the Rust harness against /repo's working tree.
# usage: tools/build.sh [coq|extract|harness|all]
set -u
cd "$(dirname "$0")/.."
ROOT=$(pwd)
what=${1:-all}
export CARGO_NET_OFFLINE=true

build_coq() {
  cd "$ROOT/coq" || exit 1
  if [ ! -f Makefile ] || [ _CoqProject -nt Makefile ]; then
    coq_makefile -f _CoqProject -o Makefile >/dev/null 2>&1 || exit 1
  fi
  timeout 3000 make -j16 > "$ROOT/work/coq_build.log" 2>&1
  rc=$?
  if [ $rc -ne 0 ]; then
    echo "COQ BUILD FAILED (rc=$rc)"; grep -v '^Warning' "$ROOT/work/coq_build.log" | tail -25
    return 1
  fi
  return 0
}

build_extract() {
  cd "$ROOT/coq" || exit 1
  mkdir -p extract/gen
  if [ ! -x extract/gen/driver ] || [ spec/Main.vo -nt extract/gen/driver ] || [ extract/driver.ml -nt extract/gen/driver ] || [ extract/Extract.v -nt extract/gen/driver ]; then
    ( cd extract/gen && rm -f model.ml model.mli driver && \
      coqc -Q ../../theories GT -Q ../../spec GTS ../Extract.v > "$ROOT/work/extract.log" 2>&1 && \
      rm -f ../Extract.vo ../Extract.glob ../Extract.vok ../Extract.vos ../.Extract.aux && \
      cp ../driver.ml . && \
      ocamlfind ocamlopt -O2 -w -a model.mli model.ml driver.ml -o driver >> "$ROOT/work/extract.log" 2>&1 ) || {
        echo "EXTRACTION BUILD FAILED"; tail -20 "$ROOT/work/extract.log"; return 1; }
  fi
  return 0
}

build_harness() {
  cd "$ROOT/harness" || exit 1
  cp /repo/Cargo.lock Cargo.lock 2>/dev/null
  RUSTFLAGS="--cfg graphql_tools_rs_verif" cargo build --offline > "$ROOT/work/harness_build.log" 2>&1 || {
    echo "HARNESS BUILD FAILED"; grep -E '^error' -A12 "$ROOT/work/harness_build.log" | head -60; return 1; }
  return 0
}

build_harness_fork() {
  cd "$ROOT/harness" || exit 1
  cp /repo/Cargo.lock Cargo.lock 2>/dev/null
  RUSTFLAGS="--cfg graphql_tools_rs_verif" CARGO_TARGET_DIR="$ROOT/harness/target-fork" cargo build --offline --no-default-features --features fork_parser > "$ROOT/work/harness_fork_build.log" 2>&1 || {
    echo "HARNESS (fork parser) BUILD FAILED"; grep -E '^error' -A12 "$ROOT/work/harness_fork_build.log" | head -60; return 1; }
  return 0
}

mkdir -p "$ROOT/work"
exec 9>"$ROOT/work/.build.lock"
flock 9
rc=0
case "$what" in
  coq) build_coq || rc=1 ;;
  extract) build_extract || rc=1 ;;
  harness) build_harness || rc=1 ;;
  harness-fork) build_harness_fork || rc=1 ;;
  all) build_coq || rc=1; build_extract || rc=1; build_harness || rc=1 ;;
esac
exit $rc

#!/usr/bin/env python3
"""Regenerates MANIFEST.json from tools/propdefs.py (claimed checks) + the list of unclaimed ones."""
import json, os, sys
ROOT = os.path.dirname(os.path.dirname(os.path.abspath(__file__)))
sys.path.insert(0, os.path.join(ROOT, "tools"))
import propdefs
import manifest_text as T

allp = [json.loads(l)["id"] for l in open(os.path.join(ROOT, "properties.jsonl"))]
checks = []
for pid in allp:
    if pid in propdefs.PROPS and pid in T.LEVEL:
        checks.append({
            "property_id": pid,
            "quick_cmd": "./check %s --tier quick" % pid,
            "thorough_cmd": "./check %s --tier thorough" % pid,
            "evidence_file": "/verif/evidence/%s.json" % pid,
            "replay_cmd_template": "./check %s --replay {path}" % pid,
            "engine": "coq-model+correspondence",
            "level_claimed": {"category": "proof", "text": T.LEVEL[pid], "design_ref": "DESIGN.md §4 " + pid},
            "level_note": T.NOTE.get(pid, T.NOTE_DEFAULT),
            "technique": T.TECH.get(pid, "Coq theorems over a hand-written Gallina model + differential correspondence (extracted model vs implementation) + specification oracle"),
        })
na = [{"property_id": p, "reason": T.NOT_CLAIMED.get(p, "check not built yet (work in progress; see DESIGN.md §7)")} for p in allp if p not in [c["property_id"] for c in checks]]
m = {
    "version": 1,
    "setup_cmd": "tools/build.sh all",
    "hooks": {
        "guard": "graphql_tools_rs_verif",
        "enable": "RUSTFLAGS=\"--cfg graphql_tools_rs_verif\" (set by tools/build.sh when it builds /verif/harness against /repo)",
        "baseline_off_cmd": "cd /repo && cargo test --workspace --no-fail-fast --offline",
        "source_commits": T.HOOK_COMMITS,
        "add_only": True,
    },
    "engines": [{"name": "coq-model+correspondence", "path": "/verif/coq + /verif/harness + /verif/check",
                 "serves_properties": [c["property_id"] for c in checks],
                 "kind_free_text": "Coq 8.16.1 development (model, specification, theorems), extracted OCaml model, Rust differential harness"}],
    "checks": checks,
    "not_applicable": na,
    "notes": T.NOTES,
}
json.dump(m, open(os.path.join(ROOT, "MANIFEST.json"), "w"), indent=1)
print("claimed:", [c["property_id"] for c in checks])

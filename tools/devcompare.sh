#!/bin/bash
# quick development comparison without the proof step
cd /verif
for k in $(seq 0 15); do
  ( d=work/VAL/shard_$k; rm -rf $d; mkdir -p $d; harness/target/debug/gth emit --prop VAL --tier ${1:-quick} --seed ${2:-1} --shard $k/16 --out $d && coq/extract/gen/driver < $d/cases.sexp > $d/model.out ) &
done
wait
python3 - <<'PY'
import sys,os,json
sys.path.insert(0,'/verif'); 
import importlib.util, importlib.machinery
spec=importlib.util.spec_from_loader("check", importlib.machinery.SourceFileLoader("check","/verif/check")); chk=importlib.util.module_from_spec(spec); spec.loader.exec_module(chk)
tot=0; bad=[]
for k in range(16):
    d='/verif/work/VAL/shard_%d'%k
    impl=chk.parse_out(d+'/impl.out'); model=chk.parse_out(d+'/model.out')
    metas={}
    for l in open(d+'/meta.jsonl'):
        m=json.loads(l)
        if 'id' in m: metas[m['id']]=m
    for cid,il in impl.items():
        tot+=1
        ml=model.get(cid)
        if ml is None or chk.canon(chk.split_sections(ml)[0])!=chk.canon(il):
            bad.append((len(metas[cid]['doc']),cid,d))
print("cases",tot,"disagreements",len(bad))
bad.sort()
for n,cid,d in bad[:int(os.environ.get('SHOW','3'))]:
    impl=chk.parse_out(d+'/impl.out'); model=chk.parse_out(d+'/model.out')
    m=[json.loads(l) for l in open(d+'/meta.jsonl') if '"id"' in l]
    mm=[x for x in m if x['id']==cid][0]
    print("=====",cid,mm['schema']); print(mm['doc']); 
    a=chk.canon(impl[cid]); b=chk.canon(chk.split_sections(model.get(cid,[]))[0])
    import difflib
    print("\n".join(difflib.unified_diff(a,b,'impl','model',lineterm='',n=0)))
PY

(* Extract.v — the only file with extraction directives.  ExtrOcamlBasic and ExtrOcamlString
   contribute their built-in Extract Inductive directives (bool, option, unit, list, prod,
   sumbool, sumor; ascii -> char, string -> char list).  No Extract Constant of our own;
   N, Z, positive and nat stay the extracted Coq datatypes. *)
Require Extraction ExtrOcamlBasic ExtrOcamlString.
From GTS Require Import Main.
Extraction Language OCaml.
Extraction "model.ml" run_line_schema run_line_case.

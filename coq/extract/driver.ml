(* driver.ml — reads case lines on stdin, evaluates the extracted model, prints results.
   No logic of its own beyond I/O and string <-> char list conversion. *)
let explode s = List.init (String.length s) (String.get s)
let implode l = let b = Buffer.create 64 in List.iter (Buffer.add_char b) l; Buffer.contents b

let () =
  let schema = ref None in
  (try
    while true do
      let line = input_line stdin in
      let n = String.length line in
      if n >= 3 && String.sub line 0 3 = "(S " then begin
        match Model.run_line_schema (explode line) with
        | Some s -> schema := Some s
        | None -> print_string "#BADSCHEMA\n"; schema := None
      end else if n >= 3 && String.sub line 0 3 = "(C " then begin
        match !schema with
        | None -> print_string "#NOSCHEMA\n"
        | Some s ->
          (match Model.run_line_case s (explode line) with
           | Some (id, out) ->
             print_string ("#CASE " ^ implode id ^ "\n");
             List.iter (fun l -> print_string (implode l); print_char '\n') out;
             print_string "#END\n"
           | None -> print_string "#BADCASE\n")
      end
    done
  with End_of_file -> ());
  flush stdout

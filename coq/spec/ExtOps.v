(* ExtOps.v — rendering of the C18 helper queries, exhaustively per schema (model side), and the
   executable versions of the specification relations of SpecTypes.v used as the oracle. *)
From GT Require Import Sexp Render.
From GTS Require Import Annot SpecRules SpecMerge SpecTypes.
Local Open Scope string_scope.

Definition s_bits (l : list bool) : string :=
  fold_right (fun b acc => String (if b : bool then "1"%char else "0"%char) acc) EmptyString l.
Definition s_rbool (b : bool) : string := if b then "true" else "false".

Fixpoint type_refs_levels (cur : list ty) (depth : nat) : list ty :=
  match depth with
  | O => []
  | S k => let next := flat_map (fun t => [TList t; TNonNull t]) cur in List.app next (type_refs_levels next k)
  end.
Definition type_refs (names : list name) (depth : nat) : list ty :=
  let base := map TNamed names in List.app base (type_refs_levels base depth).

(* ---- specification-side executable relations ---- *)
Definition spec_type_by_name (s : sdocument) (n : name) : option type_def :=
  find_first (fun t => name_eqb (td_name t) n) (type_defs s).
Definition member_or_implementerb (s : sdocument) (x y : name) : bool :=
  match spec_type_by_name s x, spec_type_by_name s y with
  | Some tx, Some (TDUnion _ members) => mem_name x members
  | Some tx, Some (TDInterface _ _ _) => mem_name y (td_interfaces tx)
  | _, _ => false
  end.
Fixpoint subtypeb (s : sdocument) (a b : ty) {struct a} : bool :=
  ty_eqb a b ||
  match a, b with
  | TNonNull x, TNonNull y => subtypeb s x y
  | TNonNull x, _ => subtypeb s x b
  | TList x, TList y => subtypeb s x y
  | TNamed x, TNamed y =>
      match spec_type_by_name s x with
      | Some tx => (td_is_object tx || td_is_interface tx) && member_or_implementerb s x y
      | None => false
      end
  | _, _ => false
  end.

Definition ext_lines (s : sdocument) (depth : nat) (vals : list value) (spec : bool) : list string :=
  let tdefs := type_defs s in
  let names := List.app (map td_name tdefs) ["ZzAbsent"] in
  let refs := type_refs names depth in
  let comps := filter td_is_composite tdefs in
  List.app
    (if spec then
       map (fun n => "TBN " ++ n ++ " " ++ s_otd (spec_type_by_name s n)) names
     else
       flat_map (fun n => ["TBN " ++ n ++ " " ++ s_otd (type_by_name s n);
                           "OBN " ++ n ++ " " ++ s_oname (opt_map td_name (object_type_by_name s n));
                           "TMAP " ++ n ++ " " ++ s_otd (type_map_get s n)]) names)
  (List.app
    (if spec then
       (* specification: the FIRST directive definition carrying that name, types play no part *)
       List.app (flat_map (fun x => match x with
                                    | SDDirective dd => ["DBN " ++ dd_name dd ++ " " ++
                                         match find (fun z => match z with SDDirective d2 => name_eqb (dd_name d2) (dd_name dd) | _ => false end) s with
                                         | Some (SDDirective y) => s_nat (List.length (dd_args y)) | _ => "-" end]
                                    | _ => [] end) s)
                ["DBN zzAbsent -"]
     else
       List.app (flat_map (fun x => match x with
                                    | SDDirective dd => ["DBN " ++ dd_name dd ++ " " ++
                                         match directive_by_name s (dd_name dd) with
                                         | Some y => s_nat (List.length (dd_args y)) | None => "-" end]
                                    | _ => [] end) s)
                ["DBN zzAbsent " ++ match directive_by_name s "zzAbsent" with Some _ => "?" | None => "-" end])
  (List.app
    [if spec then "ROOTS " ++ s_oname (opt_map td_name (root s OpQuery)) ++ " " ++ s_oname (opt_map td_name (root s OpMutation)) ++ " " ++
                  s_oname (opt_map td_name (root s OpSubscription))
     else "ROOTS " ++ match query_type s with Some t => td_name t | None => "PANIC" end ++ " " ++
          s_oname (opt_map td_name (mutation_type s)) ++ " " ++ s_oname (opt_map td_name (subscription_type s))]
  (List.app
    (flat_map (fun t =>
       let fnames := "zzAbsent" :: match t with
                                   | TDObject _ _ fs | TDInterface _ _ fs => map fd_name fs
                                   | TDInputObject _ fs => map iv_name fs
                                   | _ => [] end in
       List.app
         (if spec then [] else
            map (fun f => "FBN " ++ td_name t ++ " " ++ f ++ " " ++
                          match field_by_name t f with Some x => s_ty (fd_type x) | None => "-" end ++ " " ++
                          match input_field_by_name t f with
                          | Some x => s_ty (iv_type x) ++ ":" ++ s_rbool (iv_is_required x) | None => "-" end) fnames)
         (List.app
           ["PT " ++ td_name t ++ " " ++
            sep_by "," (if spec then match t with TDObject _ _ _ => [] | _ => possible_object_names s t end
                        else map td_name (possible_types s t))]
           (if spec then [] else
              ["KIND " ++ td_name t ++ " " ++
               s_bits [td_is_leaf t; td_is_composite t; td_is_input t; td_is_object t; td_is_union t;
                       td_is_interface t; td_is_enum t; td_is_scalar t; td_is_abstract t]]))) tdefs)
  (List.app
    (map (fun a => "NST " ++ a ++ " " ++
                   s_bits (map (fun b => if spec then name_eqb a b || member_or_implementerb s a b
                                         else is_named_subtype s a b) names)) names)
  (List.app
    (flat_map (fun a =>
       List.app
         (if spec then [] else ["IPT " ++ td_name a ++ " " ++ s_bits (map (fun b => is_possible_type a b) tdefs)])
         (if td_is_composite a then
            ["OVL " ++ td_name a ++ " " ++
             s_bits (map (fun b => if spec then types_can_overlap s a b else do_types_overlap s a b) comps)]
          else [])) tdefs)
  (List.app
    (flat_map (fun a =>
       List.app
         ["SUB " ++ s_ty a ++ " " ++ s_bits (map (fun b => if spec then subtypeb s a b else is_subtype s a b) refs)]
         (if spec then [] else
            ["TY " ++ s_ty a ++ " " ++ inner_type a ++ " " ++ s_bits [is_non_null a; is_list_type a; is_named_type a]])) refs)
    (flat_map (fun a =>
       ["CMP " ++ s_value a ++ " " ++ s_bits (map (fun b => if spec then value_eqb a b else value_compare a b) vals);
        "VARS " ++ s_value a ++ " " ++ sep_by "," (if spec then var_leaves a else variables_in_use a)]) vals))))))).

(* SpecValid.v — dispatch of the per-rule specification predicates, the side conditions under
   which a rule's verdict is expected to coincide with its specification exactly, and the
   document-level notions used by C01 / C02. *)
From GT Require Import Visitor Validate.
From GTS Require Import Annot SpecRules SpecValues SpecMerge WfSchema.

Definition violated (r : rule_id) (s : sdocument) (d : document) : bool :=
  match r with
  | R_UniqueOperationNames => v_unique_operation_names d
  | R_LoneAnonymousOperation => v_lone_anonymous d
  | R_SingleFieldSubscriptions => v_single_field_subscriptions s d
  | R_KnownTypeNames => v_known_type_names s d
  | R_FragmentsOnCompositeTypes => v_fragments_on_composite s d
  | R_VariablesAreInputTypes => v_variables_are_input_types s d
  | R_LeafFieldSelections => v_leaf_field_selections s d
  | R_FieldsOnCorrectType => v_fields_on_correct_type s d
  | R_UniqueFragmentNames => v_unique_fragment_names d
  | R_KnownFragmentNames => v_known_fragment_names d
  | R_NoUnusedFragments => v_no_unused_fragments d
  (* field merging is specified for documents without fragment cycles (on others: not violated) *)
  | R_OverlappingFieldsCanBeMerged => negb (v_no_fragment_cycles d) && v_overlapping_fields s d
  | R_NoFragmentsCycle => v_no_fragment_cycles d
  | R_PossibleFragmentSpreads => v_possible_fragment_spreads s d
  | R_NoUnusedVariables => v_no_unused_variables d
  | R_NoUndefinedVariables => v_no_undefined_variables d
  | R_KnownArgumentNames => v_known_argument_names s d
  | R_UniqueArgumentNames => v_unique_argument_names s d
  | R_UniqueVariableNames => v_unique_variable_names d
  | R_ProvidedRequiredArguments => v_provided_required_arguments s d
  | R_KnownDirectives => v_known_directives s d
  | R_VariablesInAllowedPosition => v_variables_in_allowed_position s d
  | R_ValuesOfCorrectType => v_values_of_correct_type s d
  | R_UniqueDirectivesPerLocation => v_unique_directives_per_location s d
  end.

(* operations are told apart by name: at most one anonymous operation, named ones distinct
   (no rule's side condition any more: the variable rules key their per-operation tables by the
   operation's index in the document) *)
Definition distinct_operations (d : document) : bool :=
  negb (v_unique_operation_names d) &&
  Nat.leb (List.length (filter (fun o => is_none (op_node_name o)) (operations_of d))) 1.
Definition distinct_fragments (d : document) : bool := negb (v_unique_fragment_names d).

(* side condition of the per-rule equivalence (false = the rule's exact verdict is not specified
   for this input; another rule rejects the document anyway) *)
Definition rule_in_scope (r : rule_id) (s : sdocument) (d : document) : bool :=
  match r with
  | R_NoUnusedFragments | R_NoFragmentsCycle | R_PossibleFragmentSpreads | R_SingleFieldSubscriptions =>
      distinct_fragments d
  (* the variable rules are exact on documents whose operations share names (or are all
     anonymous); a spread of a twice-defined fragment name has no defined meaning *)
  | R_NoUnusedVariables | R_NoUndefinedVariables | R_VariablesInAllowedPosition =>
      distinct_fragments d
  | R_OverlappingFieldsCanBeMerged =>
      distinct_fragments d && negb (v_no_fragment_cycles d) && negb (v_unique_argument_names s d)
  | R_ValuesOfCorrectType => negb (v_variables_are_input_types s d)
  | _ => true
  end.

Definition spec_valid (s : sdocument) (d : document) : bool :=
  forallb (fun r => negb (violated r s d)) all_rules.
Definition spec_invalid (s : sdocument) (d : document) : bool :=
  existsb (fun r => violated r s d) all_rules.

(* SpecIntrospection.v — specification side of C20.  Written from the GraphQL specification
   (October 2021) §4 Introspection: __Schema (types, queryType, mutationType, subscriptionType,
   directives), __Type per kind (§4.2.2: which members each kind has; the others are null),
   __Field, __InputValue (defaultValue: a GraphQL-formatted string), __EnumValue, __Directive.

   * [abstract_normal pol s] : the structure the introspection result of schema s denotes;
   * [render pol s]          : that result as a JSON tree under an optional-member policy
     (members whose value is absent are written `null` under PNull and omitted under PAbsent;
     under PNull the members that do not apply to a kind of type are written `null` as a full
     result does; type references carry "kind" and, for wrappers, "name": null);
   * [essence_of s] / [rebuild q] : what the property says must be carried (type names with
     kinds, fields, arguments, type references, enum values, directives, root type names) and
     how to read it back from a parsed structure.
   None of these mention the decoder of theories/Introspection.v. *)
From GT Require Import Ext Introspection.
From GTS Require Import Annot WfSchema SpecRules.
Local Open Scope string_scope.

Inductive policy := PNull | PAbsent.

(* ---- default values as GraphQL text (graphql-parser's Display, default style) ----
   None: a value this printer does not cover (floats are carried as IEEE bits, variables cannot
   occur, strings with a line feed / other control bytes / characters beyond U+FFFF are printed
   in other forms by graphql-parser). *)
Fixpoint gql_escape (s : string) : option string :=
  match s with
  | EmptyString => Some EmptyString
  | String c r =>
      let n := N_of_ascii c in
      match gql_escape r with
      | None => None
      | Some t =>
          if Ascii.eqb c """"%char then Some (String "\"%char (String """"%char t))
          else if Ascii.eqb c "\"%char then Some (String "\"%char (String "\"%char t))
          else if N.eqb n 9 then Some (String "\"%char (String "t"%char t))
          else if N.eqb n 13 then Some (String "\"%char (String "r"%char t))
          else if (32 <=? n)%N && (n <? 240)%N then Some (String c t)
          else None
      end
  end.

Fixpoint dv_text (v : value) : option string :=
  match v with
  | VInt z => Some (s_Z z)
  | VBool b => Some (if b then "true" else "false")
  | VNull => Some "null"
  | VEnum n => Some n
  | VString s => opt_map (fun t => String """"%char (t ++ String """"%char EmptyString)) (gql_escape s)
  | VList l =>
      opt_map (fun items => "[" ++ sep_by ", " items ++ "]")
        ((fix go (l : list value) : option (list string) :=
            match l with
            | [] => Some []
            | x :: r => match dv_text x, go r with Some a, Some b => Some (a :: b) | _, _ => None end
            end) l)
  | VObject l =>
      opt_map (fun items => "{" ++ sep_by ", " items ++ "}")
        ((fix go (l : list (name * value)) : option (list string) :=
            match l with
            | [] => Some []
            | (k, x) :: r =>
                match dv_text x, go r with Some a, Some b => Some ((k ++ ": " ++ a) :: b) | _, _ => None end
            end) l)
  | VVar _ | VFloat _ => None
  end.

Definition default_text (iv : input_value_def) : option string := opt_bind (iv_default iv) dv_text.

Definition all_input_values (s : sdocument) : list input_value_def :=
  List.app
    (flat_map (fun t => match t with
                        | TDObject _ _ fs | TDInterface _ _ fs => flat_map fd_args fs
                        | TDInputObject _ fs => fs
                        | _ => []
                        end) (type_defs s))
    (flat_map dd_args (directive_defs s)).
(* some default value of the schema is not covered by [dv_text] (then it is treated as absent) *)
Definition has_unprintable_default (s : sdocument) : bool :=
  existsb (fun iv => match iv_default iv with Some v => is_none (dv_text v) | None => false end)
          (all_input_values s).

(* ---- root operation types (§3.3, as in Annot.v [root]) ---- *)
Definition root_type_name (s : sdocument) (k : op_kind) : option name := opt_map td_name (root s k).
Definition query_root_name (s : sdocument) : name :=
  match root_type_name s OpQuery with Some n => n | None => "Query" end.

(* ================================================================ abstract *)
Definition nref (n : name) : named_ref := mkNamedRef n.

Fixpoint out_ref_of (s : sdocument) (t : ty) : out_ref :=
  match t with
  | TNamed n =>
      match type_by_name s n with
      | Some (TDObject _ _ _) => OR_OBJECT (nref n)
      | Some (TDInterface _ _ _) => OR_INTERFACE (nref n)
      | Some (TDUnion _ _) => OR_UNION (nref n)
      | Some (TDEnum _ _) => OR_ENUM (nref n)
      | Some (TDInputObject _ _) => OR_INPUT_OBJECT (nref n)
      | Some (TDScalar _) | None => OR_SCALAR (nref n)
      end
  | TList c => OR_LIST (Some (out_ref_of s c))
  | TNonNull c => OR_NON_NULL (Some (out_ref_of s c))
  end.

Fixpoint in_ref_of (s : sdocument) (t : ty) : in_ref :=
  match t with
  | TNamed n =>
      match type_by_name s n with
      | Some (TDEnum _ _) => IR_ENUM (nref n)
      | Some (TDInputObject _ _) => IR_INPUT_OBJECT (nref n)
      | _ => IR_SCALAR (nref n)
      end
  | TList c => IR_LIST (Some (in_ref_of s c))
  | TNonNull c => IR_NON_NULL (Some (in_ref_of s c))
  end.

(* The schema AST carries no descriptions, deprecations or specifiedBy URLs: description,
   deprecationReason, specifiedByURL have no value; isDeprecated is false.  Members that depend
   on the policy: an input value's isDeprecated (not in the October 2021 __InputValue: written
   only by a full result), an interface's empty `interfaces` (omitted under PAbsent). *)
Definition abstract_input_value (pol : policy) (s : sdocument) (iv : input_value_def) : iinput_value :=
  mkIInputValue (iv_name iv) None (opt_map JStr (default_text iv))
                (match pol with PNull => Some false | PAbsent => None end) None
                (Some (in_ref_of s (iv_type iv))).

Definition abstract_field (pol : policy) (s : sdocument) (f : field_def) : ifield :=
  mkIField (fd_name f) None (map (abstract_input_value pol s) (fd_args f)) (Some false) None
           (out_ref_of s (fd_type f)).

Definition abstract_type (pol : policy) (s : sdocument) (t : type_def) : itype :=
  match t with
  | TDScalar n => T_SCALAR (mkScalarType n None None)
  | TDObject n ifs fs =>
      T_OBJECT (mkObjectType n None (map (abstract_field pol s) fs) (map nref ifs))
  | TDInterface n ifs fs =>
      T_INTERFACE (mkInterfaceType n None (map (abstract_field pol s) fs)
                     (match pol, ifs with PAbsent, [] => None | _, _ => Some (map nref ifs) end)
                     (map nref (possible_object_names s t)))
  | TDUnion n ms => T_UNION (mkUnionType n None (map nref (possible_object_names s t)))
  | TDEnum n vs => T_ENUM (mkEnumType n None (map (fun v => mkEnumValue v None (Some false) None) vs))
  | TDInputObject n fs => T_INPUT_OBJECT (mkInputObjectType n None (map (abstract_input_value pol s) fs))
  end.

Definition abstract_directive (pol : policy) (s : sdocument) (d : directive_def) : idirective :=
  mkIDirective (dd_name d) None (Some (dd_repeatable d)) (dd_locs d)
               (map (abstract_input_value pol s) (dd_args d)).

Definition abstract_normal (pol : policy) (s : sdocument) : introspection_query :=
  mkIQuery (mkISchema None (nref (query_root_name s))
                      (opt_map nref (root_type_name s OpMutation))
                      (opt_map nref (root_type_name s OpSubscription))
                      (map (abstract_type pol s) (type_defs s))
                      (map (abstract_directive pol s) (directive_defs s))).

(* the structure denoted by a full result *)
Definition abstract (s : sdocument) : introspection_query := abstract_normal PNull s.

(* ================================================================ render *)
Definition opt_member (pol : policy) (k : string) (v : option json) : list (string * json) :=
  match v with
  | Some x => [(k, x)]
  | None => match pol with PNull => [(k, JNull)] | PAbsent => [] end
  end.
(* members that do not apply to this kind of type *)
Definition not_applicable (pol : policy) (ks : list string) : list (string * json) :=
  match pol with PNull => map (fun k => (k, JNull)) ks | PAbsent => [] end.

Definition kind_name (t : type_def) : string :=
  match t with
  | TDScalar _ => "SCALAR" | TDObject _ _ _ => "OBJECT" | TDInterface _ _ _ => "INTERFACE"
  | TDUnion _ _ => "UNION" | TDEnum _ _ => "ENUM" | TDInputObject _ _ => "INPUT_OBJECT"
  end.
Definition kind_of (s : sdocument) (n : name) : string :=
  match type_by_name s n with Some t => kind_name t | None => "SCALAR" end.

Fixpoint render_type_ref (pol : policy) (s : sdocument) (t : ty) : json :=
  match t with
  | TNamed n =>
      JObj (List.app [("kind", JStr (kind_of s n)); ("name", JStr n)] (opt_member pol "ofType" None))
  | TList c => JObj [("kind", JStr "LIST"); ("name", JNull); ("ofType", render_type_ref pol s c)]
  | TNonNull c => JObj [("kind", JStr "NON_NULL"); ("name", JNull); ("ofType", render_type_ref pol s c)]
  end.

Definition render_named (kind : string) (n : name) : json :=
  JObj [("kind", JStr kind); ("name", JStr n); ("ofType", JNull)].

Definition render_input_value (pol : policy) (s : sdocument) (iv : input_value_def) : json :=
  JObj (List.app [("name", JStr (iv_name iv))]
       (List.app (opt_member pol "description" None)
       (List.app [("type", render_type_ref pol s (iv_type iv))]
       (List.app (opt_member pol "defaultValue" (opt_map JStr (default_text iv)))
       (List.app (opt_member pol "isDeprecated" (match pol with PNull => Some (JBool false) | PAbsent => None end))
                 (opt_member pol "deprecationReason" None)))))).

Definition render_field (pol : policy) (s : sdocument) (f : field_def) : json :=
  JObj (List.app [("name", JStr (fd_name f))]
       (List.app (opt_member pol "description" None)
       (List.app [("args", JArr (map (render_input_value pol s) (fd_args f)));
                  ("type", render_type_ref pol s (fd_type f));
                  ("isDeprecated", JBool false)]
                 (opt_member pol "deprecationReason" None)))).

Definition render_enum_value (pol : policy) (v : name) : json :=
  JObj (List.app [("name", JStr v)]
       (List.app (opt_member pol "description" None)
       (List.app [("isDeprecated", JBool false)]
                 (opt_member pol "deprecationReason" None)))).

Definition render_type (pol : policy) (s : sdocument) (t : type_def) : json :=
  let head := List.app [("kind", JStr (kind_name t)); ("name", JStr (td_name t))]
                       (opt_member pol "description" None) in
  match t with
  | TDScalar _ =>
      JObj (List.app head
           (List.app (opt_member pol "specifiedByURL" None)
                     (not_applicable pol ["fields"; "interfaces"; "possibleTypes"; "enumValues"; "inputFields"])))
  | TDObject _ ifs fs =>
      JObj (List.app head
           (List.app [("fields", JArr (map (render_field pol s) fs));
                      ("interfaces", JArr (map (render_named "INTERFACE") ifs))]
                     (not_applicable pol ["possibleTypes"; "enumValues"; "inputFields"])))
  | TDInterface _ ifs fs =>
      JObj (List.app head
           (List.app [("fields", JArr (map (render_field pol s) fs))]
           (List.app (opt_member pol "interfaces"
                        (match pol, ifs with
                         | PAbsent, [] => None
                         | _, _ => Some (JArr (map (render_named "INTERFACE") ifs))
                         end))
           (List.app [("possibleTypes", JArr (map (render_named "OBJECT") (possible_object_names s t)))]
                     (not_applicable pol ["enumValues"; "inputFields"])))))
  | TDUnion _ _ =>
      JObj (List.app head
           (List.app [("possibleTypes", JArr (map (render_named "OBJECT") (possible_object_names s t)))]
                     (not_applicable pol ["fields"; "interfaces"; "enumValues"; "inputFields"])))
  | TDEnum _ vs =>
      JObj (List.app head
           (List.app [("enumValues", JArr (map (render_enum_value pol) vs))]
                     (not_applicable pol ["fields"; "interfaces"; "possibleTypes"; "inputFields"])))
  | TDInputObject _ fs =>
      JObj (List.app head
           (List.app [("inputFields", JArr (map (render_input_value pol s) fs))]
                     (not_applicable pol ["fields"; "interfaces"; "possibleTypes"; "enumValues"])))
  end.

Definition render_directive (pol : policy) (s : sdocument) (d : directive_def) : json :=
  JObj (List.app [("name", JStr (dd_name d))]
       (List.app (opt_member pol "description" None)
                 [("isRepeatable", JBool (dd_repeatable d));
                  ("locations", JArr (map (fun l => JStr (loc_name l)) (dd_locs d)));
                  ("args", JArr (map (render_input_value pol s) (dd_args d)))])).

Definition render_root (n : name) : json := JObj [("name", JStr n)].

Definition render (pol : policy) (s : sdocument) : json :=
  JObj [("__schema",
         JObj (List.app (opt_member pol "description" None)
              (List.app [("queryType", render_root (query_root_name s))]
              (List.app (opt_member pol "mutationType" (opt_map render_root (root_type_name s OpMutation)))
              (List.app (opt_member pol "subscriptionType" (opt_map render_root (root_type_name s OpSubscription)))
                        [("types", JArr (map (render_type pol s) (type_defs s)));
                         ("directives", JArr (map (render_directive pol s) (directive_defs s)))])))))].

(* ================================================================ essence / rebuild *)
Record ess_iv := mkEssIV { ei_name : name; ei_type : ty; ei_default : option string }.
Record ess_field := mkEssField { ef_name : name; ef_args : list ess_iv; ef_type : ty }.
Inductive ess_type : Type :=
| EScalar (n : name)
| EObject (n : name) (ifaces : list name) (fields : list ess_field)
| EInterface (n : name) (ifaces : list name) (fields : list ess_field)
| EUnion (n : name) (members : list name)
| EEnum (n : name) (values : list name)
| EInputObject (n : name) (fields : list ess_iv).
Record ess_directive := mkEssDirective {
  ed_name : name; ed_args : list ess_iv; ed_repeatable : bool; ed_locs : list dir_loc }.
Record essence := mkEssence {
  e_query : name; e_mutation : option name; e_subscription : option name;
  e_types : list ess_type; e_directives : list ess_directive }.

(* ... of a schema (default values as their GraphQL text) *)
Definition ess_iv_of (iv : input_value_def) : ess_iv := mkEssIV (iv_name iv) (iv_type iv) (default_text iv).
Definition ess_field_of (f : field_def) : ess_field :=
  mkEssField (fd_name f) (map ess_iv_of (fd_args f)) (fd_type f).
Definition ess_type_of (t : type_def) : ess_type :=
  match t with
  | TDScalar n => EScalar n
  | TDObject n ifs fs => EObject n ifs (map ess_field_of fs)
  | TDInterface n ifs fs => EInterface n ifs (map ess_field_of fs)
  | TDUnion n ms => EUnion n ms
  | TDEnum n vs => EEnum n vs
  | TDInputObject n fs => EInputObject n (map ess_iv_of fs)
  end.
Definition ess_directive_of (d : directive_def) : ess_directive :=
  mkEssDirective (dd_name d) (map ess_iv_of (dd_args d)) (dd_repeatable d) (dd_locs d).
Definition essence_of (s : sdocument) : essence :=
  mkEssence (query_root_name s) (root_type_name s OpMutation) (root_type_name s OpSubscription)
            (map ess_type_of (type_defs s)) (map ess_directive_of (directive_defs s)).

(* ... read back from a parsed structure *)
Fixpoint ty_of_out_ref (r : out_ref) : option ty :=
  match r with
  | OR_LIST o => match o with Some x => opt_map TList (ty_of_out_ref x) | None => None end
  | OR_NON_NULL o => match o with Some x => opt_map TNonNull (ty_of_out_ref x) | None => None end
  | OR_SCALAR n | OR_ENUM n | OR_INPUT_OBJECT n | OR_UNION n | OR_OBJECT n | OR_INTERFACE n =>
      Some (TNamed (ntr_name n))
  end.
Fixpoint ty_of_in_ref (r : in_ref) : option ty :=
  match r with
  | IR_LIST o => match o with Some x => opt_map TList (ty_of_in_ref x) | None => None end
  | IR_NON_NULL o => match o with Some x => opt_map TNonNull (ty_of_in_ref x) | None => None end
  | IR_SCALAR n | IR_ENUM n | IR_INPUT_OBJECT n => Some (TNamed (ntr_name n))
  end.

Definition rebuild_iv (x : iinput_value) : option ess_iv :=
  let* t := opt_bind (iiv_type_ref x) ty_of_in_ref in
  Some (mkEssIV (iiv_name x) t (match iiv_default_value x with Some (JStr d) => Some d | _ => None end)).
Definition rebuild_field (x : ifield) : option ess_field :=
  let* args := map_opt rebuild_iv (ifd_args x) in
  let* t := ty_of_out_ref (ifd_type_ref x) in
  Some (mkEssField (ifd_name x) args t).
Definition rebuild_type (t : itype) : option ess_type :=
  match t with
  | T_SCALAR x => Some (EScalar (isc_name x))
  | T_OBJECT x =>
      let* fs := map_opt rebuild_field (iob_fields x) in
      Some (EObject (iob_name x) (map ntr_name (iob_interfaces x)) fs)
  | T_INTERFACE x =>
      let* fs := map_opt rebuild_field (iif_fields x) in
      Some (EInterface (iif_name x)
                       (match iif_interfaces x with Some l => map ntr_name l | None => [] end) fs)
  | T_UNION x => Some (EUnion (iun_name x) (map ntr_name (iun_possible_types x)))
  | T_ENUM x => Some (EEnum (ien_name x) (map iev_name (ien_enum_values x)))
  | T_INPUT_OBJECT x =>
      let* fs := map_opt rebuild_iv (iio_input_fields x) in
      Some (EInputObject (iio_name x) fs)
  end.
Definition rebuild_directive (x : idirective) : option ess_directive :=
  let* args := map_opt rebuild_iv (idr_args x) in
  Some (mkEssDirective (idr_name x) args
                       (match idr_is_repeatable x with Some b => b | None => false end)
                       (idr_locations x)).
Definition rebuild (q : introspection_query) : option essence :=
  let sc := iq_schema q in
  let* ts := map_opt rebuild_type (isch_types sc) in
  let* ds := map_opt rebuild_directive (isch_directives sc) in
  Some (mkEssence (ntr_name (isch_query_type sc))
                  (opt_map ntr_name (isch_mutation_type sc))
                  (opt_map ntr_name (isch_subscription_type sc)) ts ds).

(* the possible types of each abstract type, as names: derived information that the structure
   must carry as well *)
Definition possible_of (q : introspection_query) : list (string * list string) :=
  flat_map (fun t => match t with
                     | T_INTERFACE x => [(iif_name x, map ntr_name (iif_possible_types x))]
                     | T_UNION x => [(iun_name x, map ntr_name (iun_possible_types x))]
                     | _ => []
                     end) (isch_types (iq_schema q)).
Definition possible_of_schema (s : sdocument) : list (string * list string) :=
  flat_map (fun t => match t with
                     | TDInterface n _ _ | TDUnion n _ => [(n, possible_object_names s t)]
                     | _ => []
                     end) (type_defs s).

(* ================================================================ shape (necessary condition) *)
(* the outermost shape every accepted tree has: an object with exactly one "__schema" member (or
   the one-element positional form), whose value is an object with exactly one "queryType", one
   array "types", one array "directives" and no repeated optional member (or the six-element
   positional form) *)
Definition count_key (k : string) (es : list (string * json)) : nat :=
  List.length (filter (fun kv => String.eqb k (fst kv)) es).
Definition member (k : string) (es : list (string * json)) : option json :=
  match filter (fun kv => String.eqb k (fst kv)) es with [(_, v)] => Some v | _ => None end.
Definition is_array (o : option json) : bool := match o with Some (JArr _) => true | _ => false end.
Definition schema_shape (j : json) : bool :=
  match j with
  | JObj es =>
      is_some (member "queryType" es) && is_array (member "types" es) && is_array (member "directives" es) &&
      Nat.leb (count_key "description" es) 1 && Nat.leb (count_key "mutationType" es) 1 &&
      Nat.leb (count_key "subscriptionType" es) 1
  | JArr l => Nat.eqb (List.length l) 6
  | _ => false
  end.
Definition has_shape (j : json) : bool :=
  match j with
  | JObj es => match member "__schema" es with Some sj => schema_shape sj | None => false end
  | JArr [sj] => schema_shape sj
  | _ => false
  end.

(* Annot.v — what the schema prescribes at every syntactic position of a document, as an
   environment-passing traversal: the environment (current output type and its literal, parent
   type, field definition, expected input type and its literal) is an argument, not a stack.
   Written from the GraphQL specification (October 2021): §3.3 root operation types, §5.3
   field selections, §5.5 fragments, §5.6 values / input coercion positions. *)
From GT Require Import Visitor.

Definition env := answers.
Definition env0 : env := mkAnswers None None None None None None.

Definition lookup_named (s : sdocument) (t : option ty) : option type_def :=
  opt_bind t (fun t => type_by_name s (inner_type t)).

(* an output position of (declared) type t *)
Definition at_type (s : sdocument) (e : env) (t : option ty) : env :=
  mkAnswers (lookup_named s t) t (a_parent e) (a_field e) (a_input e) (a_input_lit e).
(* inside a selection set: the enclosing type becomes the parent type *)
Definition in_selection_set (e : env) : env :=
  mkAnswers (a_type e) (a_type_lit e) (a_type e) (a_field e) (a_input e) (a_input_lit e).
(* inside a field: its definition (if any) is the current field *)
Definition in_field (e : env) (f : option field_def) : env :=
  mkAnswers (a_type e) (a_type_lit e) (a_parent e) f (a_input e) (a_input_lit e).
(* an input position expecting type t *)
Definition expecting (s : sdocument) (e : env) (t : option ty) : env :=
  mkAnswers (a_type e) (a_type_lit e) (a_parent e) (a_field e) (lookup_named s t) t.

(* §3.3: the root operation type of each kind *)
Definition default_root_name (k : op_kind) : name :=
  match k with
  | OpQuery | OpSelSet => "Query" | OpMutation => "Mutation" | OpSubscription => "Subscription"
  end.
Definition root_name (s : sdocument) (k : op_kind) : option name :=
  match find_schema_def s with
  | Some sd => match k with
               | OpQuery | OpSelSet => sd_query sd
               | OpMutation => sd_mutation sd
               | OpSubscription => sd_subscription sd
               end
  | None => Some (default_root_name k)
  end.
Definition root (s : sdocument) (k : op_kind) : option type_def :=
  opt_bind (root_name s k) (object_type_by_name s).

(* item type of a list position: [T] and [T]! both expect items of type T *)
Definition item_type (t : option ty) : option ty :=
  match t with
  | Some (TList i) => Some i
  | Some (TNonNull (TList i)) => Some i
  | _ => None
  end.

(* type of input field k of the input object expected at this position (a lone object where a
   list of input objects is expected is typed as an item, hence inner_type) *)
Definition input_field_type (s : sdocument) (t : option ty) (k : name) : option ty :=
  opt_map iv_type (opt_bind (lookup_named s t) (fun td => input_field_by_name td k)).

Definition aev := (event * env)%type.

Fixpoint annot_value (s : sdocument) (v : value) (e : env) : list aev :=
  match v with
  | VBool _ | VFloat _ | VInt _ | VString _ => [(Enter (NScalar v), e); (Leave (NScalar v), e)]
  | VNull => [(Enter NNull, e); (Leave NNull, e)]
  | VEnum n => [(Enter (NEnum n), e); (Leave (NEnum n), e)]
  | VVar n => [(Enter (NVariable n), e); (Leave (NVariable n), e)]
  | VList l =>
      (Enter (NList l), e) ::
      flat_map (fun x => annot_value s x (expecting s e (item_type (a_input_lit e)))) l ++
      [(Leave (NList l), e)]
  | VObject l =>
      (Enter (NObject l), e) ::
      flat_map (fun kv : name * value =>
                  let e' := expecting s e (input_field_type s (a_input_lit e) (fst kv)) in
                  (Enter (NObjectField kv), e') :: annot_value s (snd kv) e' ++ [(Leave (NObjectField kv), e')]) l ++
      [(Leave (NObject l), e)]
  end.

Definition declared_arg_type (decls : option (list input_value_def)) (a : name) : option ty :=
  opt_map iv_type (opt_bind decls (fun ds => find_first (fun x => name_eqb (iv_name x) a) ds)).

Definition annot_arguments (s : sdocument) (decls : option (list input_value_def))
           (args : list argument) (e : env) : list aev :=
  flat_map (fun a : argument =>
              let e' := expecting s e (declared_arg_type decls (fst a)) in
              (Enter (NArgument a), e') :: annot_value s (snd a) e' ++ [(Leave (NArgument a), e')]) args.

Definition annot_directives (s : sdocument) (dirs : list directive) (e : env) : list aev :=
  flat_map (fun d : directive =>
              (Enter (NDirective d), e) ::
              annot_arguments s (opt_map dd_args (directive_by_name s (d_name d))) (d_args d) e ++
              [(Leave (NDirective d), e)]) dirs.

Definition annot_vardefs (s : sdocument) (vars : list vardef) (e : env) : list aev :=
  flat_map (fun v : vardef =>
              let e' := expecting s e (Some (v_type v)) in
              (Enter (NVarDef v), e') ::
              match v_default v with Some dv => annot_value s dv e' | None => [] end ++
              [(Leave (NVarDef v), e')]) vars.

Fixpoint annot_selection (s : sdocument) (x : selection) (e : env) : list aev :=
  match x with
  | SField p al n args dirs sp sels =>
      let fdef := opt_bind (a_parent e) (fun t => field_by_name t n) in
      let e1 := at_type s e (opt_map fd_type fdef) in       (* the field itself *)
      let e2 := in_field e1 fdef in                         (* its arguments, directives ... *)
      let e3 := in_selection_set e2 in                      (* ... and sub-selection *)
      (Enter (NField x), e1) ::
      annot_arguments s (opt_map fd_args fdef) args e2 ++
      annot_directives s dirs e2 ++
      (Enter (NSelectionSet sp sels), e3) ::
      flat_map (fun y => annot_selection s y e3) sels ++
      [(Leave (NSelectionSet sp sels), e3); (Leave (NField x), e1)]
  | SSpread p n dirs =>
      (Enter (NSpread x), e) :: annot_directives s dirs e ++ [(Leave (NSpread x), e)]
  | SInline p tc dirs sp sels =>
      let e1 := match tc with Some cond => at_type s e (Some (TNamed cond)) | None => e end in
      let e3 := in_selection_set e1 in
      (Enter (NInline x), e1) ::
      annot_directives s dirs e1 ++
      (Enter (NSelectionSet sp sels), e3) ::
      flat_map (fun y => annot_selection s y e3) sels ++
      [(Leave (NSelectionSet sp sels), e3); (Leave (NInline x), e1)]
  end.

Definition annot_selection_set (s : sdocument) (sp : span) (sels : list selection) (e : env) : list aev :=
  let e3 := in_selection_set e in
  (Enter (NSelectionSet sp sels), e3) :: flat_map (fun y => annot_selection s y e3) sels ++
  [(Leave (NSelectionSet sp sels), e3)].

Definition annot_definition (s : sdocument) (x : definition) (e : env) : list aev :=
  match x with
  | DOp o =>
      let e1 := at_type s e (opt_map (fun t => TNamed (td_name t)) (root s (o_kind o))) in
      (Enter (NOperation o), e1) ::
      annot_directives s (op_directives o) e1 ++ annot_vardefs s (op_variable_definitions o) e1 ++
      annot_selection_set s (o_span o) (o_sels o) e1 ++ [(Leave (NOperation o), e1)]
  | DFrag f =>
      let e1 := at_type s e (Some (TNamed (fr_tc f))) in
      (Enter (NFragmentDef f), e1) ::
      annot_directives s (fr_dirs f) e1 ++ annot_selection_set s (fr_span f) (fr_sels f) e1 ++
      [(Leave (NFragmentDef f), e1)]
  end.

Definition annot (s : sdocument) (d : document) : list aev :=
  (Enter (NDocument d), env0) :: flat_map (fun x => annot_definition s x env0) d ++
  [(Leave (NDocument d), env0)].

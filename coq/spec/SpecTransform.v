(* SpecTransform.v — specification of the operation transformer (property C17), written without
   any Keep / Replace bookkeeping and without state threading.

   A transformer of the modelled class is a record [H : hooks St] (Transformer.v): [pre H] logs
   a hook call, and [rw_X H : X -> option X] says whether hook X replaces the node it is handed.
   What the transformer is supposed to do is described by three independent definitions:

   * [smap_document H d]       what the resulting document is: the eager, bottom-up structural
                               map — rebuild every node from its mapped children, then let the
                               node's hook rewrite the rebuilt node;
   * [hook_calls d]            which hook calls are made, and in which order: a pre-order
                               enumeration of the ORIGINAL nodes, children in the code's order;
   * [rewrites_somewhere H d]  whether anything at all is rewritten during the eager map (a
                               fragment spread counts: the default method always rebuilds it).

   [thread f l st] is the plain left-to-right run of an item transformer over a list, used to
   state what [transform_list] does for an arbitrary item function. *)
From GT Require Export Transformer.

(* apply a hook's rewriting decision to the node it is handed *)
Definition rewrite {A} (rw : A -> option A) (x : A) : A :=
  match rw x with Some y => y | None => x end.

(* does the hook replace the node it is handed? *)
Definition fires {A} (rw : A -> option A) (x : A) : bool :=
  match rw x with Some _ => true | None => false end.

(* ------------------------------------------------------------------------------------------ *)
(* 1. the result: the eager structural map                                                     *)
(* ------------------------------------------------------------------------------------------ *)
Section SMap.
  Variable St : Type.
  Variable H : hooks St.

  (* values are leaves for the transformer: the value hook sees argument values and variable
     default values, and the default method does not descend into list / object values *)
  Definition smap_value (v : value) : value := rewrite (rw_value H) v.

  Definition smap_argument (a : argument) : argument :=
    rewrite (rw_argument H) (fst a, smap_value (snd a)).

  Definition smap_directive (d : directive) : directive :=
    rewrite (rw_directive H) (mkDirective (d_pos d) (d_name d) (map smap_argument (d_args d))).

  Definition smap_vardef (v : vardef) : vardef :=
    rewrite (rw_vardef H)
      (mkVardef (v_pos v) (v_name v) (v_type v)
                (match v_default v with Some dv => Some (smap_value dv) | None => None end)).

  (* a selection set (the list of selections of a field / inline fragment / operation / fragment
     definition) is mapped element-wise and then handed to the selection-set hook *)
  Fixpoint smap_selection (x : selection) : selection :=
    match x with
    | SField p al n args dirs sp sels =>
        rewrite (rw_field H)
          (SField p al n (map smap_argument args) (map smap_directive dirs) sp
                  (rewrite (rw_selection_set H) (map smap_selection sels)))
    | SSpread p n dirs =>
        rewrite (rw_spread H) (SSpread p n (map smap_directive dirs))
    | SInline p tc dirs sp sels =>
        rewrite (rw_inline H)
          (SInline p tc (map smap_directive dirs) sp
                   (rewrite (rw_selection_set H) (map smap_selection sels)))
    end.

  Definition smap_selection_set (sels : list selection) : list selection :=
    rewrite (rw_selection_set H) (map smap_selection sels).

  (* the bare `{ ... }` short-hand (OpSelSet) consists of its selection set only *)
  Definition smap_operation (o : operation) : operation :=
    rewrite (rw_operation H)
      (match o_kind o with
       | OpSelSet =>
           mkOperation OpSelSet (o_pos o) (o_name o) (o_vars o) (o_dirs o) (o_span o)
                       (smap_selection_set (o_sels o))
       | k =>
           mkOperation k (o_pos o) (o_name o) (map smap_vardef (o_vars o))
                       (map smap_directive (o_dirs o)) (o_span o) (smap_selection_set (o_sels o))
       end).

  Definition smap_fragment (f : fragment_def) : fragment_def :=
    rewrite (rw_fragment H)
      (mkFragment (fr_pos f) (fr_name f) (fr_tc f) (map smap_directive (fr_dirs f)) (fr_span f)
                  (smap_selection_set (fr_sels f))).

  (* a definition wraps an operation or a fragment definition: the inner hook first, then the
     definition hook on the re-wrapped result *)
  Definition smap_definition (x : definition) : definition :=
    rewrite (rw_definition H)
      (match x with
       | DOp o => DOp (smap_operation o)
       | DFrag f => DFrag (smap_fragment f)
       end).

  Definition smap_document (d : document) : document := map smap_definition d.

  (* ---------------------------------------------------------------------------------------- *)
  (* 3. does the eager map rewrite anything?  [rws_X x]: below or at [x], some hook replaces   *)
  (*    the (rebuilt) node it is handed, or there is a fragment spread                          *)
  (* ---------------------------------------------------------------------------------------- *)
  Definition rws_value (v : value) : bool := fires (rw_value H) v.

  Definition rws_argument (a : argument) : bool :=
    rws_value (snd a) || fires (rw_argument H) (fst a, smap_value (snd a)).

  Definition rws_directive (d : directive) : bool :=
    existsb rws_argument (d_args d)
    || fires (rw_directive H) (mkDirective (d_pos d) (d_name d) (map smap_argument (d_args d))).

  Definition rws_vardef (v : vardef) : bool :=
    match v_default v with Some dv => rws_value dv | None => false end
    || fires (rw_vardef H)
         (mkVardef (v_pos v) (v_name v) (v_type v)
                   (match v_default v with Some dv => Some (smap_value dv) | None => None end)).

  Fixpoint rws_selection (x : selection) : bool :=
    match x with
    | SField p al n args dirs sp sels =>
        (existsb rws_selection sels || fires (rw_selection_set H) (map smap_selection sels))
        || existsb rws_argument args
        || existsb rws_directive dirs
        || fires (rw_field H)
             (SField p al n (map smap_argument args) (map smap_directive dirs) sp
                     (smap_selection_set sels))
    | SSpread p n dirs => true                 (* the default method always rebuilds a spread *)
    | SInline p tc dirs sp sels =>
        (existsb rws_selection sels || fires (rw_selection_set H) (map smap_selection sels))
        || existsb rws_directive dirs
        || fires (rw_inline H)
             (SInline p tc (map smap_directive dirs) sp (smap_selection_set sels))
    end.

  Definition rws_selection_set (sels : list selection) : bool :=
    existsb rws_selection sels || fires (rw_selection_set H) (map smap_selection sels).

  Definition rws_operation (o : operation) : bool :=
    match o_kind o with
    | OpSelSet =>
        rws_selection_set (o_sels o)
        || fires (rw_operation H)
             (mkOperation OpSelSet (o_pos o) (o_name o) (o_vars o) (o_dirs o) (o_span o)
                          (smap_selection_set (o_sels o)))
    | k =>
        rws_selection_set (o_sels o)
        || existsb rws_directive (o_dirs o)
        || existsb rws_vardef (o_vars o)
        || fires (rw_operation H)
             (mkOperation k (o_pos o) (o_name o) (map smap_vardef (o_vars o))
                          (map smap_directive (o_dirs o)) (o_span o) (smap_selection_set (o_sels o)))
    end.

  Definition rws_fragment (f : fragment_def) : bool :=
    rws_selection_set (fr_sels f)
    || existsb rws_directive (fr_dirs f)
    || fires (rw_fragment H)
         (mkFragment (fr_pos f) (fr_name f) (fr_tc f) (map smap_directive (fr_dirs f)) (fr_span f)
                     (smap_selection_set (fr_sels f))).

  Definition rws_definition (x : definition) : bool :=
    match x with
    | DOp o => rws_operation o || fires (rw_definition H) (DOp (smap_operation o))
    | DFrag f => rws_fragment f || fires (rw_definition H) (DFrag (smap_fragment f))
    end.

  Definition rewrites_somewhere (d : document) : bool := existsb rws_definition d.

  (* the transformer with nothing overridden: no hook ever replaces anything *)
  Definition no_rewrites : Prop :=
    (forall x, rw_definition H x = None) /\
    (forall x, rw_operation H x = None) /\
    (forall x, rw_fragment H x = None) /\
    (forall x, rw_selection_set H x = None) /\
    (forall x, rw_field H x = None) /\
    (forall x, rw_spread H x = None) /\
    (forall x, rw_inline H x = None) /\
    (forall x, rw_directive H x = None) /\
    (forall x, rw_argument H x = None) /\
    (forall x, rw_value H x = None) /\
    (forall x, rw_vardef H x = None).
End SMap.

Arguments smap_value {St} H v.
Arguments smap_argument {St} H a.
Arguments smap_directive {St} H d.
Arguments smap_vardef {St} H v.
Arguments smap_selection {St} H x.
Arguments smap_selection_set {St} H sels.
Arguments smap_operation {St} H o.
Arguments smap_fragment {St} H f.
Arguments smap_definition {St} H x.
Arguments smap_document {St} H d.
Arguments rws_value {St} H v.
Arguments rws_argument {St} H a.
Arguments rws_directive {St} H d.
Arguments rws_vardef {St} H v.
Arguments rws_selection {St} H x.
Arguments rws_selection_set {St} H sels.
Arguments rws_operation {St} H o.
Arguments rws_fragment {St} H f.
Arguments rws_definition {St} H x.
Arguments rewrites_somewhere {St} H d.
Arguments no_rewrites {St} H.

(* ------------------------------------------------------------------------------------------ *)
(* 2. the hook calls, in order (they do not depend on the hooks): each node is announced        *)
(*    before its children; the node announced is the original one                              *)
(* ------------------------------------------------------------------------------------------ *)
Definition calls_value (v : value) : list hnode := [HValue v].

Definition calls_argument (a : argument) : list hnode := HArgument a :: calls_value (snd a).

Definition calls_directive (d : directive) : list hnode :=
  HDirective d :: flat_map calls_argument (d_args d).

Definition calls_vardef (v : vardef) : list hnode :=
  HVarDef v :: match v_default v with Some dv => calls_value dv | None => [] end.

Fixpoint calls_selection (x : selection) : list hnode :=
  match x with
  | SField p al n args dirs sp sels =>
      HField x
      :: (HSelectionSet sels :: flat_map calls_selection sels)
      ++ flat_map calls_argument args
      ++ flat_map calls_directive dirs
  | SSpread p n dirs =>
      HSpread x :: flat_map calls_directive dirs
  | SInline p tc dirs sp sels =>
      HInline x
      :: (HSelectionSet sels :: flat_map calls_selection sels)
      ++ flat_map calls_directive dirs
  end.

Definition calls_selection_set (sels : list selection) : list hnode :=
  HSelectionSet sels :: flat_map calls_selection sels.

Definition calls_operation (o : operation) : list hnode :=
  HOperation o
  :: match o_kind o with
     | OpSelSet => calls_selection_set (o_sels o)
     | _ => calls_selection_set (o_sels o)
            ++ flat_map calls_directive (o_dirs o)
            ++ flat_map calls_vardef (o_vars o)
     end.

Definition calls_fragment (f : fragment_def) : list hnode :=
  HFragment f :: calls_selection_set (fr_sels f) ++ flat_map calls_directive (fr_dirs f).

Definition calls_definition (x : definition) : list hnode :=
  HDefinition x
  :: match x with
     | DOp o => calls_operation o
     | DFrag f => calls_fragment f
     end.

Definition hook_calls (d : document) : list hnode := flat_map calls_definition d.

(* ------------------------------------------------------------------------------------------ *)
(* the list combinator, for an arbitrary item transformer [f]: run [f] over the items from      *)
(* left to right, threading the state, and collect the per-item results                         *)
(* ------------------------------------------------------------------------------------------ *)
Fixpoint thread {St A} (f : A -> St -> St * tr A) (l : list A) (st : St) : St * list (tr A) :=
  match l with
  | [] => (st, [])
  | x :: r =>
      let '(st1, rx) := f x st in
      let '(st2, rs) := thread f r st1 in
      (st2, rx :: rs)
  end.

(* the items after the run: item by item, the replacement if there is one, else the item *)
Definition patched {A} (l : list A) (rs : list (tr A)) : list A :=
  map (fun xr => replace_or (fst xr) (snd xr)) (combine l rs).

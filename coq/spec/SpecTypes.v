(* SpecTypes.v — the specification's type-system relations behind the helper queries of
   src/ast/ext.rs (spec §3 type system, §5.5.2.3 possible types, §5.8.5 subtyping as used by
   graphql-js isTypeSubTypeOf), as inductive / declarative definitions. *)
From GT Require Import Ext.
From GTS Require Import Annot.

(* t is a definition of schema s *)
Definition defines (s : sdocument) (t : type_def) : Prop := In (SDType t) s.

(* x is a member of union y, or declares that it implements interface y *)
Definition member_or_implementer (s : sdocument) (x y : name) : Prop :=
  exists tx ty, defines s tx /\ defines s ty /\ td_name tx = x /\ td_name ty = y /\
    match ty with
    | TDUnion _ members => In x members
    | TDInterface _ _ _ => In y (td_interfaces tx)
    | _ => False
    end.

(* same list structure, non-null only strengthened, named type equal or member/implementer *)
Inductive subtype_spec (s : sdocument) : ty -> ty -> Prop :=
| st_refl t : subtype_spec s t t
| st_nonnull_both a b : subtype_spec s a b -> subtype_spec s (TNonNull a) (TNonNull b)
| st_nonnull_left a b : is_non_null b = false -> subtype_spec s a b -> subtype_spec s (TNonNull a) b
| st_list a b : subtype_spec s a b -> subtype_spec s (TList a) (TList b)
| st_named x y :
    (exists tx, defines s tx /\ td_name tx = x /\ (td_is_object tx = true \/ td_is_interface tx = true)) ->
    member_or_implementer s x y -> subtype_spec s (TNamed x) (TNamed y).

(* the object types an interface / union stands for *)
Definition possible_object (s : sdocument) (t o : type_def) : Prop :=
  defines s o /\ td_is_object o = true /\
  match t with
  | TDInterface n _ _ => In n (td_interfaces o)
  | TDUnion _ members => In (td_name o) members
  | _ => False
  end.

(* the set of object types a composite type can be at run time *)
Definition runtime_object (s : sdocument) (t o : type_def) : Prop :=
  (td_is_object t = true /\ o = t) \/ possible_object s t o.

Definition overlap_spec (s : sdocument) (a b : type_def) : Prop :=
  td_name a = td_name b \/ exists o, runtime_object s a o /\ runtime_object s b o.

(* values as trees: structural equality, floats compared as numbers *)
Inductive value_eq : value -> value -> Prop :=
| ve_var x : value_eq (VVar x) (VVar x)
| ve_int z : value_eq (VInt z) (VInt z)
| ve_float a b : float_bits_eqb a b = true -> value_eq (VFloat a) (VFloat b)
| ve_string x : value_eq (VString x) (VString x)
| ve_bool b : value_eq (VBool b) (VBool b)
| ve_null : value_eq VNull VNull
| ve_enum x : value_eq (VEnum x) (VEnum x)
| ve_list l l' : Forall2 value_eq l l' -> value_eq (VList l) (VList l')
| ve_object l l' :
    Forall2 (fun kv kv' : name * value => fst kv = fst kv' /\ value_eq (snd kv) (snd kv')) l l' ->
    value_eq (VObject l) (VObject l').

(* x is a variable leaf of v *)
Inductive var_leaf (x : name) : value -> Prop :=
| vl_var : var_leaf x (VVar x)
| vl_list l v : In v l -> var_leaf x v -> var_leaf x (VList l)
| vl_object l k v : In (k, v) l -> var_leaf x v -> var_leaf x (VObject l).

(* WfSchema.v — "self-contained, well-formed schema" (the hypothesis of most properties):
   unique type/directive/field/argument/enum-value names, every referenced type declared and of
   the right kind, a query root object type, union members are objects, interfaces declared
   (transitively) and implemented covariantly, no type extensions, at most one schema definition
   which names its query root. *)
From GT Require Import Ext.
From GTS Require Import Annot.

Definition schema_defs (s : sdocument) : list schema_def :=
  flat_map (fun x => match x with SDSchema d => [d] | _ => [] end) s.
Definition directive_defs (s : sdocument) : list directive_def :=
  flat_map (fun x => match x with SDDirective d => [d] | _ => [] end) s.

Definition is_output_named (s : sdocument) (n : name) : bool :=
  match type_by_name s n with
  | Some t => negb (match t with TDInputObject _ _ => true | _ => false end)
  | None => false
  end.
Definition is_input_named (s : sdocument) (n : name) : bool :=
  match type_by_name s n with Some t => td_is_input t | None => false end.

Definition wf_input_values (s : sdocument) (ivs : list input_value_def) : bool :=
  nodup_names (map iv_name ivs) && forallb (fun iv => is_input_named s (inner_type (iv_type iv))) ivs.

Definition wf_fields (s : sdocument) (fs : list field_def) : bool :=
  nodup_names (map fd_name fs) &&
  forallb (fun f => is_output_named s (inner_type (fd_type f)) && wf_input_values s (fd_args f)) fs.

Definition is_interface_named (s : sdocument) (n : name) : bool :=
  match type_by_name s n with Some (TDInterface _ _ _) => true | _ => false end.

(* every field of interface [i] is present on the implementer with a covariant type and at
   least the same arguments (same types) *)
Definition implements_fields (s : sdocument) (impl_fields iface_fields : list field_def) : bool :=
  forallb (fun fi =>
             match find_first (fun f => name_eqb (fd_name f) (fd_name fi)) impl_fields with
             | Some f =>
                 is_subtype s (fd_type f) (fd_type fi) &&
                 forallb (fun ai => match find_first (fun a => name_eqb (iv_name a) (iv_name ai)) (fd_args f) with
                                    | Some a => ty_eqb (iv_type a) (iv_type ai)
                                    | None => false
                                    end) (fd_args fi)
             | None => false
             end) iface_fields.

Definition wf_implements (s : sdocument) (ifaces : list name) (fields : list field_def) : bool :=
  nodup_names ifaces &&
  forallb (fun i =>
             match type_by_name s i with
             | Some (TDInterface _ super fs) =>
                 implements_fields s fields fs &&
                 forallb (fun j => mem_name j ifaces) super      (* transitively declared *)
             | _ => false
             end) ifaces.

Definition wf_type (s : sdocument) (t : type_def) : bool :=
  match t with
  | TDObject n ifaces fs => wf_fields s fs && wf_implements s ifaces fs
  | TDInterface n ifaces fs => wf_fields s fs && wf_implements s ifaces fs && negb (mem_name n ifaces)
  | TDUnion _ types =>
      nodup_names types &&
      forallb (fun m => match type_by_name s m with Some (TDObject _ _ _) => true | _ => false end) types
  | TDScalar _ => true
  | TDEnum _ vs => nodup_names vs
  | TDInputObject _ fs => wf_input_values s fs
  end.

Definition query_entry_ok (s : sdocument) : bool :=
  match find_schema_def s with Some sd => is_some (sd_query sd) | None => true end.

Definition root_entry_ok (s : sdocument) (k : op_kind) : bool :=
  match root_name s k with
  | Some n => is_some (object_type_by_name s n) || negb (match find_schema_def s with Some _ => true | None => false end)
  | None => true
  end.

(* every type reference written in the schema is expressible in the grammar (no "T!!") *)
Definition ivs_proper (ivs : list input_value_def) : bool := forallb (fun iv => ty_proper (iv_type iv)) ivs.
Definition fields_proper (fs : list field_def) : bool :=
  forallb (fun f => ty_proper (fd_type f) && ivs_proper (fd_args f)) fs.
Definition type_proper (t : type_def) : bool :=
  match t with
  | TDObject _ _ fs | TDInterface _ _ fs => fields_proper fs
  | TDInputObject _ fs => ivs_proper fs
  | _ => true
  end.
Definition schema_types_proper (s : sdocument) : bool :=
  forallb type_proper (type_defs s) && forallb (fun d => ivs_proper (dd_args d)) (directive_defs s).

(* the same for the variable types of a document *)
Definition doc_types_proper (d : document) : bool :=
  forallb (fun o => forallb (fun v => ty_proper (v_type v)) (op_variable_definitions o)) (operations_of d).

Definition wf_schema (s : sdocument) : bool :=
  nodup_names (map td_name (type_defs s)) &&
  nodup_names (map dd_name (directive_defs s)) &&
  forallb (fun x => match x with SDTypeExt _ => false | _ => true end) s &&
  (Nat.leb (List.length (schema_defs s)) 1) &&
  query_entry_ok s &&
  is_some (root s OpQuery) &&
  root_entry_ok s OpMutation && root_entry_ok s OpSubscription &&
  forallb (wf_type s) (type_defs s) &&
  forallb (fun d => wf_input_values s (dd_args d)) (directive_defs s) &&
  schema_types_proper s.

Lemma wf_types_proper s : wf_schema s = true -> schema_types_proper s = true.
Proof.
  unfold wf_schema. intro H. apply andb_prop in H. destruct H as [_ H]. exact H.
Qed.
Lemma wf_directive_args s : wf_schema s = true ->
  forallb (fun d => wf_input_values s (dd_args d)) (directive_defs s) = true.
Proof.
  unfold wf_schema. intro H. apply andb_prop in H. destruct H as [H _].
  repeat (apply andb_prop in H; destruct H as [H ?]). assumption.
Qed.
Lemma wf_unique_directives s : wf_schema s = true -> nodup_names (map dd_name (directive_defs s)) = true.
Proof.
  unfold wf_schema. intro H. repeat (apply andb_prop in H; destruct H as [H ?]). assumption.
Qed.

Lemma wf_query_entry_ok s : wf_schema s = true -> query_entry_ok s = true.
Proof.
  unfold wf_schema. intro H. repeat (apply andb_prop in H; destruct H as [H ?]). assumption.
Qed.
Lemma wf_query_root s : wf_schema s = true -> is_some (root s OpQuery) = true.
Proof.
  unfold wf_schema. intro H. repeat (apply andb_prop in H; destruct H as [H ?]). assumption.
Qed.
Lemma wf_unique_types s : wf_schema s = true -> nodup_names (map td_name (type_defs s)) = true.
Proof.
  unfold wf_schema. intro H. repeat (apply andb_prop in H; destruct H as [H ?]). assumption.
Qed.
Lemma wf_types s : wf_schema s = true -> forallb (wf_type s) (type_defs s) = true.
Proof.
  unfold wf_schema. intro H. repeat (apply andb_prop in H; destruct H as [H ?]). assumption.
Qed.

(* SpecRules.v — one boolean predicate per implemented validation rule, written from the
   GraphQL specification (October 2021, section 5) over the environment-passing annotation
   [annot] and plain structural recursion: no visitor state, no stacks, no memo tables.
   [violated r s d = true] means: document d violates the specification condition behind rule r
   with respect to schema s.  These predicates are the oracle of the checks and the right-hand
   sides of the per-rule theorems. *)
From GT Require Import Visitor Validate.
From GTS Require Import Annot SpecCollect.

(* ---------------------------------------------------------------- structure helpers *)
Fixpoint sel_all (x : selection) : list selection :=            (* x and every selection below it *)
  x :: match x with
       | SField _ _ _ _ _ _ ss | SInline _ _ _ _ ss => flat_map sel_all ss
       | SSpread _ _ _ => []
       end.
Definition sels_all (l : list selection) : list selection := flat_map sel_all l.
Definition def_sels (x : definition) : list selection :=
  match x with DOp o => o_sels o | DFrag f => fr_sels f end.
Definition doc_selections (d : document) : list selection := flat_map (fun x => sels_all (def_sels x)) d.

Definition spreads_in (l : list selection) : list name :=
  flat_map (fun x => match x with SSpread _ n _ => [n] | _ => [] end) (sels_all l).

Definition frag_names (d : document) : list name := map fr_name (fragments_of d).
Definition op_var_names (o : operation) : list name := map v_name (op_variable_definitions o).

(* ---------------------------------------------------------------- 5.2.1.1 / 5.2.2.1 *)
Definition named_operation_names (d : document) : list name :=
  flat_map (fun o => match op_node_name o with Some n => [n] | None => [] end) (operations_of d).
Definition v_unique_operation_names (d : document) : bool := negb (nodup_names (named_operation_names d)).

Definition v_lone_anonymous (d : document) : bool :=
  existsb (fun o => is_none (op_node_name o)) (operations_of d) && Nat.leb 2 (List.length (operations_of d)).

(* ---------------------------------------------------------------- 5.2.3.1 single root field *)
Definition is_introspection_field (f : selection) : bool :=
  match f with SField _ _ n _ _ _ _ => starts_with_dunder n | _ => false end.

Definition v_single_field_subscriptions (s : sdocument) (d : document) : bool :=
  existsb (fun o =>
             match o_kind o with
             | OpSubscription =>
                 match root s OpSubscription with
                 | Some t =>
                     let groups := spec_collect s d t (o_sels o) in
                     Nat.leb 2 (List.length groups) ||
                     existsb (fun g : name * list selection => existsb is_introspection_field (snd g)) groups
                 | None => false
                 end
             | _ => false
             end) (operations_of d).

(* ---------------------------------------------------------------- 5.5.1.2 / 5.8.2 known types *)
(* the types of the introspection system are part of every schema *)
Definition introspection_type_names : list name :=
  ["__Schema"; "__Type"; "__TypeKind"; "__Field"; "__InputValue"; "__EnumValue"; "__Directive"; "__DirectiveLocation"].
Definition type_exists (s : sdocument) (n : name) : bool :=
  is_some (type_by_name s n) || mem_name n introspection_type_names.

Definition type_conditions (d : document) : list name :=
  map fr_tc (fragments_of d) ++
  flat_map (fun x => match x with SInline _ (Some tc) _ _ _ => [tc] | _ => [] end) (doc_selections d).
Definition variable_types (d : document) : list ty :=
  flat_map (fun o => map v_type (op_variable_definitions o)) (operations_of d).

Definition v_known_type_names (s : sdocument) (d : document) : bool :=
  existsb (fun n => negb (type_exists s n)) (type_conditions d ++ map inner_type (variable_types d)).

(* 5.5.1.3 fragments on composite types *)
Definition v_fragments_on_composite (s : sdocument) (d : document) : bool :=
  existsb (fun n => match type_by_name s n with Some t => negb (td_is_composite t) | None => false end)
          (type_conditions d).

(* 5.8.2 variables are input types *)
Definition v_variables_are_input_types (s : sdocument) (d : document) : bool :=
  existsb (fun t => match type_by_name s (inner_type t) with Some td => negb (td_is_input td) | None => false end)
          (variable_types d).

(* ---------------------------------------------------------------- 5.3.1 / 5.3.3 field selections *)
Definition field_events (s : sdocument) (d : document) : list (selection * env) :=
  flat_map (fun ea : aev => match fst ea with Enter (NField f) => [(f, snd ea)] | _ => [] end) (annot s d).

(* __typename is of type String! on every composite type *)
Definition v_leaf_field_selections (s : sdocument) (d : document) : bool :=
  existsb (fun fe : selection * env =>
             let '(f, e) := fe in
             let has_sub := negb (match sel_sels f with [] => true | _ => false end) in
             match a_type e with
             | Some ft => if td_is_leaf ft then has_sub else negb has_sub
             | None => name_eqb (sel_name f) "__typename" && has_sub
             end) (field_events s d).

Definition query_root_name (s : sdocument) : option name := opt_map td_name (root s OpQuery).

(* the __typename fields at the root of a selection set: directly, or inside inline fragments without
   a type condition (which select on the same type), at any nesting depth *)
Fixpoint root_typename_fields_of (x : selection) : list selection :=
  match x with
  | SField _ _ n _ _ _ _ => if name_eqb n "__typename" then [x] else []
  | SInline _ None _ _ ss => flat_map root_typename_fields_of ss
  | SInline _ (Some _) _ _ _ => []
  | SSpread _ _ _ => []
  end.
Definition root_typename_fields (l : list selection) : list selection :=
  flat_map root_typename_fields_of l.

Definition v_fields_on_correct_type (s : sdocument) (d : document) : bool :=
  existsb (fun fe : selection * env =>
             let '(f, e) := fe in
             match a_parent e with
             | Some pt =>
                 let n := sel_name f in
                 negb (name_eqb n "__typename") &&
                 negb ((name_eqb n "__schema" || name_eqb n "__type") &&
                       match query_root_name s with Some q => name_eqb (td_name pt) q | None => false end) &&
                 is_none (field_by_name pt n)
             | None => false
             end) (field_events s d)
  ||
  (* a __typename at a subscription root (directly or through inline fragments without a type
     condition) may be reported *)
  existsb (fun o => match o_kind o with
                    | OpSubscription =>
                        match root_typename_fields (o_sels o) with [] => false | _ :: _ => true end
                    | _ => false
                    end) (operations_of d).

(* ---------------------------------------------------------------- 5.5.1.1 / 5.5.2.1 / 5.5.1.4 / 5.5.2.2 fragments *)
Definition v_unique_fragment_names (d : document) : bool := negb (nodup_names (frag_names d)).

Definition v_known_fragment_names (d : document) : bool :=
  existsb (fun n => negb (mem_name n (frag_names d))) (spreads_in (flat_map def_sels d)).

(* spreads of all definitions named n *)
Definition fragment_spreads (d : document) (n : name) : list name :=
  flat_map (fun f => if name_eqb (fr_name f) n then spreads_in (fr_sels f) else []) (fragments_of d).

(* closure of a set of fragment names under "spreads"; k rounds *)
Fixpoint spread_closure (k : nat) (d : document) (set : list name) : list name :=
  match k with
  | O => set
  | S k' => spread_closure k' d (dedup_names (set ++ flat_map (fragment_spreads d) set))
  end.

Definition reachable_from_operations (d : document) : list name :=
  spread_closure (S (List.length (fragments_of d))) d
                 (dedup_names (flat_map (fun o => spreads_in (o_sels o)) (operations_of d))).

Definition v_no_unused_fragments (d : document) : bool :=
  existsb (fun n => negb (mem_name n (reachable_from_operations d))) (frag_names d).

(* a fragment lies on a cycle iff it is reachable from its own spreads *)
Definition v_no_fragment_cycles (d : document) : bool :=
  existsb (fun n => mem_name n (spread_closure (S (List.length (fragments_of d))) d (dedup_names (fragment_spreads d n))))
          (frag_names d).

(* 5.5.2.3: the possible types of the fragment and of the enclosing type must intersect *)
Definition possible_object_names (s : sdocument) (t : type_def) : list name :=
  match t with
  | TDObject n _ _ => [n]
  | TDInterface n _ _ =>
      flat_map (fun o => match o with
                         | TDObject m ifs _ => if mem_name n ifs then [m] else []
                         | _ => [] end) (type_defs s)
  | TDUnion _ members =>
      flat_map (fun m => match type_by_name s m with Some (TDObject m' _ _) => [m'] | _ => [] end) members
  | _ => []
  end.
Definition types_can_overlap (s : sdocument) (a b : type_def) : bool :=
  name_eqb (td_name a) (td_name b) ||
  existsb (fun x => mem_name x (possible_object_names s b)) (possible_object_names s a).

Definition spread_impossible (s : sdocument) (frag_type parent : option type_def) : bool :=
  match frag_type, parent with
  | Some ft, Some pt => td_is_composite ft && td_is_composite pt && negb (types_can_overlap s ft pt)
  | _, _ => false
  end.

Definition v_possible_fragment_spreads (s : sdocument) (d : document) : bool :=
  existsb (fun ea : aev =>
             match fst ea with
             | Enter (NInline _) => spread_impossible s (a_type (snd ea)) (a_parent (snd ea))
             | Enter (NSpread (SSpread _ n _)) =>
                 match find_fragment d n with
                 | Some fr => spread_impossible s (type_by_name s (fr_tc fr)) (a_parent (snd ea))
                 | None => false
                 end
             | _ => false
             end) (annot s d).

(* ---------------------------------------------------------------- 5.8 variables *)
Fixpoint var_leaves (v : value) : list name :=
  match v with
  | VVar x => [x]
  | VList l => flat_map var_leaves l
  | VObject l => flat_map (fun kv => var_leaves (snd kv)) l
  | _ => []
  end.
Definition dirs_vars (dirs : list directive) : list name :=
  flat_map (fun d => flat_map (fun a : argument => var_leaves (snd a)) (d_args d)) dirs.
Definition sel_dirs (x : selection) : list directive :=
  match x with SField _ _ _ _ ds _ _ | SSpread _ _ ds | SInline _ _ ds _ _ => ds end.
(* variables used in the arguments of fields and directives of a selection list (no fragments) *)
Definition sels_vars (l : list selection) : list name :=
  flat_map (fun x => flat_map (fun a : argument => var_leaves (snd a)) (sel_args x) ++ dirs_vars (sel_dirs x)) (sels_all l).

Definition op_reachable_fragments (d : document) (o : operation) : list name :=
  spread_closure (S (List.length (fragments_of d))) d (dedup_names (spreads_in (o_sels o))).

Definition fragment_vars (d : document) (n : name) : list name :=
  flat_map (fun f => if name_eqb (fr_name f) n then dirs_vars (fr_dirs f) ++ sels_vars (fr_sels f) else [])
           (fragments_of d).

Definition vars_used_in_op (d : document) (o : operation) : list name :=
  dirs_vars (op_directives o) ++ sels_vars (o_sels o) ++ flat_map (fragment_vars d) (op_reachable_fragments d o).

Definition v_unique_variable_names (d : document) : bool :=
  existsb (fun o => negb (nodup_names (op_var_names o))) (operations_of d).
Definition v_no_undefined_variables (d : document) : bool :=
  existsb (fun o => existsb (fun x => negb (mem_name x (op_var_names o))) (vars_used_in_op d o)) (operations_of d).
Definition v_no_unused_variables (d : document) : bool :=
  existsb (fun o => existsb (fun x => negb (mem_name x (vars_used_in_op d o))) (op_var_names o)) (operations_of d).

(* ---------------------------------------------------------------- 5.4 arguments *)
(* the declaration list an argument list is checked against: the field definition found on a
   known parent type, or the declared directive *)
Definition v_args_unknown (decls : option (list input_value_def)) (args : list argument) : bool :=
  match decls with
  | Some ds => existsb (fun a : argument => negb (existsb (fun x => name_eqb (iv_name x) (fst a)) ds)) args
  | None => false
  end.
Definition v_args_missing (decls : option (list input_value_def)) (args : list argument) : bool :=
  match decls with
  | Some ds => existsb (fun x => iv_is_required x && negb (existsb (fun a : argument => name_eqb (fst a) (iv_name x)) args)) ds
  | None => false
  end.
Definition v_args_duplicated (args : list argument) : bool := negb (nodup_names (map fst args)).

Definition field_decls (fe : selection * env) : option (list input_value_def) :=
  opt_map fd_args (opt_bind (a_parent (snd fe)) (fun pt => field_by_name pt (sel_name (fst fe)))).

Definition directive_events (s : sdocument) (d : document) : list directive :=
  flat_map (fun ea : aev => match fst ea with Enter (NDirective x) => [x] | _ => [] end) (annot s d).
Definition directive_decls (s : sdocument) (x : directive) : option (list input_value_def) :=
  opt_map dd_args (directive_by_name s (d_name x)).

Definition v_known_argument_names (s : sdocument) (d : document) : bool :=
  existsb (fun fe => v_args_unknown (field_decls fe) (sel_args (fst fe))) (field_events s d) ||
  existsb (fun x => v_args_unknown (directive_decls s x) (d_args x)) (directive_events s d).
(* the owners (as an error message names them: "Type.field" or "@directive") of the undeclared
   arguments of the document *)
Definition unknown_argument_owners (s : sdocument) (d : document) : list string :=
  flat_map (fun fe : selection * env =>
              match a_parent (snd fe) with
              | Some pt =>
                  match field_by_name pt (sel_name (fst fe)) with
                  | Some fd => if v_args_unknown (Some (fd_args fd)) (sel_args (fst fe))
                               then [(td_name pt ++ "." ++ fd_name fd)%string] else []
                  | None => []
                  end
              | None => []
              end) (field_events s d) ++
  flat_map (fun x => match directive_by_name s (d_name x) with
                     | Some dd => if v_args_unknown (Some (dd_args dd)) (d_args x) then [("@" ++ dd_name dd)%string] else []
                     | None => []
                     end) (directive_events s d).

Definition v_unique_argument_names (s : sdocument) (d : document) : bool :=
  existsb (fun fe : selection * env => v_args_duplicated (sel_args (fst fe))) (field_events s d) ||
  existsb (fun x => v_args_duplicated (d_args x)) (directive_events s d).
Definition v_provided_required_arguments (s : sdocument) (d : document) : bool :=
  existsb (fun fe => v_args_missing (field_decls fe) (sel_args (fst fe))) (field_events s d) ||
  existsb (fun x => v_args_missing (directive_decls s x) (d_args x)) (directive_events s d).

(* ---------------------------------------------------------------- 5.7 directives *)
(* every directive occurrence with the location kind of the node it is attached to *)
Definition located (loc : dir_loc) (dirs : list directive) : list (dir_loc * list directive) := [(loc, dirs)].
Fixpoint sel_directive_sites (x : selection) : list (dir_loc * list directive) :=
  match x with
  | SField _ _ _ _ ds _ ss => (LField, ds) :: flat_map sel_directive_sites ss
  | SSpread _ _ ds => [(LFragmentSpread, ds)]
  | SInline _ _ ds _ ss => (LInlineFragment, ds) :: flat_map sel_directive_sites ss
  end.
Definition op_location (k : op_kind) : dir_loc :=
  match k with OpMutation => LMutation | OpSubscription => LSubscription | _ => LQuery end.
Definition directive_sites (d : document) : list (dir_loc * list directive) :=
  flat_map (fun x => match x with
                     | DOp o => (op_location (o_kind o), op_directives o) :: flat_map sel_directive_sites (o_sels o)
                     | DFrag f => (LFragmentDefinition, fr_dirs f) :: flat_map sel_directive_sites (fr_sels f)
                     end) d.

Definition v_known_directives (s : sdocument) (d : document) : bool :=
  existsb (fun site : dir_loc * list directive =>
             existsb (fun x => match directive_by_name s (d_name x) with
                               | Some dd => negb (existsb (dir_loc_eqb (fst site)) (dd_locs dd))
                               | None => true
                               end) (snd site)) (directive_sites d).

Definition v_unique_directives_per_location (s : sdocument) (d : document) : bool :=
  existsb (fun site : dir_loc * list directive =>
             negb (nodup_names (flat_map (fun x => match directive_by_name s (d_name x) with
                                                   | Some dd => if dd_repeatable dd then [] else [d_name x]
                                                   | None => []
                                                   end) (snd site)))) (directive_sites d).

(* ---------------------------------------------------------------- positions of the nodes of a document *)
Definition node_pos (x : selection) : pos :=
  match x with SField p _ _ _ _ _ _ | SSpread p _ _ | SInline p _ _ _ _ => p end.
Definition sels_positions (l : list selection) : list pos :=
  flat_map (fun y => node_pos y :: map d_pos (sel_dirs y)) (sels_all l).
Definition doc_positions (d : document) : list pos :=
  flat_map (fun x =>
              match x with
              | DOp o =>
                  match o_kind o with OpSelSet => [] | _ => [o_pos o] end ++
                  map v_pos (op_variable_definitions o) ++ map d_pos (op_directives o) ++
                  sels_positions (o_sels o)
              | DFrag f => fr_pos f :: map d_pos (fr_dirs f) ++ sels_positions (fr_sels f)
              end) d.

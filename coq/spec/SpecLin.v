(* SpecLin.v — the structural pre/post-order linearisation of a document: the reference for
   "every node is entered and left exactly once, children strictly inside their parent, siblings
   in list order".  Independent of any schema; no stacks, no context. *)
From GT Require Import Visitor SchemaVisitor.

Fixpoint lin_value (v : value) : list event :=
  match v with
  | VBool _ | VFloat _ | VInt _ | VString _ => [Enter (NScalar v); Leave (NScalar v)]
  | VNull => [Enter NNull; Leave NNull]
  | VEnum n => [Enter (NEnum n); Leave (NEnum n)]
  | VVar n => [Enter (NVariable n); Leave (NVariable n)]
  | VList l => Enter (NList l) :: flat_map lin_value l ++ [Leave (NList l)]
  | VObject l =>
      Enter (NObject l) ::
      flat_map (fun kv : name * value =>
                  Enter (NObjectField kv) :: lin_value (snd kv) ++ [Leave (NObjectField kv)]) l ++
      [Leave (NObject l)]
  end.

Definition lin_argument (a : argument) : list event :=
  Enter (NArgument a) :: lin_value (snd a) ++ [Leave (NArgument a)].

Definition lin_directive (d : directive) : list event :=
  Enter (NDirective d) :: flat_map lin_argument (d_args d) ++ [Leave (NDirective d)].

Definition lin_vardef (v : vardef) : list event :=
  Enter (NVarDef v) :: match v_default v with Some dv => lin_value dv | None => [] end ++ [Leave (NVarDef v)].

Fixpoint lin_selection (x : selection) : list event :=
  match x with
  | SField p al n args dirs sp sels =>
      Enter (NField x) ::
      flat_map lin_argument args ++ flat_map lin_directive dirs ++
      Enter (NSelectionSet sp sels) :: flat_map lin_selection sels ++
      [Leave (NSelectionSet sp sels); Leave (NField x)]
  | SSpread p n dirs => Enter (NSpread x) :: flat_map lin_directive dirs ++ [Leave (NSpread x)]
  | SInline p tc dirs sp sels =>
      Enter (NInline x) ::
      flat_map lin_directive dirs ++
      Enter (NSelectionSet sp sels) :: flat_map lin_selection sels ++
      [Leave (NSelectionSet sp sels); Leave (NInline x)]
  end.

Definition lin_selection_set (sp : span) (sels : list selection) : list event :=
  Enter (NSelectionSet sp sels) :: flat_map lin_selection sels ++ [Leave (NSelectionSet sp sels)].

Definition lin_definition (x : definition) : list event :=
  match x with
  | DOp o =>
      Enter (NOperation o) ::
      flat_map lin_directive (op_directives o) ++ flat_map lin_vardef (op_variable_definitions o) ++
      lin_selection_set (o_span o) (o_sels o) ++ [Leave (NOperation o)]
  | DFrag f =>
      Enter (NFragmentDef f) ::
      flat_map lin_directive (fr_dirs f) ++ lin_selection_set (fr_span f) (fr_sels f) ++
      [Leave (NFragmentDef f)]
  end.

Definition lin_document (d : document) : list event :=
  Enter (NDocument d) :: flat_map lin_definition d ++ [Leave (NDocument d)].

(* An event list is properly nested when it is a sequence of blocks  Enter n · nested · Leave n. *)
Inductive Nested : list event -> Prop :=
| Nested_nil : Nested []
| Nested_block n inner rest : Nested inner -> Nested rest -> Nested (Enter n :: inner ++ Leave n :: rest).

(* ---- schema documents ---- *)
Definition lin_type (t : type_def) : list sevent :=
  let wrap (n : snode) (children : list sevent) := SEnter n :: children ++ [SLeave n] in
  wrap (SNTypeDef t)
    match t with
    | TDObject _ _ fs => wrap (SNObject t) (flat_map (fun f => wrap (SNObjectField f t) []) fs)
    | TDInterface _ _ fs => wrap (SNInterface t) (flat_map (fun f => wrap (SNInterfaceField f t) []) fs)
    | TDUnion _ _ => wrap (SNUnion t) []
    | TDScalar _ => wrap (SNScalar t) []
    | TDEnum _ vs => wrap (SNEnum t) (flat_map (fun v => wrap (SNEnumValue v t) []) vs)
    | TDInputObject _ fs => wrap (SNInputObject t) (flat_map (fun f => wrap (SNInputField f t) []) fs)
    end.

Definition lin_sdefinition (x : sdefinition) : list sevent :=
  match x with
  | SDSchema sd => [SEnter (SNSchemaDef sd); SLeave (SNSchemaDef sd)]
  | SDType t => lin_type t
  | SDDirective dd => [SEnter (SNDirectiveDef dd); SLeave (SNDirectiveDef dd)]
  | SDTypeExt _ => []
  end.

Definition lin_schema (sd : sdocument) : list sevent :=
  SEnter (SNDocument sd) :: flat_map lin_sdefinition sd ++ [SLeave (SNDocument sd)].

Definition no_extensions (sd : sdocument) : bool :=
  forallb (fun x => match x with SDTypeExt _ => false | _ => true end) sd.

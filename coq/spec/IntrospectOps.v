(* IntrospectOps.v — the C20 operation of the correspondence check (case format: FORMAT.md):
     (C <id> introspect (policy null|absent) (pristine t|f) <json as S-expression>)
   model side: decode the tree as IntrospectionQuery, print OK + encode of the structure, or ERR;
   the reader lines are constants here (in the model a reader is the concatenation of its chunks;
   ROUNDTRIP is theorem C20_roundtrip_parsed);
   specification side (only for results rendered from the current schema): the structure the
   schema's introspection result denotes under that policy. *)
From GT Require Import Sexp Render Json Introspection.
From GTS Require Import WfSchema SpecIntrospection.
Local Open Scope string_scope.

Definition d_policy (x : sexp) : option policy :=
  match x with
  | SL [Atom k; Atom p] =>
      if String.eqb k "policy" then
        if String.eqb p "null" then Some PNull else if String.eqb p "absent" then Some PAbsent else None
      else None
  | _ => None
  end.
Definition d_pristine (x : sexp) : option bool :=
  match x with
  | SL [Atom k; b] => if String.eqb k "pristine" then d_bool b else None
  | _ => None
  end.

Definition introspect_model_lines (j : json) : list string :=
  match decode_query j with
  | Some q => ["OK"; "JSON " ++ json_text (encode_query q)]
  | None => ["ERR"]
  end.

Definition introspect_spec_lines (pol : policy) (pristine : bool) (s : sdocument) : list string :=
  if pristine then
    if wf_schema s then
      if has_unprintable_default s then ["EXEMPT unprintable-default"]
      else ["OK"; "JSON " ++ json_text (encode_query (abstract_normal pol s))]
    else ["EXEMPT schema-not-well-formed"]
  else ["EXEMPT not-a-rendered-result"].

Definition run_introspect (s : sdocument) (args : list sexp) : list string :=
  match args with
  | [p; pr; jx] =>
      match d_policy p, d_pristine pr, d_json jx with
      | Some pol, Some pristine, Some j =>
          List.app (introspect_model_lines j)
                   (List.app ["CHUNKS ok"; "FAULTS ok"; "ROUNDTRIP ok"; "#SPEC"]
                             (introspect_spec_lines pol pristine s))
      | _, _, _ => ["BADINPUT"]
      end
  | _ => ["BADINPUT"]
  end.

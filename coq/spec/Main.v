(* Main.v — entry point used by the extracted driver and by the vm_compute cross-check:
   decode one input line, evaluate the requested model function and the specification oracle,
   render both.  Output of a case: model lines, then "#SPEC", then oracle lines (or one line
   "EXEMPT <reason>" when the oracle does not apply, e.g. a schema that is not well-formed). *)
From GT Require Export Sexp Render Probe.
From GTS Require Import SpecLin Annot WfSchema SpecValid SpecCollect SpecRules ExtOps IntrospectOps SpecTransform.
Local Open Scope string_scope.

Definition render_annot (s : sdocument) (d : document) : list string :=
  map (fun ea : event * answers => s_event (fst ea) ++ " | " ++ s_answers (snd ea)) (annot s d).

Definition spec_section (s : sdocument) (lines : list string) : list string :=
  "#SPEC" :: (if wf_schema s then lines else ["EXEMPT schema-not-well-formed"]).

(* ---- C19: collect_fields on every selection set x every object type ---- *)
Fixpoint sel_selsets (x : selection) : list (span * list selection) :=
  match x with
  | SField _ _ _ _ _ sp ss => (sp, ss) :: flat_map sel_selsets ss
  | SInline _ _ _ sp ss => (sp, ss) :: flat_map sel_selsets ss
  | SSpread _ _ _ => []
  end.
Definition all_selsets (d : document) : list (span * list selection) :=
  flat_map (fun x => match x with
                     | DOp o => (o_span o, o_sels o) :: flat_map sel_selsets (o_sels o)
                     | DFrag f => (fr_span f, fr_sels f) :: flat_map sel_selsets (fr_sels f)
                     end) d.

Definition s_group (g : name * list selection) : string :=
  fst g ++ "=" ++ sep_by "," (map (fun f => sel_name f ++ "@" ++ s_pos (sel_pos f)) (snd g)).

(* groups are printed sorted by key by the harness; here: in map order, the checker sorts *)
Definition render_groups (groups : list (name * list selection)) : string := sep_by ";" (map s_group groups).

Definition object_defs (s : sdocument) : list type_def :=
  filter td_is_object (type_defs s).

Definition render_collect (s : sdocument) (d : document) (spec : bool) : list string :=
  List.app ("#UNORDERED" ::
    flat_map (fun ss : span * list selection =>
                map (fun t =>
                       "S " ++ s_pos (fst (fst ss)) ++ " " ++ td_name t ++ " | " ++
                       (if spec then render_groups (spec_collect s d t (snd ss))
                        else match collect_fields s d t (snd ss) with
                             | Some g => render_groups g
                             | None => "OUTOFFUEL"
                             end)) (object_defs s)) (all_selsets d)) ["#ORDERED"].

(* ---- C14: verdict and reporting rules of the default plan ---- *)
Definition verdict_line (tag : string) (o : outcome) : string :=
  match o with
  | Ok errs =>
      tag ++ " " ++ (match errs with [] => "accept" | _ => "reject" end) ++ " | " ++
      sep_by "," (map code_of (filter (fun r => existsb (fun e => rule_eqb (e_rule e) r) errs) all_rules))
  | Panic => tag ++ " PANIC"
  | OutOfFuel => tag ++ " OUTOFFUEL"
  end.
Definition accepts (o : outcome) : option bool :=
  match o with Ok [] => Some true | Ok _ => Some false | _ => None end.

Definition render_rewrite (s1 : sdocument) (d1 : document) (s2 : sdocument) (d2 : document) (kind : string) : list string :=
  let o1 := validate s1 d1 default_plan in
  let o2 := validate s2 d2 default_plan in
  let a := verdict_line "A" o1 in
  let b := verdict_line "B" o2 in
  let rules_relevant := negb (String.eqb kind "wrap-inline" || String.eqb kind "inline-spread") in
  [a; b;
   "VERDICT " ++ (match accepts o1, accepts o2 with
                  | Some x, Some y => if Bool.eqb x y then "same" else "DIFF"
                  | _, _ => "DIFF" end);
   "RULES " ++ (if negb rules_relevant then "n/a"
                else if String.eqb (verdict_line "" o1) (verdict_line "" o2) then "same" else "DIFF")].

(* Where the specification's algorithm is not defined the oracle gives no verdict: FieldsInSetCanMerge
   needs the return types of the fields, which do not exist below an inline fragment whose type
   condition names no type of the schema (C05_acyclic_partial carries the same hypothesis,
   inline_conditions_known; C05_statement_refuted is the witness; graphql-js reports nothing there
   either; KnownTypeNames rejects such documents). *)
Definition oracle_scope (r : rule_id) (s : sdocument) (d : document) : bool :=
  match r with
  | R_OverlappingFieldsCanBeMerged =>
      forallb (fun x => match x with
                        | SInline _ (Some c) _ _ _ => match type_by_name s c with Some _ => true | None => false end
                        | _ => true end) (doc_selections d)
  | _ => true
  end.

Definition run_case (s : sdocument) (op : string) (args : list sexp) : list string :=
  if String.eqb op "trace" then
    match args with
    | [d] => match d_document d with
             | Some d => List.app (render_trace s d) (spec_section s (render_annot s d))
             | None => ["BADINPUT"]
             end
    | _ => ["BADINPUT"]
    end
  else if String.eqb op "strace" then
    List.app (render_strace s)
             ("#SPEC" :: (if no_extensions s then map s_sevent (lin_schema s) else ["PANIC"]))
  else if String.eqb op "validate" then
    match args with
    | [d; SL (Atom _ :: codes)] =>
        match d_document d, d_list (fun x => match x with Atom a => rule_of_code a | _ => None end) codes with
        | Some d, Some plan =>
            List.app (render_outcome (validate s d plan))
                     (spec_section s
                        (List.app
                           (map (fun r => "V " ++ code_of r ++ " " ++
                                          (if rule_in_scope r s d && oracle_scope r s d
                                           then (if violated r s d then "1" else "0") else "X"))
                                all_rules)
                           ["VALID " ++ (if spec_valid s d then "1" else "0")]))
        | _, _ => ["BADINPUT"]
        end
    | _ => ["BADINPUT"]
    end
  else if String.eqb op "validate13" then
    match args with
    | [d; SL (Atom _ :: codes)] =>
        match d_document d, d_list (fun x => match x with Atom a => rule_of_code a | _ => None end) codes with
        | Some d, Some plan =>
            List.app (render_outcome (validate s d plan))
                     ["UNION ok"; "CODES ok"; "MSG ok"; "LOCS ok"; "JSON ok"; "DEFAULTPLAN ok"]
        | _, _ => ["BADINPUT"]
        end
    | _ => ["BADINPUT"]
    end
  else if String.eqb op "collect" then
    match args with
    | [d] => match d_document d with
             | Some d => List.app (render_collect s d false)
                                  (spec_section s (if distinct_fragments d then render_collect s d true
                                                   else ["EXEMPT duplicate-fragment-names"]))
             | None => ["BADINPUT"]
             end
    | _ => ["BADINPUT"]
    end
  else if String.eqb op "ext" then
    match args with
    | [Atom dp; SL (Atom _ :: vals)] =>
        match parse_N dp, d_list d_value vals with
        | Some n, Some vs =>
            List.app (ext_lines s (N.to_nat n) vs false) (spec_section s (ext_lines s (N.to_nat n) vs true))
        | _, _ => ["BADINPUT"]
        end
    | _ => ["BADINPUT"]
    end
  else if String.eqb op "purity" then
    match args with
    | d :: SL (Atom _ :: codes) :: _ =>
        match d_document d, d_list (fun x => match x with Atom a => rule_of_code a | _ => None end) codes with
        | Some d, Some plan =>
            List.app (render_outcome (validate s d plan)) ["HISTORY ok"; "SCHEMAS ok"; "THREADS ok"; "UNCHANGED ok"]
        | _, _ => ["BADINPUT"]
        end
    | _ => ["BADINPUT"]
    end
  else if String.eqb op "rewrite" then
    match args with
    | [d; SL [Atom _; Atom kind]; SL [Atom which; alt]] =>
        match d_document d with
        | Some d1 =>
            if String.eqb which "alt" then
              match d_document alt with Some d2 => render_rewrite s d1 s d2 kind | None => ["BADINPUT"] end
            else
              match d_sdocument alt with Some s2 => render_rewrite s d1 s2 d1 kind | None => ["BADINPUT"] end
        | None => ["BADINPUT"]
        end
    | _ => ["BADINPUT"]
    end
  else if String.eqb op "transform" then
    match args with
    | [d; SL [Atom _; Atom m; Atom k; Atom sa]] =>
        match d_document d, parse_N m, parse_N k, parse_N sa with
        | Some d, Some m, Some k, Some sa =>
            (* oracle: the call log is the fold of the logging hook over the specification's list
               of hook calls, the resulting document the specification's structural map *)
            List.app (render_transform d m k sa)
                     ("#SPEC" :: List.app (rev (fold_left (pre (probe m k sa)) (hook_calls d) []))
                                          ["DOC " ++ x_document (smap_document (probe m k sa) d)])
        | _, _, _, _ => ["BADINPUT"]
        end
    | _ => ["BADINPUT"]
    end
  else if String.eqb op "introspect" then run_introspect s args
  else ["BADOP"].

(* line-level entry points: the driver keeps the current schema *)
Definition run_line_schema (line : string) : option sdocument :=
  match parse_line line with
  | Some [SL [Atom k; sd]] => if String.eqb k "S" then d_sdocument sd else None
  | _ => None
  end.

(* returns (case id, output lines) *)
Definition run_line_case (s : sdocument) (line : string) : option (string * list string) :=
  match parse_line line with
  | Some [SL (Atom k :: Atom id :: Atom op :: args)] =>
      if String.eqb k "C" then Some (id, run_case s op args) else None
  | _ => None
  end.

(* Main.v — entry point used by the extracted driver and by the vm_compute cross-check:
   decode one input line, evaluate the requested model function and the specification oracle,
   render both.  Output of a case: model lines, then "#SPEC", then oracle lines (or one line
   "EXEMPT <reason>" when the oracle does not apply, e.g. a schema that is not well-formed). *)
From GT Require Export Sexp Render.
From GTS Require Import SpecLin Annot WfSchema SpecValid.
Local Open Scope string_scope.

Definition render_annot (s : sdocument) (d : document) : list string :=
  map (fun ea : event * answers => s_event (fst ea) ++ " | " ++ s_answers (snd ea)) (annot s d).

Definition spec_section (s : sdocument) (lines : list string) : list string :=
  "#SPEC" :: (if wf_schema s then lines else ["EXEMPT schema-not-well-formed"]).

Definition run_case (s : sdocument) (op : string) (args : list sexp) : list string :=
  if String.eqb op "trace" then
    match args with
    | [d] => match d_document d with
             | Some d => List.app (render_trace s d) (spec_section s (render_annot s d))
             | None => ["BADINPUT"]
             end
    | _ => ["BADINPUT"]
    end
  else if String.eqb op "strace" then
    List.app (render_strace s)
             ("#SPEC" :: (if no_extensions s then map s_sevent (lin_schema s) else ["PANIC"]))
  else if String.eqb op "validate" then
    match args with
    | [d; SL (Atom _ :: codes)] =>
        match d_document d, d_list (fun x => match x with Atom a => rule_of_code a | _ => None end) codes with
        | Some d, Some plan =>
            List.app (render_outcome (validate s d plan))
                     (spec_section s
                        (List.app
                           (map (fun r => "V " ++ code_of r ++ " " ++
                                          (if rule_in_scope r s d then (if violated r s d then "1" else "0") else "X"))
                                all_rules)
                           ["VALID " ++ (if spec_valid s d then "1" else "0")]))
        | _, _ => ["BADINPUT"]
        end
    | _ => ["BADINPUT"]
    end
  else if String.eqb op "validate13" then
    match args with
    | [d; SL (Atom _ :: codes)] =>
        match d_document d, d_list (fun x => match x with Atom a => rule_of_code a | _ => None end) codes with
        | Some d, Some plan =>
            List.app (render_outcome (validate s d plan))
                     ["UNION ok"; "CODES ok"; "MSG ok"; "LOCS ok"; "JSON ok"; "DEFAULTPLAN ok"]
        | _, _ => ["BADINPUT"]
        end
    | _ => ["BADINPUT"]
    end
  else ["BADOP"].

(* line-level entry points: the driver keeps the current schema *)
Definition run_line_schema (line : string) : option sdocument :=
  match parse_line line with
  | Some [SL [Atom k; sd]] => if String.eqb k "S" then d_sdocument sd else None
  | _ => None
  end.

(* returns (case id, output lines) *)
Definition run_line_case (s : sdocument) (line : string) : option (string * list string) :=
  match parse_line line with
  | Some [SL (Atom k :: Atom id :: Atom op :: args)] =>
      if String.eqb k "C" then Some (id, run_case s op args) else None
  | _ => None
  end.

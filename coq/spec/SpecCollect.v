(* SpecCollect.v — the specification's CollectFields (spec §6.3.2, validation form: @skip/@include
   are not evaluated) for an object parent type: fields grouped by RESPONSE KEY in order of first
   occurrence, descending through inline fragments and named fragments whose type condition
   applies (DoesFragmentTypeApply), each named fragment at most once, unknown fragments ignored. *)
From GT Require Import Ext.

(* DoesFragmentTypeApply(objectType, fragmentType) *)
Definition fragment_type_applies (s : sdocument) (obj : type_def) (cond : name) : bool :=
  match type_by_name s cond with
  | Some (TDObject n _ _) => name_eqb n (td_name obj)
  | Some (TDInterface n _ _) => mem_name n (td_interfaces obj)
  | Some (TDUnion _ members) => mem_name (td_name obj) members
  | _ => false
  end.

Definition find_fragment (d : document) (n : name) : option fragment_def :=
  find_first (fun f => name_eqb (fr_name f) n) (rev (fragments_of d)).

(* the flat list of collected field selections, in document order; [visited] = fragment names
   already expanded *)
Fixpoint spec_collect_list (fuel : nat) (s : sdocument) (d : document) (obj : type_def)
         (sels : list selection) (visited : list name) {struct fuel} : list selection * list name :=
  match fuel with
  | O => ([], visited)
  | S fuel' =>
      let one := fix one (x : selection) (visited : list name) {struct x} : list selection * list name :=
        match x with
        | SField _ _ _ _ _ _ _ => ([x], visited)
        | SInline _ tc _ _ ss =>
            if match tc with None => true | Some c => fragment_type_applies s obj c end then
              (fix many (l : list selection) (visited : list name) {struct l} :=
                 match l with
                 | [] => ([], visited)
                 | y :: r => let '(a, v1) := one y visited in
                             let '(b, v2) := many r v1 in (a ++ b, v2)
                 end) ss visited
            else ([], visited)
        | SSpread _ n _ =>
            if mem_name n visited then ([], visited)
            else match find_fragment d n with
                 | Some fr =>
                     if fragment_type_applies s obj (fr_tc fr)
                     then spec_collect_list fuel' s d obj (fr_sels fr) (n :: visited)
                     else ([], n :: visited)
                 | None => ([], n :: visited)
                 end
        end in
      (fix many (l : list selection) (visited : list name) {struct l} :=
         match l with
         | [] => ([], visited)
         | y :: r => let '(a, v1) := one y visited in
                     let '(b, v2) := many r v1 in (a ++ b, v2)
         end) sels visited
  end.

Definition field_response_key (f : selection) : name :=
  match f with
  | SField _ (Some a) _ _ _ _ _ => a
  | SField _ None n _ _ _ _ => n
  | _ => ""
  end.

(* group by response key: keys in order of first occurrence, fields in document order *)
Fixpoint distinct_keys (l seen : list name) : list name :=
  match l with
  | [] => []
  | k :: r => if mem_name k seen then distinct_keys r seen else k :: distinct_keys r (k :: seen)
  end.
Definition group_by_key (l : list selection) : list (name * list selection) :=
  map (fun k => (k, filter (fun g => name_eqb (field_response_key g) k) l))
      (distinct_keys (map field_response_key l) []).

Definition spec_collect (s : sdocument) (d : document) (obj : type_def) (sels : list selection)
  : list (name * list selection) :=
  group_by_key (fst (spec_collect_list (S (S (List.length (fragments_of d)))) s d obj sels [])).

(* SpecValues.v — input coercion of literals (spec §3.5–§3.11 "Input Coercion", §5.6.1 Values of
   Correct Type) and variable usage (§5.8.5 All Variable Usages Are Allowed). *)
From GT Require Import Visitor Validate.
From GTS Require Import Annot SpecRules.

Definition int32 (z : Z) : bool := (Z.leb (-2147483648) z && Z.leb z 2147483647)%Z.
Definition builtin_scalars : list name := ["Int"; "Float"; "String"; "Boolean"; "ID"].

(* can literal v be coerced to type t?  Variables are not literals and are always accepted here
   (their use is checked by the variable rules). *)
Fixpoint coercibleb (s : sdocument) (v : value) : ty -> bool :=
  fix on_ty (t : ty) : bool :=
    match v with
    | VVar _ => true
    | _ =>
      match t with
      | TNonNull inner => match v with VNull => false | _ => on_ty inner end
      | TList inner =>
          match v with
          | VNull => true
          | VList items => forallb (fun x => coercibleb s x inner) items
          | _ => on_ty inner                                   (* a lone value is a one-item list *)
          end
      | TNamed n =>
          match v with
          | VNull => true
          | _ =>
            match type_by_name s n with
            | None => true                                      (* unknown type: nothing to check *)
            | Some (TDScalar sn) =>
                if negb (mem_name sn builtin_scalars) then true (* custom scalars accept any literal *)
                else match v with
                     | VInt z => (name_eqb sn "Int" && int32 z) || name_eqb sn "Float" || name_eqb sn "ID"
                     | VFloat _ => name_eqb sn "Float"
                     | VString _ => name_eqb sn "String" || name_eqb sn "ID"
                     | VBool _ => name_eqb sn "Boolean"
                     | _ => false
                     end
            | Some (TDEnum _ members) => match v with VEnum e => mem_name e members | _ => false end
            | Some (TDInputObject _ fields) =>
                match v with
                | VObject entries =>
                    forallb (fun kv : name * value =>
                               match find_first (fun f => name_eqb (iv_name f) (fst kv)) fields with
                               | Some f => coercibleb s (snd kv) (iv_type f)
                               | None => false
                               end) entries &&
                    forallb (fun f => negb (iv_is_required f) ||
                                      existsb (fun kv : name * value => name_eqb (fst kv) (iv_name f)) entries) fields
                | _ => false
                end
            | Some _ => true                                    (* not an input type: left to the variable rules *)
            end
          end
      end
    end.

(* the literal positions of a document with the type the schema expects there: argument values of
   fields and directives, and variable default values *)
Definition literal_positions (s : sdocument) (d : document) : list (ty * value) :=
  flat_map (fun ea : aev =>
              match fst ea, a_input_lit (snd ea) with
              | Enter (NArgument a), Some t => [(t, snd a)]
              | Enter (NVarDef v), Some t => match v_default v with Some dv => [(t, dv)] | None => [] end
              | _, _ => []
              end) (annot s d).

Definition v_values_of_correct_type (s : sdocument) (d : document) : bool :=
  existsb (fun tv : ty * value => negb (coercibleb s (snd tv) (fst tv))) (literal_positions s d).

(* ---------------------------------------------------------------- 5.8.5 *)
(* AreTypesCompatible(variableType, locationType) *)
Fixpoint types_compatible (v l : ty) {struct v} : bool :=
  match l with
  | TNonNull li => match v with TNonNull vi => types_compatible vi li | _ => false end
  | _ =>
      match v with
      | TNonNull vi => types_compatible vi l
      | TList vi => match l with TList li => types_compatible vi li | _ => false end
      | TNamed a => match l with TNamed b => name_eqb a b | _ => false end
      end
  end.

Definition has_non_null_default (dv : option value) : bool :=
  match dv with Some VNull => false | Some _ => true | None => false end.

(* IsVariableUsageAllowed *)
Definition is_variable_usage_allowed (vt : ty) (vdefault : option value) (lt : ty) (ldefault : bool) : bool :=
  match lt, vt with
  | TNonNull nullable_lt, TNamed _ | TNonNull nullable_lt, TList _ =>
      (has_non_null_default vdefault || ldefault) && types_compatible vt nullable_lt
  | _, _ => types_compatible vt lt
  end.

(* variable usages inside a value expected to have type t; dflt = the argument / input field this
   value is given to declares a default value (list items never do) *)
Fixpoint value_usages (s : sdocument) (v : value) (t : option ty) (dflt : bool) : list (name * ty * bool) :=
  match v with
  | VVar x => match t with Some t => [(x, t, dflt)] | None => [] end
  | VList items => flat_map (fun x => value_usages s x (item_type t) false) items
  | VObject entries =>
      flat_map (fun kv : name * value =>
                  let f := opt_bind (lookup_named s t) (fun td => input_field_by_name td (fst kv)) in
                  value_usages s (snd kv) (opt_map iv_type f)
                               (match f with Some f => is_some (iv_default f) | None => false end)) entries
  | _ => []
  end.

Definition args_usages (s : sdocument) (decls : option (list input_value_def)) (args : list argument)
  : list (name * ty * bool) :=
  flat_map (fun a : argument =>
              let decl := opt_bind decls (fun ds => find_first (fun x => name_eqb (iv_name x) (fst a)) ds) in
              value_usages s (snd a) (opt_map iv_type decl)
                           (match decl with Some x => is_some (iv_default x) | None => false end)) args.

(* usages inside one definition (operation or fragment definition) *)
Definition definition_usages (s : sdocument) (x : definition) : list (name * ty * bool) :=
  flat_map (fun ea : aev =>
              match fst ea with
              | Enter (NField f) => args_usages s (field_decls (f, snd ea)) (sel_args f)
              | Enter (NDirective dr) => args_usages s (directive_decls s dr) (d_args dr)
              | _ => []
              end) (annot_definition s x env0).

Definition op_usages (s : sdocument) (d : document) (o : operation) : list (name * ty * bool) :=
  definition_usages s (DOp o) ++
  flat_map (fun n => flat_map (fun f => if name_eqb (fr_name f) n then definition_usages s (DFrag f) else [])
                              (fragments_of d))
           (op_reachable_fragments d o).

Definition v_variables_in_allowed_position (s : sdocument) (d : document) : bool :=
  existsb (fun o =>
             existsb (fun u : name * ty * bool =>
                        let '(x, lt, ld) := u in
                        match find_first (fun vd => name_eqb (v_name vd) x) (op_variable_definitions o) with
                        | Some vd => negb (is_variable_usage_allowed (v_type vd) (v_default vd) lt ld)
                        | None => false
                        end) (op_usages s d o)) (operations_of d).

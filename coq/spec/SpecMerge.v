(* SpecMerge.v — Field Selection Merging (spec §5.3.2): FieldsInSetCanMerge and
   SameResponseShape over collected field sets with fragments expanded. *)
From GT Require Import Visitor Validate.
From GTS Require Import Annot SpecRules SpecCollect.

(* identical values (floats: same number; the parser cannot produce NaN) *)
Fixpoint value_eqb (a b : value) {struct a} : bool :=
  match a, b with
  | VVar x, VVar y => name_eqb x y
  | VInt x, VInt y => Z.eqb x y
  | VFloat x, VFloat y => float_bits_eqb x y
  | VString x, VString y => String.eqb x y
  | VBool x, VBool y => Bool.eqb x y
  | VNull, VNull => true
  | VEnum x, VEnum y => name_eqb x y
  | VList x, VList y =>
      (fix go (x y : list value) : bool :=
         match x, y with
         | [], [] => true
         | u :: x', v :: y' => value_eqb u v && go x' y'
         | _, _ => false
         end) x y
  | VObject x, VObject y =>
      (fix go (x y : list (name * value)) : bool :=
         match x, y with
         | [], [] => true
         | (k, u) :: x', (k', v) :: y' => name_eqb k k' && value_eqb u v && go x' y'
         | _, _ => false
         end) x y
  | _, _ => false
  end.

(* identical sets of arguments *)
Definition args_subset (a b : list argument) : bool :=
  forallb (fun x : argument => existsb (fun y : argument => name_eqb (fst x) (fst y) && value_eqb (snd x) (snd y)) b) a.
Definition same_arguments (a b : list argument) : bool := args_subset a b && args_subset b a.

(* a collected field: the type of its immediate parent selection set, the field, its definition *)
Record cfield := mkCF { cf_parent : option type_def; cf_field : selection }.
Definition cf_def (c : cfield) : option field_def :=
  opt_bind (cf_parent c) (fun t => field_by_name t (sel_name (cf_field c))).
Definition cf_key (c : cfield) : name := field_response_key (cf_field c).

(* all fields of a selection set with fragments expanded; each named fragment once per set *)
Fixpoint collect_set (fuel : nat) (s : sdocument) (d : document) (parent : option type_def)
         (sels : list selection) (visited : list name) {struct fuel} : list cfield * list name :=
  match fuel with
  | O => ([], visited)
  | S fuel' =>
      let one := fix one (parent : option type_def) (x : selection) (visited : list name) {struct x}
                   : list cfield * list name :=
        match x with
        | SField _ _ _ _ _ _ _ => ([mkCF parent x], visited)
        | SInline _ tc _ _ ss =>
            let p := match opt_bind tc (type_by_name s) with Some t => Some t | None => parent end in
            (fix many (l : list selection) (visited : list name) {struct l} :=
               match l with
               | [] => ([], visited)
               | y :: r => let '(a, v1) := one p y visited in
                           let '(b, v2) := many r v1 in (a ++ b, v2)
               end) ss visited
        | SSpread _ n _ =>
            if mem_name n visited then ([], visited)
            else match find_fragment d n with
                 | Some fr => collect_set fuel' s d (type_by_name s (fr_tc fr)) (fr_sels fr) (n :: visited)
                 | None => ([], n :: visited)
                 end
        end in
      (fix many (l : list selection) (visited : list name) {struct l} :=
         match l with
         | [] => ([], visited)
         | y :: r => let '(a, v1) := one parent y visited in
                     let '(b, v2) := many r v1 in (a ++ b, v2)
         end) sels visited
  end.

Definition set_fuel (d : document) : nat := S (S (List.length (fragments_of d))).
Definition collected (s : sdocument) (d : document) (parent : option type_def) (sels : list selection) : list cfield :=
  fst (collect_set (set_fuel d) s d parent sels []).

Definition sub_set (s : sdocument) (d : document) (c : cfield) : list cfield :=
  collected s d (opt_bind (opt_map fd_type (cf_def c)) (fun t => type_by_name s (inner_type t))) (sel_sels (cf_field c)).

Definition is_leaf_named (s : sdocument) (n : name) : bool :=
  match type_by_name s n with Some t => td_is_leaf t | None => false end.

(* the wrapper structure must agree; leaf types must be the same type *)
Fixpoint shape_conflict (s : sdocument) (a b : ty) : bool :=
  match a, b with
  | TNonNull x, TNonNull y => shape_conflict s x y
  | TNonNull _, _ | _, TNonNull _ => true
  | TList x, TList y => shape_conflict s x y
  | TList _, _ | _, TList _ => true
  | TNamed x, TNamed y => (is_leaf_named s x || is_leaf_named s y) && negb (name_eqb x y)
  end.

Definition same_key_pairs (l : list cfield) : list (cfield * cfield) :=
  filter (fun ab : cfield * cfield => name_eqb (cf_key (fst ab)) (cf_key (snd ab))) (pairs_within l).
Definition cross_pairs (a b : list cfield) : list (cfield * cfield) :=
  filter (fun ab : cfield * cfield => name_eqb (cf_key (fst ab)) (cf_key (snd ab)))
         (flat_map (fun x => map (fun y => (x, y)) b) a).

(* parents are provably disjoint: two different object types *)
Definition parents_exclusive (a b : cfield) : bool :=
  match cf_parent a, cf_parent b with
  | Some (TDObject x _ _), Some (TDObject y _ _) => negb (name_eqb x y)
  | _, _ => false
  end.

(* SameResponseShape(fieldA, fieldB) *)
Fixpoint same_response_shape (fuel : nat) (s : sdocument) (d : document) (a b : cfield) : bool :=
  match fuel with
  | O => true
  | S fuel' =>
      match cf_def a, cf_def b with
      | Some da, Some db => negb (shape_conflict s (fd_type da) (fd_type db))
      | _, _ => true                      (* unknown field: no shape constraint *)
      end &&
      forallb (fun xy : cfield * cfield => same_response_shape fuel' s d (fst xy) (snd xy))
              (cross_pairs (sub_set s d a) (sub_set s d b))
  end.

(* the pairwise condition of FieldsInSetCanMerge, for fields a (from one set) and b (from another
   or the same set); mutex = an enclosing pair of fields already had disjoint parents *)
Fixpoint fields_can_merge (fuel : nat) (s : sdocument) (d : document) (mutex : bool) (a b : cfield) : bool :=
  match fuel with
  | O => true
  | S fuel' =>
      let mutex' := mutex || parents_exclusive a b in
      (mutex' || (name_eqb (sel_name (cf_field a)) (sel_name (cf_field b)) &&
                  same_arguments (sel_args (cf_field a)) (sel_args (cf_field b)))) &&
      match cf_def a, cf_def b with
      | Some da, Some db => negb (shape_conflict s (fd_type da) (fd_type db))
      | _, _ => true
      end &&
      forallb (fun xy : cfield * cfield => fields_can_merge fuel' s d mutex' (fst xy) (snd xy))
              (cross_pairs (sub_set s d a) (sub_set s d b))
  end.

Definition merge_fuel_spec (d : document) : nat := S (S (doc_fields d)).

(* FieldsInSetCanMerge(set) for the collected set of one selection set *)
Definition fields_in_set_can_merge (s : sdocument) (d : document) (set : list cfield) : bool :=
  forallb (fun ab : cfield * cfield => fields_can_merge (merge_fuel_spec d) s d false (fst ab) (snd ab))
          (same_key_pairs set).

(* every selection set of the document, with the parent type the schema gives it *)
Definition selection_sets (s : sdocument) (d : document) : list (option type_def * list selection) :=
  flat_map (fun ea : aev => match fst ea with
                            | Enter (NSelectionSet _ sels) => [(a_parent (snd ea), sels)]
                            | _ => [] end) (annot s d).

Definition v_overlapping_fields (s : sdocument) (d : document) : bool :=
  existsb (fun ps : option type_def * list selection =>
             negb (fields_in_set_can_merge s d (collected s d (fst ps) (snd ps)))) (selection_sets s d).

(* Sexp.v — a small S-expression reader and the decoders from S-expressions to the AST types.
   This is glue of the correspondence check (trusted base), shared by the extracted driver and
   by the vm_compute cross-check so that both evaluate exactly the same inputs. *)
From GT Require Export Schema.
From Coq Require Import DecimalString.

Inductive sexp := Atom (a : string) | SL (l : list sexp).

Inductive token := TOpen | TClose | TAtom (a : string).

Definition rev_string (s : string) : string :=
  (fix go (s acc : string) : string :=
     match s with EmptyString => acc | String c r => go r (String c acc) end) s EmptyString.

(* cur = characters of the atom being read, reversed *)
Fixpoint tokenize_aux (s : string) (cur : string) : list token :=
  let flush := match cur with EmptyString => [] | _ => [TAtom (rev_string cur)] end in
  match s with
  | EmptyString => flush
  | String c r =>
      if Ascii.eqb c "("%char then flush ++ TOpen :: tokenize_aux r EmptyString
      else if Ascii.eqb c ")"%char then flush ++ TClose :: tokenize_aux r EmptyString
      else if Ascii.eqb c " "%char then flush ++ tokenize_aux r EmptyString
      else tokenize_aux r (String c cur)
  end.
Definition tokenize (s : string) : list token := tokenize_aux s EmptyString.

(* stack of partially read lists (each reversed); the bottom entry collects top-level items *)
Fixpoint parse_tokens (ts : list token) (stack : list (list sexp)) : option (list sexp) :=
  match ts with
  | [] => match stack with [top] => Some (rev top) | _ => None end
  | TOpen :: r => parse_tokens r ([] :: stack)
  | TAtom a :: r =>
      match stack with
      | top :: rest => parse_tokens r ((Atom a :: top) :: rest)
      | [] => None
      end
  | TClose :: r =>
      match stack with
      | top :: next :: rest => parse_tokens r ((SL (rev top) :: next) :: rest)
      | _ => None
      end
  end.
Definition parse_line (s : string) : option (list sexp) := parse_tokens (tokenize s) [[]].

(* ---- scalars ---- *)
Definition digit_of (c : ascii) : option N :=
  let n := N_of_ascii c in
  if (48 <=? n)%N && (n <=? 57)%N then Some (n - 48)%N else None.
Fixpoint parse_N_aux (s : string) (acc : N) : option N :=
  match s with
  | EmptyString => Some acc
  | String c r => match digit_of c with Some d => parse_N_aux r (acc * 10 + d)%N | None => None end
  end.
Definition parse_N (s : string) : option N :=
  match s with EmptyString => None | _ => parse_N_aux s 0%N end.
Definition parse_Z (s : string) : option Z :=
  match s with
  | String c r => if Ascii.eqb c "-"%char then opt_map (fun n => (- Z.of_N n)%Z) (parse_N r)
                  else opt_map Z.of_N (parse_N s)
  | EmptyString => None
  end.
Definition hex_of (c : ascii) : option N :=
  let n := N_of_ascii c in
  if (48 <=? n)%N && (n <=? 57)%N then Some (n - 48)%N
  else if (97 <=? n)%N && (n <=? 102)%N then Some (n - 87)%N else None.
Fixpoint parse_hex (s : string) : option string :=
  match s with
  | EmptyString => Some EmptyString
  | String a (String b r) =>
      match hex_of a, hex_of b, parse_hex r with
      | Some x, Some y, Some t => Some (String (ascii_of_N (x * 16 + y)) t)
      | _, _, _ => None
      end
  | _ => None
  end.

Definition d_N (x : sexp) : option N := match x with Atom a => parse_N a | _ => None end.
Definition d_name (x : sexp) : option name := match x with Atom a => Some a | _ => None end.
Definition d_oname (x : sexp) : option (option name) :=
  match x with Atom a => if String.eqb a "-" then Some None else Some (Some a) | _ => None end.
Definition d_bool (x : sexp) : option bool :=
  match x with Atom a => if String.eqb a "t" then Some true else if String.eqb a "f" then Some false else None | _ => None end.

Fixpoint d_list {A} (f : sexp -> option A) (l : list sexp) : option (list A) :=
  match l with
  | [] => Some []
  | x :: r => match f x, d_list f r with Some a, Some b => Some (a :: b) | _, _ => None end
  end.
Definition d_listx {A} (f : sexp -> option A) (x : sexp) : option (list A) :=
  match x with SL l => d_list f l | _ => None end.

Fixpoint d_ty (x : sexp) : option ty :=
  match x with
  | Atom a => Some (TNamed a)
  | SL [Atom k; t] =>
      if String.eqb k "l" then opt_map TList (d_ty t)
      else if String.eqb k "n" then opt_map TNonNull (d_ty t) else None
  | _ => None
  end.

Fixpoint d_value (x : sexp) : option value :=
  match x with
  | Atom a => if String.eqb a "null" then Some VNull else None
  | SL (Atom k :: rest) =>
      if String.eqb k "var" then match rest with [Atom n] => Some (VVar n) | _ => None end
      else if String.eqb k "int" then match rest with [Atom n] => opt_map VInt (parse_Z n) | _ => None end
      else if String.eqb k "flt" then match rest with [Atom n] => opt_map VFloat (parse_N n) | _ => None end
      else if String.eqb k "str" then
        match rest with [Atom n] => opt_map VString (parse_hex n) | [] => Some (VString EmptyString) | _ => None end
      else if String.eqb k "bool" then match rest with [b] => opt_map VBool (d_bool b) | _ => None end
      else if String.eqb k "enum" then match rest with [Atom n] => Some (VEnum n) | _ => None end
      else if String.eqb k "list" then
        opt_map VList
          ((fix go (l : list sexp) : option (list value) :=
              match l with
              | [] => Some []
              | y :: r => match d_value y, go r with Some a, Some b => Some (a :: b) | _, _ => None end
              end) rest)
      else if String.eqb k "obj" then
        opt_map VObject
          ((fix go (l : list sexp) : option (list (name * value)) :=
              match l with
              | [] => Some []
              | SL [Atom kk; v] :: r =>
                  match d_value v, go r with Some a, Some b => Some ((kk, a) :: b) | _, _ => None end
              | _ => None
              end) rest)
      else None
  | _ => None
  end.

Definition d_pos2 (l c : sexp) : option pos :=
  match d_N l, d_N c with Some a, Some b => Some (a, b) | _, _ => None end.

Definition d_arg (x : sexp) : option argument :=
  match x with SL [Atom n; v] => opt_map (fun v => (n, v)) (d_value v) | _ => None end.

Definition d_directive (x : sexp) : option directive :=
  match x with
  | SL [Atom k; l; c; Atom n; args] =>
      if String.eqb k "d" then
        match d_pos2 l c, d_listx d_arg args with
        | Some p, Some a => Some (mkDirective p n a)
        | _, _ => None
        end
      else None
  | _ => None
  end.

Definition d_span (a b c d : sexp) : option span :=
  match d_pos2 a b, d_pos2 c d with Some p, Some q => Some (p, q) | _, _ => None end.

Fixpoint d_selection (x : sexp) : option selection :=
  let d_sels := fix go (l : list sexp) : option (list selection) :=
      match l with
      | [] => Some []
      | y :: r => match d_selection y, go r with Some a, Some b => Some (a :: b) | _, _ => None end
      end in
  match x with
  | SL [Atom k; l; c; al; Atom n; args; dirs; s1; s2; s3; s4; SL sels] =>
      if String.eqb k "f" then
        match d_pos2 l c, d_oname al, d_listx d_arg args, d_listx d_directive dirs,
              d_span s1 s2 s3 s4, d_sels sels with
        | Some p, Some al, Some a, Some ds, Some sp, Some ss => Some (SField p al n a ds sp ss)
        | _, _, _, _, _, _ => None
        end
      else None
  | SL [Atom k; l; c; Atom n; dirs] =>
      if String.eqb k "s" then
        match d_pos2 l c, d_listx d_directive dirs with
        | Some p, Some ds => Some (SSpread p n ds)
        | _, _ => None
        end
      else None
  | SL [Atom k; l; c; tc; dirs; s1; s2; s3; s4; SL sels] =>
      if String.eqb k "i" then
        match d_pos2 l c, d_oname tc, d_listx d_directive dirs, d_span s1 s2 s3 s4, d_sels sels with
        | Some p, Some tc, Some ds, Some sp, Some ss => Some (SInline p tc ds sp ss)
        | _, _, _, _, _ => None
        end
      else None
  | _ => None
  end.

Definition d_ovalue (x : sexp) : option (option value) :=
  match x with
  | Atom a => if String.eqb a "-" then Some None else None
  | SL [Atom k; v] => if String.eqb k "some" then opt_map Some (d_value v) else None
  | _ => None
  end.

Definition d_vardef (x : sexp) : option vardef :=
  match x with
  | SL [Atom k; l; c; Atom n; t; dv] =>
      if String.eqb k "v" then
        match d_pos2 l c, d_ty t, d_ovalue dv with
        | Some p, Some t, Some dv => Some (mkVardef p n t dv)
        | _, _, _ => None
        end
      else None
  | _ => None
  end.

Definition d_kind (x : sexp) : option op_kind :=
  match x with
  | Atom a => if String.eqb a "sel" then Some OpSelSet else if String.eqb a "query" then Some OpQuery
              else if String.eqb a "mutation" then Some OpMutation
              else if String.eqb a "subscription" then Some OpSubscription else None
  | _ => None
  end.

Definition d_definition (x : sexp) : option definition :=
  match x with
  | SL [Atom k; kind; l; c; nm; vars; dirs; s1; s2; s3; s4; sels] =>
      if String.eqb k "op" then
        match d_kind kind, d_pos2 l c, d_oname nm, d_listx d_vardef vars, d_listx d_directive dirs,
              d_span s1 s2 s3 s4, d_listx d_selection sels with
        | Some kd, Some p, Some nm, Some vs, Some ds, Some sp, Some ss =>
            Some (DOp (mkOperation kd p nm vs ds sp ss))
        | _, _, _, _, _, _, _ => None
        end
      else None
  | SL [Atom k; l; c; Atom n; Atom tc; dirs; s1; s2; s3; s4; sels] =>
      if String.eqb k "fr" then
        match d_pos2 l c, d_listx d_directive dirs, d_span s1 s2 s3 s4, d_listx d_selection sels with
        | Some p, Some ds, Some sp, Some ss => Some (DFrag (mkFragment p n tc ds sp ss))
        | _, _, _, _ => None
        end
      else None
  | _ => None
  end.

Definition d_document (x : sexp) : option document :=
  match x with
  | SL (Atom k :: defs) => if String.eqb k "doc" then d_list d_definition defs else None
  | _ => None
  end.

(* ---- schema ---- *)
Definition d_iv (x : sexp) : option input_value_def :=
  match x with
  | SL [Atom k; Atom n; t; dv] =>
      if String.eqb k "iv" then
        match d_ty t, d_ovalue dv with Some t, Some dv => Some (mkIV n t dv) | _, _ => None end
      else None
  | _ => None
  end.
Definition d_fd (x : sexp) : option field_def :=
  match x with
  | SL [Atom k; Atom n; ivs; t] =>
      if String.eqb k "fd" then
        match d_listx d_iv ivs, d_ty t with Some a, Some t => Some (mkFD n a t) | _, _ => None end
      else None
  | _ => None
  end.
Definition d_loc (x : sexp) : option dir_loc :=
  match x with
  | Atom a =>
      if String.eqb a "QUERY" then Some LQuery else if String.eqb a "MUTATION" then Some LMutation
      else if String.eqb a "SUBSCRIPTION" then Some LSubscription else if String.eqb a "FIELD" then Some LField
      else if String.eqb a "FRAGMENT_DEFINITION" then Some LFragmentDefinition
      else if String.eqb a "FRAGMENT_SPREAD" then Some LFragmentSpread
      else if String.eqb a "INLINE_FRAGMENT" then Some LInlineFragment
      else if String.eqb a "VARIABLE_DEFINITION" then Some LVariableDefinition
      else if String.eqb a "SCHEMA" then Some LSchema else if String.eqb a "SCALAR" then Some LScalar
      else if String.eqb a "OBJECT" then Some LObject
      else if String.eqb a "FIELD_DEFINITION" then Some LFieldDefinition
      else if String.eqb a "ARGUMENT_DEFINITION" then Some LArgumentDefinition
      else if String.eqb a "INTERFACE" then Some LInterface else if String.eqb a "UNION" then Some LUnion
      else if String.eqb a "ENUM" then Some LEnum else if String.eqb a "ENUM_VALUE" then Some LEnumValue
      else if String.eqb a "INPUT_OBJECT" then Some LInputObject
      else if String.eqb a "INPUT_FIELD_DEFINITION" then Some LInputFieldDefinition else None
  | _ => None
  end.

Definition d_sdefinition (x : sexp) : option sdefinition :=
  match x with
  | SL [Atom k; Atom n; a; b] =>
      if String.eqb k "object" then
        match d_listx d_name a, d_listx d_fd b with
        | Some i, Some f => Some (SDType (TDObject n i f)) | _, _ => None end
      else if String.eqb k "interface" then
        match d_listx d_name a, d_listx d_fd b with
        | Some i, Some f => Some (SDType (TDInterface n i f)) | _, _ => None end
      else if String.eqb k "schema" then
        match d_oname (Atom n), d_oname a, d_oname b with
        | Some q, Some m, Some su => Some (SDSchema (mkSD q m su)) | _, _, _ => None end
      else None
  | SL [Atom k; Atom n; a] =>
      if String.eqb k "union" then opt_map (fun l => SDType (TDUnion n l)) (d_listx d_name a)
      else if String.eqb k "enum" then opt_map (fun l => SDType (TDEnum n l)) (d_listx d_name a)
      else if String.eqb k "input" then opt_map (fun l => SDType (TDInputObject n l)) (d_listx d_iv a)
      else None
  | SL [Atom k; Atom n] =>
      if String.eqb k "scalar" then Some (SDType (TDScalar n))
      else if String.eqb k "ext" then Some (SDTypeExt n) else None
  | SL [Atom k; Atom n; ivs; rep; locs] =>
      if String.eqb k "directive" then
        match d_listx d_iv ivs, d_bool rep, d_listx d_loc locs with
        | Some a, Some r, Some l => Some (SDDirective (mkDD n a r l))
        | _, _, _ => None
        end
      else None
  | _ => None
  end.

Definition d_sdocument (x : sexp) : option sdocument :=
  match x with
  | SL (Atom k :: defs) => if String.eqb k "sdoc" then d_list d_sdefinition defs else None
  | _ => None
  end.

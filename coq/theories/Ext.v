(* Ext.v — mirror of src/ast/ext.rs (helper traits on schema documents, types and values)
   and of do_types_overlap in src/validation/rules/possible_fragment_spreads.rs. *)
From GT Require Export Schema.

(* ---- TypeDefinitionExtension ---- *)
Definition td_name (t : type_def) : name :=
  match t with
  | TDObject n _ _ | TDInterface n _ _ | TDUnion n _ | TDScalar n | TDEnum n _ | TDInputObject n _ => n
  end.
Definition td_is_abstract (t : type_def) : bool :=
  match t with TDInterface _ _ _ | TDUnion _ _ => true | _ => false end.
Definition td_is_interface (t : type_def) : bool :=
  match t with TDInterface _ _ _ => true | _ => false end.
Definition td_is_leaf (t : type_def) : bool :=
  match t with TDScalar _ | TDEnum _ _ => true | _ => false end.
Definition td_is_input (t : type_def) : bool :=
  match t with TDScalar _ | TDEnum _ _ | TDInputObject _ _ => true | _ => false end.
Definition td_is_composite (t : type_def) : bool :=
  match t with TDObject _ _ _ | TDInterface _ _ _ | TDUnion _ _ => true | _ => false end.
Definition td_is_object (t : type_def) : bool :=
  match t with TDObject _ _ _ => true | _ => false end.
Definition td_is_union (t : type_def) : bool := match t with TDUnion _ _ => true | _ => false end.
Definition td_is_enum (t : type_def) : bool := match t with TDEnum _ _ => true | _ => false end.
Definition td_is_scalar (t : type_def) : bool := match t with TDScalar _ => true | _ => false end.

(* the impl for Option<&TypeDefinition>: name() of None is "" and every predicate is false *)
Definition otd_name (o : option type_def) : name :=
  match o with Some t => td_name t | None => "" end.
Definition otd_is_object (o : option type_def) : bool :=
  match o with Some t => td_is_object t | None => false end.

(* ---- FieldByNameExtension ---- *)
Definition field_by_name (t : type_def) (n : name) : option field_def :=
  match t with
  | TDObject _ _ fs | TDInterface _ _ fs => find_first (fun f => name_eqb (fd_name f) n) fs
  | _ => None
  end.
Definition input_field_by_name (t : type_def) (n : name) : option input_value_def :=
  match t with
  | TDInputObject _ fs => find_first (fun f => name_eqb (iv_name f) n) fs
  | _ => None
  end.

(* ---- SchemaDocumentExtension ---- *)
Fixpoint type_by_name (s : sdocument) (n : name) : option type_def :=
  match s with
  | [] => None
  | SDType t :: r => if name_eqb (td_name t) n then Some t else type_by_name r n
  | _ :: r => type_by_name r n
  end.

Fixpoint directive_by_name (s : sdocument) (n : name) : option directive_def :=
  match s with
  | [] => None
  | SDDirective x :: r => if name_eqb (dd_name x) n then Some x else directive_by_name r n
  | _ :: r => directive_by_name r n
  end.

(* OperationVisitorContext::directives : HashMap::from_iter — a later definition of the same
   name replaces an earlier one. *)
Fixpoint directive_map_get (s : sdocument) (n : name) : option directive_def :=
  match s with
  | [] => None
  | SDDirective x :: r =>
      match directive_map_get r n with
      | Some y => Some y
      | None => if name_eqb (dd_name x) n then Some x else None
      end
  | _ :: r => directive_map_get r n
  end.

Definition default_schema_def : schema_def :=
  {| sd_query := Some "Query"; sd_mutation := Some "Mutation"; sd_subscription := Some "Subscription" |}.

Fixpoint find_schema_def (s : sdocument) : option schema_def :=
  match s with
  | [] => None
  | SDSchema x :: _ => Some x
  | _ :: r => find_schema_def r
  end.

Definition schema_definition (s : sdocument) : schema_def :=
  match find_schema_def s with Some x => x | None => default_schema_def end.

Definition object_type_by_name (s : sdocument) (n : name) : option type_def :=
  match type_by_name s n with
  | Some (TDObject a b c) => Some (TDObject a b c)
  | _ => None
  end.

(* query_type() unwraps: None here is the panic. *)
Definition query_type (s : sdocument) : option type_def :=
  object_type_by_name s (match sd_query (schema_definition s) with Some q => q | None => "Query" end).
Definition mutation_type (s : sdocument) : option type_def :=
  opt_bind (sd_mutation (schema_definition s)) (object_type_by_name s).
Definition subscription_type (s : sdocument) : option type_def :=
  opt_bind (sd_subscription (schema_definition s)) (object_type_by_name s).

(* type_map(): HashMap insert — last definition of a name wins; keys in first-insertion order. *)
Definition type_defs (s : sdocument) : list type_def :=
  flat_map (fun x => match x with SDType t => [t] | _ => [] end) s.
Fixpoint type_map_get (s : sdocument) (n : name) : option type_def :=
  match s with
  | [] => None
  | SDType t :: r =>
      match type_map_get r n with
      | Some u => Some u
      | None => if name_eqb (td_name t) n then Some t else None
      end
  | _ :: r => type_map_get r n
  end.
Definition type_map_keys (s : sdocument) : list name :=
  rev (dedup_names (rev (map td_name (type_defs s)))).
Definition type_map_values (s : sdocument) : list type_def :=
  flat_map (fun n => match type_map_get s n with Some t => [t] | None => [] end) (type_map_keys s).

(* ---- ImplementingInterfaceExtension / SubTypeExtension / AbstractTypeDefinitionExtension ---- *)
Definition td_interfaces (t : type_def) : list name :=
  match t with TDObject _ i _ | TDInterface _ i _ => i | _ => [] end.
(* InterfaceType::is_implemented_by(other) *)
Definition iface_is_implemented_by (iface_name : name) (other : type_def) : bool :=
  existsb (fun v => name_eqb iface_name v) (td_interfaces other).
(* UnionType::has_sub_type(name) *)
Definition union_has_sub_type (types : list name) (other : name) : bool :=
  existsb (fun v => name_eqb other v) types.
Definition td_has_sub_type (t other : type_def) : bool :=
  match t with
  | TDInterface n _ _ => iface_is_implemented_by n other
  | TDUnion _ types => union_has_sub_type types (td_name other)
  | _ => false
  end.
(* has_concrete_sub_type(&ObjectType) — the argument is an object type *)
Definition td_has_concrete_sub_type (t obj : type_def) : bool :=
  match t with
  | TDInterface n _ _ => iface_is_implemented_by n obj
  | TDUnion _ types => union_has_sub_type types (td_name obj)
  | _ => false
  end.

Definition is_possible_type (abstract_type possible_type : type_def) : bool :=
  match abstract_type with
  | TDUnion _ types => existsb (fun t => name_eqb t (td_name possible_type)) types
  | TDInterface n _ _ => mem_name n (td_interfaces possible_type)
  | _ => false
  end.

Definition is_named_subtype (s : sdocument) (sub super : name) : bool :=
  if name_eqb sub super then true
  else match type_by_name s sub, type_by_name s super with
       | Some sub_t, Some super_t => td_is_abstract super_t && is_possible_type super_t sub_t
       | _, _ => false
       end.

(* is_subtype recurses on of_type of one or both arguments; fuel = ty_size sub + ty_size super
   always suffices (Proofs: is_subtype_fuel_enough). *)
Fixpoint is_subtype_fuel (fuel : nat) (s : sdocument) (sub super : ty) : bool :=
  match fuel with
  | O => false
  | S fuel =>
    if ty_eqb sub super then true
    else if is_non_null super then
      (if is_non_null sub then is_subtype_fuel fuel s (of_type sub) (of_type super) else false)
    else if is_non_null sub then is_subtype_fuel fuel s (of_type sub) super
    else if is_list_type super then
      (if is_list_type sub then is_subtype_fuel fuel s (of_type sub) (of_type super) else false)
    else if is_list_type sub then false
    else match type_by_name s (inner_type sub), type_by_name s (inner_type super) with
         | Some sub_t, Some super_t =>
             td_is_abstract super_t && (td_is_interface sub_t || td_is_object sub_t)
             && is_possible_type super_t sub_t
         | _, _ => false
         end
  end.
Definition is_subtype (s : sdocument) (sub super : ty) : bool :=
  is_subtype_fuel (ty_size sub + ty_size super) s sub super.

(* ---- PossibleTypesExtension ---- *)
Definition possible_types (s : sdocument) (t : type_def) : list type_def :=
  match t with
  | TDInterface n _ _ =>
      filter (fun o => td_is_object o && iface_is_implemented_by n o) (type_map_values s)
  | TDUnion _ types =>
      flat_map (fun tn => match type_by_name s tn with
                          | Some (TDObject a b c) => [TDObject a b c]
                          | _ => [] end) types
  | _ => []
  end.

(* possible_fragment_spreads.rs: do_types_overlap *)
Definition do_types_overlap (s : sdocument) (t1 t2 : type_def) : bool :=
  if name_eqb (td_name t1) (td_name t2) then true
  else if td_is_abstract t1 then
    (if td_is_abstract t2 then
       negb (Nat.eqb (List.length (filter (fun p => td_has_concrete_sub_type t2 p) (possible_types s t1))) 0)
     else td_has_sub_type t1 t2)
  else if td_is_abstract t2 then td_has_sub_type t2 t1
  else false.

(* ---- ValueExtension ---- *)


(* f64 == on bit patterns: equal bits, or +0.0 / -0.0 (the parser cannot produce NaN) *)
Definition float_is_zero (b : N) : bool := N.eqb b 0 || N.eqb b 9223372036854775808.
Definition float_bits_eqb (x y : N) : bool := N.eqb x y || (float_is_zero x && float_is_zero y).

Fixpoint value_compare (a b : value) {struct a} : bool :=
  match a, b with
  | VNull, VNull => true
  | VBool x, VBool y => Bool.eqb x y
  | VInt x, VInt y => Z.eqb x y
  | VFloat x, VFloat y => float_bits_eqb x y
  | VString x, VString y => String.eqb x y
  | VEnum x, VEnum y => name_eqb x y
  | VList x, VList y =>
      Nat.eqb (List.length x) (List.length y) &&
      (fix go (x y : list value) : bool :=
         match x, y with
         | u :: x', v :: y' => value_compare u v && go x' y'
         | _, _ => true
         end) x y
  | VObject x, VObject y =>
      Nat.eqb (List.length x) (List.length y) &&
      (fix go (x y : list (name * value)) : bool :=
         match x, y with
         | (k, u) :: x', (k', v) :: y' => name_eqb k k' && value_compare u v && go x' y'
         | _, _ => true
         end) x y
  | VVar x, VVar y => name_eqb x y
  | _, _ => false
  end.

Fixpoint variables_in_use (v : value) : list name :=
  match v with
  | VVar x => [x]
  | VList l => flat_map variables_in_use l
  | VObject l => flat_map (fun kv => variables_in_use (snd kv)) l
  | _ => []
  end.

(* ---- InputValueHelpers ---- *)
Definition iv_is_required (iv : input_value_def) : bool :=
  match iv_type iv with
  | TNonNull _ => is_none (iv_default iv)
  | _ => false
  end.

(* ---- FragmentSpreadExtraction ---- *)
Definition get_fragment_spreads (sels : list selection) : list (pos * name) :=
  flat_map (fun x => match x with SSpread p n _ => [(p, n)] | _ => [] end) sels.
Fixpoint spreads_of_selection (x : selection) : list (pos * name) :=
  match x with
  | SSpread p n _ => [(p, n)]
  | SField _ _ _ _ _ _ ss => flat_map spreads_of_selection ss
  | SInline _ _ _ _ ss => flat_map spreads_of_selection ss
  end.
Definition get_recursive_fragment_spreads (sels : list selection) : list (pos * name) :=
  flat_map spreads_of_selection sels.

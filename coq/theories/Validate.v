(* Validate.v — mirror of src/validation/validate.rs and rules/defaults.rs: a plan is a list of
   rules; validate creates one context, runs every rule's walk on it in plan order and collects
   all errors in one list. *)
From GT Require Export Rules Merge.

Definition default_plan : list rule_id :=
  [R_UniqueOperationNames; R_LoneAnonymousOperation; R_SingleFieldSubscriptions; R_KnownTypeNames;
   R_FragmentsOnCompositeTypes; R_VariablesAreInputTypes; R_LeafFieldSelections; R_FieldsOnCorrectType;
   R_UniqueFragmentNames; R_KnownFragmentNames; R_NoUnusedFragments; R_OverlappingFieldsCanBeMerged;
   R_NoFragmentsCycle; R_PossibleFragmentSpreads; R_NoUnusedVariables; R_NoUndefinedVariables;
   R_KnownArgumentNames; R_UniqueArgumentNames; R_UniqueVariableNames; R_ProvidedRequiredArguments;
   R_KnownDirectives; R_VariablesInAllowedPosition; R_ValuesOfCorrectType; R_UniqueDirectivesPerLocation].

Definition all_rules : list rule_id := default_plan.

Definition plain (errs : list verror) : rule_result := mkRes errs false.

(* one rule's ValidationRule::validate: a fresh rule value, one walk of the document on the
   shared context, then the rule's post-walk step.  Returns the context after the walk. *)
Definition run_rule (r : rule_id) (s : sdocument) (d : document) (c : ctx) : ctx * rule_result :=
  match r with
  | R_UniqueOperationNames =>
      let '(c', st) := visit_document uon_step s d c [] in (c', plain (counts_finish r st))
  | R_UniqueFragmentNames =>
      let '(c', st) := visit_document ufn_step s d c [] in (c', plain (counts_finish r st))
  | R_LoneAnonymousOperation =>
      let '(c', st) := visit_document lao_step s d c [] in (c', plain st)
  | R_SingleFieldSubscriptions => visit_document (sfs_step s d) s d c (mkRes [] false)
  | R_KnownTypeNames => let '(c', st) := visit_document (ktn_step s) s d c [] in (c', plain st)
  | R_FragmentsOnCompositeTypes => let '(c', st) := visit_document (foc_step s) s d c [] in (c', plain st)
  | R_VariablesAreInputTypes => let '(c', st) := visit_document (vit_step s) s d c [] in (c', plain st)
  | R_LeafFieldSelections => let '(c', st) := visit_document lfs_step s d c [] in (c', plain st)
  | R_FieldsOnCorrectType => let '(c', st) := visit_document (foct_step s) s d c [] in (c', plain st)
  | R_KnownFragmentNames => let '(c', st) := visit_document (kfn_step d) s d c [] in (c', plain st)
  | R_NoUnusedFragments =>
      let '(c', st) := visit_document (nuf_step d) s d c (mkNuf None [] [] (mkRes [] false)) in (c', nuf_res st)
  | R_OverlappingFieldsCanBeMerged =>
      let '(c', st) := visit_document (ofm_step s d) s d c (mkOfm [] (mkRes [] false)) in (c', ofm_res st)
  | R_NoFragmentsCycle =>
      let '(c', st) := visit_document (nfc_step d) s d c (mkNfc [] (mkRes [] false)) in (c', nfc_res st)
  | R_PossibleFragmentSpreads => let '(c', st) := visit_document (pfs_step s d) s d c [] in (c', plain st)
  | R_NoUnusedVariables =>
      let '(c', st) := visit_document (fun st e _ => vars_collect st e) s d c vars_init in (c', nuv_finish d st)
  | R_NoUndefinedVariables =>
      let '(c', st) := visit_document (fun st e _ => vars_collect st e) s d c vars_init in (c', nudv_finish d st)
  | R_KnownArgumentNames =>
      let '(c', st) := visit_document (kan_step s) s d c (mkKan None []) in (c', plain (kan_errs st))
  | R_UniqueArgumentNames => let '(c', st) := visit_document uan_step s d c [] in (c', plain st)
  | R_UniqueVariableNames =>
      let '(c', st) := visit_document uvn_step s d c (mkUvn [] []) in (c', plain (uvn_errs st))
  | R_ProvidedRequiredArguments => let '(c', st) := visit_document (pra_step s) s d c [] in (c', plain st)
  | R_KnownDirectives =>
      let '(c', st) := visit_document (kd_step s) s d c (mkKd None []) in (c', plain (kd_errs st))
  | R_VariablesInAllowedPosition =>
      let '(c', st) := visit_document (viap_collect s) s d c viap_init in (c', viap_finish s d st)
  | R_ValuesOfCorrectType => let '(c', st) := visit_document (vct_step s) s d c [] in (c', plain st)
  | R_UniqueDirectivesPerLocation => let '(c', st) := visit_document (udl_step s) s d c [] in (c', plain st)
  end.

Inductive outcome :=
| Ok (errs : list verror)
| Panic            (* query_type().unwrap() on a schema without a query root object *)
| OutOfFuel.

Definition validate (s : sdocument) (d : document) (plan : list rule_id) : outcome :=
  if is_nil plan then Ok []
  else if document_panics s d then Panic
  else
    let '(_, res) :=
      fold_left (fun (acc : ctx * rule_result) (r : rule_id) =>
                   let '(c', rr) := run_rule r s d (fst acc) in
                   (c', mkRes (r_errors (snd acc) ++ r_errors rr) (r_oof (snd acc) || r_oof rr)))
                plan (ctx0, mkRes [] false) in
    if r_oof res then OutOfFuel else Ok (r_errors res).

(* a rule run alone, from the initial context *)
Definition run_alone (r : rule_id) (s : sdocument) (d : document) : list verror :=
  r_errors (snd (run_rule r s d ctx0)).

Definition code_of (r : rule_id) : string :=
  match r with
  | R_UniqueOperationNames => "UniqueOperationNames" | R_LoneAnonymousOperation => "LoneAnonymousOperation"
  | R_SingleFieldSubscriptions => "SingleFieldSubscriptions" | R_KnownTypeNames => "KnownTypeNames"
  | R_FragmentsOnCompositeTypes => "FragmentsOnCompositeTypes" | R_VariablesAreInputTypes => "VariablesAreInputTypes"
  | R_LeafFieldSelections => "LeafFieldSelections" | R_FieldsOnCorrectType => "FieldsOnCorrectType"
  | R_UniqueFragmentNames => "UniqueFragmentNames" | R_KnownFragmentNames => "KnownFragmentNames"
  | R_NoUnusedFragments => "NoUnusedFragments" | R_OverlappingFieldsCanBeMerged => "OverlappingFieldsCanBeMerged"
  | R_NoFragmentsCycle => "NoFragmentsCycle" | R_PossibleFragmentSpreads => "PossibleFragmentSpreads"
  | R_NoUnusedVariables => "NoUnusedVariables" | R_NoUndefinedVariables => "NoUndefinedVariables"
  | R_KnownArgumentNames => "KnownArgumentNames" | R_UniqueArgumentNames => "UniqueArgumentNames"
  | R_UniqueVariableNames => "UniqueVariableNames" | R_ProvidedRequiredArguments => "ProvidedRequiredArguments"
  | R_KnownDirectives => "KnownDirectives" | R_VariablesInAllowedPosition => "VariablesInAllowedPosition"
  | R_ValuesOfCorrectType => "ValuesOfCorrectType" | R_UniqueDirectivesPerLocation => "UniqueDirectivesPerLocation"
  end.

Definition rule_of_code (c : string) : option rule_id :=
  find_first (fun r => String.eqb (code_of r) c) all_rules.

(* Render.v — canonical textual rendering of model results (trusted glue of the correspondence
   check; the Rust harness prints the implementation's results in the same format). *)
From GT Require Export Visitor SchemaVisitor Validate.
From Coq Require Import DecimalString.
Local Open Scope string_scope.

Definition s_N (n : N) : string := NilZero.string_of_uint (N.to_uint n).
Definition s_Z (z : Z) : string := NilZero.string_of_int (Z.to_int z).
Definition s_nat (n : nat) : string := s_N (N.of_nat n).
Definition s_pos (p : pos) : string := s_N (fst p) ++ ":" ++ s_N (snd p).
Definition s_span (sp : span) : string := s_pos (fst sp) ++ "-" ++ s_pos (snd sp).
Definition s_oname (o : option name) : string := match o with Some n => n | None => "-" end.
Definition s_bool (b : bool) : string := if b then "t" else "f".

Fixpoint s_ty (t : ty) : string :=
  match t with
  | TNamed n => n
  | TList c => "[" ++ s_ty c ++ "]"
  | TNonNull c => s_ty c ++ "!"
  end.
Definition s_oty (o : option ty) : string := match o with Some t => s_ty t | None => "-" end.

Definition hex_digit (n : N) : ascii :=
  if (n <? 10)%N then ascii_of_N (48 + n) else ascii_of_N (87 + n).
Fixpoint s_hex (s : string) : string :=
  match s with
  | EmptyString => EmptyString
  | String c r => let n := N_of_ascii c in
                  String (hex_digit (n / 16)) (String (hex_digit (n mod 16)) (s_hex r))
  end.

Definition sep_by (sep : string) (l : list string) : string :=
  match l with
  | [] => ""
  | x :: r => fold_left (fun acc y => acc ++ sep ++ y) r x
  end.

Fixpoint s_value (v : value) : string :=
  match v with
  | VVar n => "(var " ++ n ++ ")"
  | VInt z => "(int " ++ s_Z z ++ ")"
  | VFloat b => "(flt " ++ s_N b ++ ")"
  | VString s => match s with EmptyString => "(str)" | _ => "(str " ++ s_hex s ++ ")" end
  | VBool b => "(bool " ++ s_bool b ++ ")"
  | VNull => "null"
  | VEnum n => "(enum " ++ n ++ ")"
  | VList l => "(list" ++ fold_left (fun acc x => acc ++ " " ++ s_value x) l "" ++ ")"
  | VObject l =>
      "(obj" ++ fold_left (fun acc kv => acc ++ " (" ++ fst kv ++ " " ++ s_value (snd kv) ++ ")") l "" ++ ")"
  end.

Definition s_td (t : type_def) : string :=
  match t with
  | TDObject n _ _ => "O:" ++ n
  | TDInterface n _ _ => "I:" ++ n
  | TDUnion n _ => "U:" ++ n
  | TDScalar n => "S:" ++ n
  | TDEnum n _ => "E:" ++ n
  | TDInputObject n _ => "N:" ++ n
  end.
Definition s_otd (o : option type_def) : string := match o with Some t => s_td t | None => "-" end.
Definition s_ofd (o : option field_def) : string :=
  match o with Some f => fd_name f ++ ":" ++ s_ty (fd_type f) | None => "-" end.

Definition s_kind (k : op_kind) : string :=
  match k with OpSelSet => "sel" | OpQuery => "query" | OpMutation => "mutation" | OpSubscription => "subscription" end.

Definition s_node (n : node) : string :=
  match n with
  | NDocument d => "Doc " ++ s_nat (List.length d)
  | NOperation o => "Op " ++ s_kind (o_kind o) ++ " " ++
                    match o_kind o with OpSelSet => "-" | _ => s_pos (o_pos o) end ++ " " ++ s_oname (op_node_name o)
  | NFragmentDef f => "Frag " ++ s_pos (fr_pos f) ++ " " ++ fr_name f ++ " " ++ fr_tc f
  | NVarDef v => "Var " ++ s_pos (v_pos v) ++ " " ++ v_name v ++ " " ++ s_ty (v_type v)
  | NDirective d => "Dir " ++ s_pos (d_pos d) ++ " " ++ d_name d ++ " " ++ s_nat (List.length (d_args d))
  | NArgument a => "Arg " ++ fst a ++ " " ++ s_value (snd a)
  | NSelectionSet sp items => "Sel " ++ s_span sp ++ " " ++ s_nat (List.length items)
  | NField (SField p al n args dirs sp sels) =>
      "Field " ++ s_pos p ++ " " ++ s_oname al ++ " " ++ n ++ " " ++ s_nat (List.length args) ++ " " ++
      s_nat (List.length dirs) ++ " " ++ s_nat (List.length sels)
  | NSpread (SSpread p n dirs) => "Spread " ++ s_pos p ++ " " ++ n ++ " " ++ s_nat (List.length dirs)
  | NInline (SInline p tc dirs sp sels) =>
      "Inline " ++ s_pos p ++ " " ++ s_oname tc ++ " " ++ s_nat (List.length dirs) ++ " " ++ s_nat (List.length sels)
  | NField _ | NSpread _ | NInline _ => "BAD"
  | NNull => "Null"
  | NScalar v => "Scalar " ++ s_value v
  | NEnum x => "Enum " ++ x
  | NVariable x => "Variable " ++ x
  | NList l => "List " ++ s_value (VList l)
  | NObject l => "Object " ++ s_value (VObject l)
  | NObjectField kv => "OField " ++ fst kv ++ " " ++ s_value (snd kv)
  end.

Definition s_event (e : event) : string :=
  match e with Enter n => "+" ++ s_node n | Leave n => "-" ++ s_node n end.

Definition s_answers (a : answers) : string :=
  "T=" ++ s_otd (a_type a) ++ " TL=" ++ s_oty (a_type_lit a) ++ " P=" ++ s_otd (a_parent a) ++
  " F=" ++ s_ofd (a_field a) ++ " I=" ++ s_otd (a_input a) ++ " IL=" ++ s_oty (a_input_lit a).

Definition s_depths (c : ctx) : string :=
  sep_by "," [s_nat (List.length (type_stack c)); s_nat (List.length (parent_type_stack c));
              s_nat (List.length (input_type_stack c)); s_nat (List.length (type_literal_stack c));
              s_nat (List.length (input_type_literal_stack c)); s_nat (List.length (field_stack c))].

Definition nl : string := String (ascii_of_N 10) EmptyString.

(* one line per callback, then the stack depths after the walk *)
Definition render_trace (s : sdocument) (d : document) : list string :=
  if document_panics s d then ["PANIC"]
  else
    let '(c', tr) := tr_document s d ctx0 in
    List.app (map (fun ec : event * ctx => s_event (fst ec) ++ " | " ++ s_answers (answers_of (snd ec))) tr)
             ["DEPTHS " ++ s_depths c'].

Definition s_iv (f : input_value_def) : string := iv_name f ++ ":" ++ s_ty (iv_type f).
Definition s_snode (n : snode) : string :=
  match n with
  | SNDocument d => "Doc " ++ s_nat (List.length d)
  | SNSchemaDef x => "SchemaDef " ++ s_oname (sd_query x) ++ " " ++ s_oname (sd_mutation x) ++ " " ++ s_oname (sd_subscription x)
  | SNTypeDef t => "TypeDef " ++ s_td t
  | SNObject t => "Object " ++ s_td t
  | SNObjectField f o => "ObjectField " ++ s_ofd (Some f) ++ " " ++ s_td o
  | SNScalar t => "Scalar " ++ s_td t
  | SNEnum t => "Enum " ++ s_td t
  | SNEnumValue v o => "EnumValue " ++ v ++ " " ++ s_td o
  | SNUnion t => "Union " ++ s_td t
  | SNInputObject t => "InputObject " ++ s_td t
  | SNInputField f o => "InputField " ++ s_iv f ++ " " ++ s_td o
  | SNInterface t => "Interface " ++ s_td t
  | SNInterfaceField f o => "InterfaceField " ++ s_ofd (Some f) ++ " " ++ s_td o
  | SNDirectiveDef x => "DirectiveDef " ++ dd_name x
  end.
Definition s_sevent (e : sevent) : string :=
  match e with SEnter n => "+" ++ s_snode n | SLeave n => "-" ++ s_snode n end.
Definition render_strace (sd : sdocument) : list string :=
  match visit_schema_document sd with
  | None => ["PANIC"]
  | Some ev => map s_sevent ev
  end.

(* ---- validation results ---- *)
Definition s_error (e : verror) : string :=
  "E " ++ code_of (e_rule e) ++ " | " ++ sep_by "," (map s_pos (e_locs e)) ++ " | " ++
  match e_info e with EmptyString => "-" | i => i end.

Definition rule_eqb (a b : rule_id) : bool := String.eqb (code_of a) (code_of b).

(* errors grouped into maximal runs of one rule; inside a run the order is unspecified *)
Fixpoint render_errors_aux (cur : option rule_id) (l : list verror) : list string :=
  match l with
  | [] => match cur with Some _ => ["#ORDERED"] | None => [] end
  | e :: r =>
      let same := match cur with Some c => rule_eqb c (e_rule e) | None => false end in
      List.app (if same then []
                else List.app (match cur with Some _ => ["#ORDERED"] | None => [] end) ["#UNORDERED"])
               (s_error e :: render_errors_aux (Some (e_rule e)) r)
  end.
Definition render_errors (l : list verror) : list string := render_errors_aux None l.

Definition render_outcome (o : outcome) : list string :=
  match o with
  | Ok errs => "OK" :: render_errors errs
  | Panic => ["PANIC"]
  | OutOfFuel => ["OUTOFFUEL"]
  end.

(* ---- documents as S-expressions (same format as harness/src/sx.rs) ---- *)
Fixpoint x_ty (t : ty) : string :=
  match t with
  | TNamed n => n
  | TList c => "(l " ++ x_ty c ++ ")"
  | TNonNull c => "(n " ++ x_ty c ++ ")"
  end.
Definition x_p (p : pos) : string := s_N (fst p) ++ " " ++ s_N (snd p).
Definition x_list (l : list string) : string := "(" ++ sep_by " " l ++ ")".
Definition x_args (a : list argument) : string :=
  x_list (map (fun kv : argument => "(" ++ fst kv ++ " " ++ s_value (snd kv) ++ ")") a).
Definition x_dirs (ds : list directive) : string :=
  x_list (map (fun d => "(d " ++ x_p (d_pos d) ++ " " ++ d_name d ++ " " ++ x_args (d_args d) ++ ")") ds).
Definition x_span (sp : span) : string := x_p (fst sp) ++ " " ++ x_p (snd sp).
Fixpoint x_selection (x : selection) : string :=
  match x with
  | SField p al n args dirs sp sels =>
      "(f " ++ x_p p ++ " " ++ s_oname al ++ " " ++ n ++ " " ++ x_args args ++ " " ++ x_dirs dirs ++ " " ++
      x_span sp ++ " " ++ x_list (map x_selection sels) ++ ")"
  | SSpread p n dirs => "(s " ++ x_p p ++ " " ++ n ++ " " ++ x_dirs dirs ++ ")"
  | SInline p tc dirs sp sels =>
      "(i " ++ x_p p ++ " " ++ s_oname tc ++ " " ++ x_dirs dirs ++ " " ++ x_span sp ++ " " ++
      x_list (map x_selection sels) ++ ")"
  end.
Definition x_vardefs (vs : list vardef) : string :=
  x_list (map (fun v => "(v " ++ x_p (v_pos v) ++ " " ++ v_name v ++ " " ++ x_ty (v_type v) ++ " " ++
                        match v_default v with Some dv => "(some " ++ s_value dv ++ ")" | None => "-" end ++ ")") vs).
Definition x_definition (x : definition) : string :=
  match x with
  | DOp o =>
      match o_kind o with
      | OpSelSet => "(op sel 0 0 - () () " ++ x_span (o_span o) ++ " " ++ x_list (map x_selection (o_sels o)) ++ ")"
      | k => "(op " ++ s_kind k ++ " " ++ x_p (o_pos o) ++ " " ++ s_oname (o_name o) ++ " " ++ x_vardefs (o_vars o) ++ " " ++
             x_dirs (o_dirs o) ++ " " ++ x_span (o_span o) ++ " " ++ x_list (map x_selection (o_sels o)) ++ ")"
      end
  | DFrag f =>
      "(fr " ++ x_p (fr_pos f) ++ " " ++ fr_name f ++ " " ++ fr_tc f ++ " " ++ x_dirs (fr_dirs f) ++ " " ++
      x_span (fr_span f) ++ " " ++ x_list (map x_selection (fr_sels f)) ++ ")"
  end.
Definition x_document (d : document) : string :=
  match d with [] => "(doc)" | _ => "(doc " ++ sep_by " " (map x_definition d) ++ ")" end.

(* Json.v — JSON trees (the data model of serde_json after byte-level parsing), their decoder
   from the S-expressions of the case format (tools: harness/src/op_introspect.rs `J::sexp`) and
   a compact JSON text printer.  Objects are association lists IN ORDER and MAY contain the same
   key several times (serde sees every member of the text; it is serde's visitors that decide
   what a repeated member means).  Numbers: only integers occur in the case format. *)
From GT Require Export Sexp Render.
Local Open Scope string_scope.

Inductive json : Type :=
| JNull
| JBool (b : bool)
| JNum (z : Z)
| JStr (s : string)
| JArr (l : list json)
| JObj (es : list (string * json)).

(* ---- decoder from S-expressions ----
   null | (b t) | (b f) | (n <int>) | (s <hex>|-) | (a v...) | (o (<hexkey>|- v)...) *)
Definition d_hexstr (a : string) : option string :=
  if String.eqb a "-" then Some EmptyString else parse_hex a.

Fixpoint d_json (x : sexp) : option json :=
  match x with
  | Atom a => if String.eqb a "null" then Some JNull else None
  | SL (Atom k :: rest) =>
      if String.eqb k "b" then match rest with [b] => opt_map JBool (d_bool b) | _ => None end
      else if String.eqb k "n" then match rest with [Atom n] => opt_map JNum (parse_Z n) | _ => None end
      else if String.eqb k "s" then match rest with [Atom h] => opt_map JStr (d_hexstr h) | _ => None end
      else if String.eqb k "a" then
        opt_map JArr
          ((fix go (l : list sexp) : option (list json) :=
              match l with
              | [] => Some []
              | y :: r => match d_json y, go r with Some a, Some b => Some (a :: b) | _, _ => None end
              end) rest)
      else if String.eqb k "o" then
        opt_map JObj
          ((fix go (l : list sexp) : option (list (string * json)) :=
              match l with
              | [] => Some []
              | SL [Atom hk; v] :: r =>
                  match d_hexstr hk, d_json v, go r with
                  | Some kk, Some a, Some b => Some ((kk, a) :: b)
                  | _, _, _ => None
                  end
              | _ => None
              end) rest)
      else None
  | _ => None
  end.

(* ---- compact JSON text (continuation-passing: linear in the size of the output) ----
   strings: double quote and backslash escaped, bytes < 0x20 as \u00XX, everything else raw *)
Fixpoint put_escaped (s : string) (rest : string) : string :=
  match s with
  | EmptyString => rest
  | String c r =>
      let n := N_of_ascii c in
      if Ascii.eqb c """"%char then String "\"%char (String """"%char (put_escaped r rest))
      else if Ascii.eqb c "\"%char then String "\"%char (String "\"%char (put_escaped r rest))
      else if (n <? 32)%N then
        String "\"%char (String "u"%char (String "0"%char (String "0"%char
          (String (hex_digit (n / 16)) (String (hex_digit (n mod 16)) (put_escaped r rest))))))
      else String c (put_escaped r rest)
  end.
Definition put_quoted (s : string) (rest : string) : string :=
  String """"%char (put_escaped s (String """"%char rest)).

Fixpoint j_put (j : json) (rest : string) : string :=
  match j with
  | JNull => "null" ++ rest
  | JBool b => (if b then "true" else "false") ++ rest
  | JNum z => s_Z z ++ rest
  | JStr s => put_quoted s rest
  | JArr l =>
      String "["%char
        ((fix go (l : list json) (first : bool) (rest : string) : string :=
            match l with
            | [] => rest
            | x :: r =>
                let t := j_put x (go r false rest) in
                if first then t else String ","%char t
            end) l true (String "]"%char rest))
  | JObj es =>
      String "{"%char
        ((fix go (es : list (string * json)) (first : bool) (rest : string) : string :=
            match es with
            | [] => rest
            | (k, v) :: r =>
                let t := put_quoted k (String ":"%char (j_put v (go r false rest))) in
                if first then t else String ","%char t
            end) es true (String "}"%char rest))
  end.
Definition json_text (j : json) : string := j_put j EmptyString.

(* ---- induction principle (json is nested through list and prod) ---- *)
Section JsonInd.
  Variable P : json -> Prop.
  Hypothesis Hnull : P JNull.
  Hypothesis Hbool : forall b, P (JBool b).
  Hypothesis Hnum : forall z, P (JNum z).
  Hypothesis Hstr : forall s, P (JStr s).
  Hypothesis Harr : forall l, Forall P l -> P (JArr l).
  Hypothesis Hobj : forall es, Forall (fun kv => P (snd kv)) es -> P (JObj es).
  Fixpoint json_ind' (j : json) : P j :=
    match j with
    | JNull => Hnull
    | JBool b => Hbool b
    | JNum z => Hnum z
    | JStr s => Hstr s
    | JArr l =>
        Harr l ((fix go (l : list json) : Forall P l :=
                   match l with
                   | [] => Forall_nil _
                   | x :: r => Forall_cons x (json_ind' x) (go r)
                   end) l)
    | JObj es =>
        Hobj es ((fix go (es : list (string * json)) : Forall (fun kv => P (snd kv)) es :=
                    match es with
                    | [] => Forall_nil _
                    | (k, v) :: r => Forall_cons (k, v) (json_ind' v) (go r)
                    end) es)
    end.
End JsonInd.

(* ---- keys of objects ---- *)
Definition has_key (k : string) (es : list (string * json)) : bool :=
  existsb (fun kv => String.eqb k (fst kv)) es.

Fixpoint keys_unique (es : list (string * json)) : bool :=
  match es with
  | [] => true
  | (k, _) :: r => negb (has_key k r) && keys_unique r
  end.

(* no object anywhere inside j has two members with the same key *)
Fixpoint no_dup_keys (j : json) : bool :=
  match j with
  | JArr l => (fix go (l : list json) : bool :=
                 match l with [] => true | x :: r => no_dup_keys x && go r end) l
  | JObj es =>
      keys_unique es &&
      (fix go (es : list (string * json)) : bool :=
         match es with [] => true | (_, v) :: r => no_dup_keys v && go r end) es
  | _ => true
  end.

(* Visitor.v — mirror of src/ast/operation_visitor.rs: the context with its six private
   stacks, the four with_* helpers (push – call – pop) and visit_document with its helpers.
   A visitor is modelled by one handler [h : St -> event -> ctx -> St]; the 38 enter_*/leave_*
   trait methods correspond to the (Enter|Leave, node kind) combinations of [event].
   The handler receives the context read-only (no rule in the crate mutates it). *)
From GT Require Export Ext.

Record ctx := mkCtx {
  type_stack : list (option type_def);
  parent_type_stack : list (option type_def);
  input_type_stack : list (option type_def);
  type_literal_stack : list (option ty);
  input_type_literal_stack : list (option ty);
  field_stack : list (option field_def) }.

Definition ctx0 : ctx := mkCtx [] [] [] [] [] [].

Definition current_type (c : ctx) := top (type_stack c).
Definition current_input_type (c : ctx) := top (input_type_stack c).
Definition current_parent_type (c : ctx) := top (parent_type_stack c).
Definition current_type_literal (c : ctx) := top (type_literal_stack c).
Definition current_input_type_literal (c : ctx) := top (input_type_literal_stack c).
Definition current_field (c : ctx) := top (field_stack c).

Inductive node : Type :=
| NDocument (d : document)
| NOperation (o : operation)
| NFragmentDef (f : fragment_def)
| NVarDef (v : vardef)
| NDirective (d : directive)
| NArgument (a : argument)
| NSelectionSet (sp : span) (items : list selection)
| NField (f : selection)
| NSpread (f : selection)
| NInline (f : selection)
| NNull
| NScalar (v : value)
| NEnum (n : name)
| NVariable (n : name)
| NList (l : list value)
| NObject (l : list (name * value))
| NObjectField (kv : name * value).

Inductive event := Enter (n : node) | Leave (n : node).

Section Visit.
  Variable St : Type.
  Variable h : St -> event -> ctx -> St.
  Variable s : sdocument.

  Definition vres := (ctx * St)%type.
  Definition vfun := ctx -> St -> vres.

  Definition emit (e : event) : vfun := fun c st => (c, h st e c).
  Definition andthen (f g : vfun) : vfun := fun c st => let '(c1, st1) := f c st in g c1 st1.
  Infix ">>" := andthen (at level 61, left associativity).

  (* `for x in l { f(x) }` *)
  Definition seqv {A} (f : A -> vfun) : list A -> vfun :=
    fix go (l : list A) : vfun :=
      match l with
      | [] => fun c st => (c, st)
      | x :: r => f x >> go r
      end.

  Definition push_type (t : option ty) (c : ctx) : ctx :=
    mkCtx (opt_bind t (fun t => type_by_name s (inner_type t)) :: type_stack c)
          (parent_type_stack c) (input_type_stack c)
          (t :: type_literal_stack c) (input_type_literal_stack c) (field_stack c).
  Definition pop_type (c : ctx) : ctx :=
    mkCtx (tl (type_stack c)) (parent_type_stack c) (input_type_stack c)
          (tl (type_literal_stack c)) (input_type_literal_stack c) (field_stack c).
  Definition with_type (t : option ty) (f : vfun) : vfun :=
    fun c st => let '(c1, st1) := f (push_type t c) st in (pop_type c1, st1).

  Definition push_parent_type (c : ctx) : ctx :=
    mkCtx (type_stack c) (top (type_stack c) :: parent_type_stack c) (input_type_stack c)
          (type_literal_stack c) (input_type_literal_stack c) (field_stack c).
  Definition pop_parent_type (c : ctx) : ctx :=
    mkCtx (type_stack c) (tl (parent_type_stack c)) (input_type_stack c)
          (type_literal_stack c) (input_type_literal_stack c) (field_stack c).
  Definition with_parent_type (f : vfun) : vfun :=
    fun c st => let '(c1, st1) := f (push_parent_type c) st in (pop_parent_type c1, st1).

  Definition push_field (f : option field_def) (c : ctx) : ctx :=
    mkCtx (type_stack c) (parent_type_stack c) (input_type_stack c)
          (type_literal_stack c) (input_type_literal_stack c) (f :: field_stack c).
  Definition pop_field (c : ctx) : ctx :=
    mkCtx (type_stack c) (parent_type_stack c) (input_type_stack c)
          (type_literal_stack c) (input_type_literal_stack c) (tl (field_stack c)).
  Definition with_field (fd : option field_def) (f : vfun) : vfun :=
    fun c st => let '(c1, st1) := f (push_field fd c) st in (pop_field c1, st1).

  Definition push_input_type (t : option ty) (c : ctx) : ctx :=
    mkCtx (type_stack c) (parent_type_stack c)
          (opt_bind t (fun t => type_by_name s (inner_type t)) :: input_type_stack c)
          (type_literal_stack c) (t :: input_type_literal_stack c) (field_stack c).
  Definition pop_input_type (c : ctx) : ctx :=
    mkCtx (type_stack c) (parent_type_stack c) (tl (input_type_stack c))
          (type_literal_stack c) (tl (input_type_literal_stack c)) (field_stack c).
  Definition with_input_type (t : option ty) (f : vfun) : vfun :=
    fun c st => let '(c1, st1) := f (push_input_type t c) st in (pop_input_type c1, st1).

  (* a step whose continuation depends on the context at that point *)
  Definition with_ctx (f : ctx -> vfun) : vfun := fun c st => f c c st.

  (* the expected type of the items of a list literal *)
  Definition list_item_type (c : ctx) : option ty :=
    opt_bind (current_input_type_literal c)
             (fun t => match t with
                       | TList inner => Some inner
                       | TNonNull (TList inner) => Some inner
                       | _ => None
                       end).

  (* the expected type of field [k] of an object literal *)
  Definition object_field_type (c : ctx) (k : name) : option ty :=
    opt_map iv_type
      (opt_bind (opt_bind (current_input_type_literal c)
                          (fun t => type_by_name s (inner_type t)))
                (fun t => input_field_by_name t k)).

  Fixpoint visit_input_value (v : value) : vfun :=
    match v with
    | VBool _ | VFloat _ | VInt _ | VString _ => emit (Enter (NScalar v)) >> emit (Leave (NScalar v))
    | VNull => emit (Enter NNull) >> emit (Leave NNull)
    | VEnum n => emit (Enter (NEnum n)) >> emit (Leave (NEnum n))
    | VList l =>
        emit (Enter (NList l)) >>
        with_ctx (fun c => with_input_type (list_item_type c) (seqv visit_input_value l)) >>
        emit (Leave (NList l))
    | VObject l =>
        emit (Enter (NObject l)) >>
        seqv (fun kv : name * value =>
                with_ctx (fun c =>
                  with_input_type (object_field_type c (fst kv))
                    (emit (Enter (NObjectField kv)) >>
                     visit_input_value (snd kv) >>
                     emit (Leave (NObjectField kv))))) l >>
        emit (Leave (NObject l))
    | VVar n => emit (Enter (NVariable n)) >> emit (Leave (NVariable n))
    end.

  Definition visit_arguments (defs : option (list input_value_def)) (args : list argument) : vfun :=
    seqv (fun a : argument =>
            let arg_type :=
              opt_map iv_type
                (opt_bind defs (fun ds => find_first (fun x => name_eqb (iv_name x) (fst a)) ds)) in
            with_input_type arg_type
              (emit (Enter (NArgument a)) >> visit_input_value (snd a) >> emit (Leave (NArgument a))))
         args.

  Definition visit_directives (dirs : list directive) : vfun :=
    seqv (fun d : directive =>
            let def_args := opt_map dd_args (directive_by_name s (d_name d)) in
            emit (Enter (NDirective d)) >> visit_arguments def_args (d_args d) >>
            emit (Leave (NDirective d)))
         dirs.

  Definition visit_variable_definitions (vars : list vardef) : vfun :=
    seqv (fun v : vardef =>
            with_input_type (Some (v_type v))
              (emit (Enter (NVarDef v)) >>
               match v_default v with
               | Some dv => visit_input_value dv
               | None => fun c st => (c, st)
               end >>
               emit (Leave (NVarDef v))))
         vars.

  Fixpoint visit_selection (sel : selection) : vfun :=
    match sel with
    | SField p alias n args dirs sp sels =>
        with_ctx (fun c =>
          let parent_type_def := opt_bind (current_parent_type c) (fun t => field_by_name t n) in
          let field_type := opt_map fd_type parent_type_def in
          let field_args := opt_map fd_args parent_type_def in
          with_type field_type
            (emit (Enter (NField sel)) >>
             with_ctx (fun c' =>
               with_field (opt_bind (current_parent_type c') (fun t => field_by_name t n))
                 (visit_arguments field_args args >>
                  visit_directives dirs >>
                  with_parent_type
                    (emit (Enter (NSelectionSet sp sels)) >>
                     seqv visit_selection sels >>
                     emit (Leave (NSelectionSet sp sels))))) >>
             emit (Leave (NField sel))))
    | SSpread p n dirs =>
        emit (Enter (NSpread sel)) >> visit_directives dirs >> emit (Leave (NSpread sel))
    | SInline p tc dirs sp sels =>
        let body :=
          emit (Enter (NInline sel)) >>
          visit_directives dirs >>
          with_parent_type
            (emit (Enter (NSelectionSet sp sels)) >>
             seqv visit_selection sels >>
             emit (Leave (NSelectionSet sp sels))) >>
          emit (Leave (NInline sel)) in
        match tc with
        | Some cond => with_type (Some (TNamed cond)) body
        | None => body
        end
    end.

  Definition visit_selection_set (sp : span) (sels : list selection) : vfun :=
    with_parent_type
      (emit (Enter (NSelectionSet sp sels)) >>
       seqv visit_selection sels >>
       emit (Leave (NSelectionSet sp sels))).

  Definition visit_fragment_definition (f : fragment_def) : vfun :=
    emit (Enter (NFragmentDef f)) >>
    visit_directives (fr_dirs f) >>
    visit_selection_set (fr_span f) (fr_sels f) >>
    emit (Leave (NFragmentDef f)).

  Definition visit_operation_definition (o : operation) : vfun :=
    emit (Enter (NOperation o)) >>
    visit_directives (op_directives o) >>
    visit_variable_definitions (op_variable_definitions o) >>
    visit_selection_set (o_span o) (o_sels o) >>
    emit (Leave (NOperation o)).

  (* None = the query_type().unwrap() panic *)
  Definition root_type_name (o : operation) : option (option name) :=
    match o_kind o with
    | OpQuery | OpSelSet => match query_type s with Some t => Some (Some (td_name t)) | None => None end
    | OpMutation =>
        Some (opt_map td_name (mutation_type s))
    | OpSubscription =>
        Some (opt_map td_name (subscription_type s))
    end.

  Definition definition_panics (x : definition) : bool :=
    match x with
    | DFrag _ => false
    | DOp o => is_none (root_type_name o)
    end.

  Definition visit_definition (x : definition) : vfun :=
    match x with
    | DFrag f => with_type (Some (TNamed (fr_tc f))) (visit_fragment_definition f)
    | DOp o =>
        let tn := match root_type_name o with Some r => r | None => None end in
        with_type (opt_map TNamed tn) (visit_operation_definition o)
    end.

  Definition visit_document (d : document) : vfun :=
    emit (Enter (NDocument d)) >> seqv visit_definition d >> emit (Leave (NDocument d)).

End Visit.

Arguments vfun St : clear implicits.
Arguments emit {St} h e _ _.
Arguments andthen {St} f g _ _.
Arguments seqv {St A} f l _ _.
Arguments with_ctx {St} f _ _.
Arguments with_type {St} s t f _ _.
Arguments with_parent_type {St} f _ _.
Arguments with_field {St} fd f _ _.
Arguments with_input_type {St} s t f _ _.
Arguments visit_input_value {St} h s v _ _.
Arguments visit_arguments {St} h s defs args _ _.
Arguments visit_directives {St} h s dirs _ _.
Arguments visit_variable_definitions {St} h s vars _ _.
Arguments visit_selection {St} h s sel _ _.
Arguments visit_selection_set {St} h s sp sels _ _.
Arguments visit_fragment_definition {St} h s f _ _.
Arguments visit_operation_definition {St} h s o _ _.
Arguments visit_definition {St} h s x _ _.
Arguments visit_document {St} h s d _ _.

(* The walk panics (query_type().unwrap()) iff some query operation is met while the schema
   has no query root object.  The panic aborts the walk at that definition; every caller in
   the model checks this first and returns Panic. *)
Definition document_panics (s : sdocument) (d : document) : bool :=
  existsb (definition_panics s) d.

(* the trace: every callback with the context it sees *)
Definition trace_step (acc : list (event * ctx)) (e : event) (c : ctx) := (e, c) :: acc.
Definition tr_document (s : sdocument) (d : document) (c : ctx) : ctx * list (event * ctx) :=
  let '(c', acc) := visit_document trace_step s d c [] in (c', rev acc).
Definition trace (s : sdocument) (d : document) : list (event * ctx) := snd (tr_document s d ctx0).

(* what a visitor can observe of the context: the six current_* answers *)
Record answers := mkAnswers {
  a_type : option type_def; a_type_lit : option ty; a_parent : option type_def;
  a_field : option field_def; a_input : option type_def; a_input_lit : option ty }.
Definition answers_of (c : ctx) : answers :=
  mkAnswers (current_type c) (current_type_literal c) (current_parent_type c)
            (current_field c) (current_input_type c) (current_input_type_literal c).

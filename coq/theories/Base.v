(* Base.v — names, positions, small list / option utilities shared by the model.
   No proofs about the model live here; only generic facts about these helpers. *)
From Coq Require Export List String Ascii ZArith NArith Bool Arith Lia.
Export ListNotations.
Open Scope string_scope.
Open Scope list_scope.

Definition name := string.
Definition pos := (N * N)%type.            (* (line, column) as graphql-parser's Pos *)

Definition name_eqb (a b : name) : bool := String.eqb a b.

Definition pos_eqb (a b : pos) : bool := N.eqb (fst a) (fst b) && N.eqb (snd a) (snd b).

(* Rust: iter().find(|x| p(x)) *)
Fixpoint find_first {A} (p : A -> bool) (l : list A) : option A :=
  match l with
  | [] => None
  | x :: r => if p x then Some x else find_first p r
  end.

Definition mem_name (n : name) (l : list name) : bool := existsb (name_eqb n) l.

Definition opt_bind {A B} (o : option A) (f : A -> option B) : option B :=
  match o with Some x => f x | None => None end.
Definition opt_map {A B} (f : A -> B) (o : option A) : option B :=
  match o with Some x => Some (f x) | None => None end.
Definition is_some {A} (o : option A) : bool := match o with Some _ => true | None => false end.
Definition is_none {A} (o : option A) : bool := match o with Some _ => false | None => true end.

(* Rust: Vec::last().unwrap_or(&None) on a stack of options; the head of the list is the top. *)
Definition top {A} (st : list (option A)) : option A :=
  match st with [] => None | x :: _ => x end.

(* starts_with("__") *)
Definition starts_with_dunder (s : string) : bool :=
  match s with
  | String a (String b _) => Ascii.eqb a "_"%char && Ascii.eqb b "_"%char
  | _ => false
  end.

(* association list: last insertion wins on lookup when built by [al_insert]
   (HashMap::insert semantics), first-insertion order is kept for iteration. *)
Fixpoint al_get {V} (k : name) (m : list (name * V)) : option V :=
  match m with
  | [] => None
  | (k', v) :: r => if name_eqb k k' then Some v else al_get k r
  end.
Fixpoint al_set {V} (k : name) (v : V) (m : list (name * V)) : list (name * V) :=
  match m with
  | [] => [(k, v)]
  | (k', v') :: r => if name_eqb k k' then (k', v) :: r else (k', v') :: al_set k v r
  end.
Definition al_has {V} (k : name) (m : list (name * V)) : bool := is_some (al_get k m).

Fixpoint dedup_names (l : list name) : list name :=
  match l with
  | [] => []
  | x :: r => if mem_name x r then dedup_names r else x :: dedup_names r
  end.

Fixpoint nodup_names (l : list name) : bool :=
  match l with
  | [] => true
  | x :: r => negb (mem_name x r) && nodup_names r
  end.

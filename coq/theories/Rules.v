(* Rules.v — the 23 visitor-state validation rules of src/validation/rules/*.rs (every rule but
   OverlappingFieldsCanBeMerged, which is in Merge.v).  One section per Rust file; each rule is
   its visitor state, the handler run at every callback, and the step after the walk.
   Errors carry the reporting rule and the locations; where the code iterates a hash container
   to emit errors the model emits in first-insertion order (the check compares multisets). *)
From GT Require Export Visitor CollectFields.

Inductive rule_id :=
| R_UniqueOperationNames | R_LoneAnonymousOperation | R_SingleFieldSubscriptions | R_KnownTypeNames
| R_FragmentsOnCompositeTypes | R_VariablesAreInputTypes | R_LeafFieldSelections | R_FieldsOnCorrectType
| R_UniqueFragmentNames | R_KnownFragmentNames | R_NoUnusedFragments | R_OverlappingFieldsCanBeMerged
| R_NoFragmentsCycle | R_PossibleFragmentSpreads | R_NoUnusedVariables | R_NoUndefinedVariables
| R_KnownArgumentNames | R_UniqueArgumentNames | R_UniqueVariableNames | R_ProvidedRequiredArguments
| R_KnownDirectives | R_VariablesInAllowedPosition | R_ValuesOfCorrectType | R_UniqueDirectivesPerLocation.

Record verror := mkErr { e_rule : rule_id; e_locs : list pos; e_info : string }.

(* result of running one rule: errors in report order; oof = a fuel-bounded walk ran out of fuel
   (excluded by theorem for the fuel the model supplies) *)
Record rule_result := mkRes { r_errors : list verror; r_oof : bool }.

(* ---- generic association lists over a key type with decidable equality ---- *)
Section Assoc.
  Variables (K V : Type) (keq : K -> K -> bool).
  Fixpoint as_get (k : K) (m : list (K * V)) : option V :=
    match m with [] => None | (k', v) :: r => if keq k k' then Some v else as_get k r end.
  Fixpoint as_set (k : K) (v : V) (m : list (K * V)) : list (K * V) :=
    match m with
    | [] => [(k, v)]
    | (k', v') :: r => if keq k k' then (k', v) :: r else (k', v') :: as_set k v r
    end.
  Fixpoint as_remove (k : K) (m : list (K * V)) : list (K * V) :=
    match m with [] => [] | (k', v') :: r => if keq k k' then as_remove k r else (k', v') :: as_remove k r end.
End Assoc.
Arguments as_get {K V} keq k m.
Arguments as_set {K V} keq k v m.
Arguments as_remove {K V} keq k m.

Definition oname_eqb (a b : option name) : bool :=
  match a, b with Some x, Some y => name_eqb x y | None, None => true | _, _ => false end.

(* an operation scope is the operation's index in the document (the number of operations entered
   before it) and its name: operations that share a name (or are both anonymous) do not share a
   table *)
Inductive scope := ScOp (i : nat) (n : option name) | ScFrag (n : name).
Definition opkey_eqb (a b : nat * option name) : bool :=
  Nat.eqb (fst a) (fst b) && oname_eqb (snd a) (snd b).
Definition scope_eqb (a b : scope) : bool :=
  match a, b with
  | ScOp i x, ScOp j y => opkey_eqb (i, x) (j, y)
  | ScFrag x, ScFrag y => name_eqb x y
  | _, _ => false
  end.

Definition set_add (n : name) (l : list name) : list name := if mem_name n l then l else l ++ [n].

(* push onto the Vec stored under a key (entry().or_default().push()) *)
Definition as_push {K V} (keq : K -> K -> bool) (k : K) (v : V) (m : list (K * list V)) : list (K * list V) :=
  match as_get keq k m with
  | Some l => as_set keq k (l ++ [v]) m
  | None => m ++ [(k, [v])]
  end.
Definition as_append {K V} (keq : K -> K -> bool) (k : K) (vs : list V) (m : list (K * list V)) : list (K * list V) :=
  match as_get keq k m with
  | Some l => as_set keq k (l ++ vs) m
  | None => m ++ [(k, vs)]
  end.

Definition err (r : rule_id) (locs : list pos) : verror := mkErr r locs "".

(* ================================================================ unique_operation_names.rs *)
Definition count_incr (n : name) (m : list (name * nat)) : list (name * nat) :=
  match al_get n m with Some v => al_set n (S v) m | None => m ++ [(n, 1)] end.

Definition uon_step (st : list (name * nat)) (e : event) (c : ctx) : list (name * nat) :=
  match e with
  | Enter (NOperation o) => match op_node_name o with Some n => count_incr n st | None => st end
  | _ => st
  end.
Definition counts_finish (r : rule_id) (st : list (name * nat)) : list verror :=
  flat_map (fun kv : name * nat => if Nat.ltb 1 (snd kv) then [err r []] else []) st.

(* ================================================================ unique_fragment_names.rs *)
Definition ufn_step (st : list (name * nat)) (e : event) (c : ctx) : list (name * nat) :=
  match e with
  | Enter (NFragmentDef f) => count_incr (fr_name f) st
  | _ => st
  end.

(* ================================================================ lone_anonymous_operation.rs *)
Definition lao_step (st : list verror) (e : event) (c : ctx) : list verror :=
  match e with
  | Enter (NDocument d) =>
      let count := List.length (operations_of d) in
      st ++ flat_map (fun x =>
                  match x with
                  | DOp o =>
                      match o_kind o with
                      | OpSelSet => if Nat.ltb 1 count then [err R_LoneAnonymousOperation []] else []
                      | _ => if is_none (o_name o) && Nat.ltb 1 count
                             then [err R_LoneAnonymousOperation [o_pos o]] else []
                      end
                  | DFrag _ => []
                  end) d
  | _ => st
  end.

(* ================================================================ single_field_subscriptions.rs *)
Definition is_field_named_dunder (x : selection) : bool :=
  match x with SField _ _ n _ _ _ _ => starts_with_dunder n | _ => false end.

Definition sfs_step (s : sdocument) (d : document) (st : rule_result) (e : event) (c : ctx) : rule_result :=
  match e with
  | Enter (NOperation o) =>
      match o_kind o with
      | OpSubscription =>
          match subscription_type s with
          | Some t =>
              match collect_fields s d t (o_sels o) with
              | Some groups =>
                  mkRes (r_errors st ++
                         (if Nat.ltb 1 (List.length groups) then [err R_SingleFieldSubscriptions [o_pos o]] else []) ++
                         flat_map (fun g : name * list selection =>
                                     if existsb is_field_named_dunder (snd g)
                                     then [err R_SingleFieldSubscriptions [o_pos o]] else []) groups)
                        (r_oof st)
              | None => mkRes (r_errors st) true
              end
          | None => st
          end
      | _ => st
      end
  | _ => st
  end.

(* ================================================================ known_type_names.rs *)
Definition is_introspection_type_name (n : name) : bool :=
  existsb (name_eqb n)
    ["__Schema"; "__Type"; "__TypeKind"; "__Field"; "__InputValue"; "__EnumValue"; "__Directive"; "__DirectiveLocation"].

Definition unknown_type (s : sdocument) (n : name) : bool :=
  is_none (type_by_name s n) && negb (is_introspection_type_name n).

Definition ktn_step (s : sdocument) (st : list verror) (e : event) (c : ctx) : list verror :=
  match e with
  | Enter (NFragmentDef f) => if unknown_type s (fr_tc f) then st ++ [err R_KnownTypeNames [fr_pos f]] else st
  | Enter (NInline (SInline p (Some tc) _ _ _)) => if unknown_type s tc then st ++ [err R_KnownTypeNames [p]] else st
  | Enter (NVarDef v) => if unknown_type s (inner_type (v_type v)) then st ++ [err R_KnownTypeNames [v_pos v]] else st
  | _ => st
  end.

(* ================================================================ fragments_on_composite_types.rs *)
Definition non_composite (s : sdocument) (n : name) : bool :=
  match type_by_name s n with Some t => negb (td_is_composite t) | None => false end.

Definition foc_step (s : sdocument) (st : list verror) (e : event) (c : ctx) : list verror :=
  match e with
  | Enter (NInline (SInline p (Some tc) _ _ _)) =>
      if non_composite s tc then st ++ [err R_FragmentsOnCompositeTypes [p]] else st
  | Enter (NFragmentDef f) =>
      if non_composite s (fr_tc f) then st ++ [err R_FragmentsOnCompositeTypes [fr_pos f]] else st
  | _ => st
  end.

(* ================================================================ variables_are_input_types.rs *)
Definition vit_step (s : sdocument) (st : list verror) (e : event) (c : ctx) : list verror :=
  match e with
  | Enter (NVarDef v) =>
      match type_by_name s (inner_type (v_type v)) with
      | Some t => if negb (td_is_input t) then st ++ [err R_VariablesAreInputTypes [v_pos v]] else st
      | None => st
      end
  | _ => st
  end.

(* ================================================================ leaf_field_selections.rs *)
Definition is_nil {A} (l : list A) : bool := match l with [] => true | _ => false end.

Definition lfs_step (st : list verror) (e : event) (c : ctx) : list verror :=
  match e with
  | Enter (NField (SField p _ n _ _ _ sels)) =>
      let st1 := if name_eqb n "__typename" && is_none (current_type c) && negb (is_nil sels)
                 then st ++ [err R_LeafFieldSelections [p]] else st in
      match current_type c, current_type_literal c with
      | Some ft, Some _ =>
          if td_is_leaf ft then
            (if negb (is_nil sels) then st1 ++ [err R_LeafFieldSelections [p]] else st1)
          else if is_nil sels then st1 ++ [err R_LeafFieldSelections [p]] else st1
      | _, _ => st1
      end
  | _ => st
  end.

(* ================================================================ fields_on_correct_type.rs *)
Definition query_type_name (s : sdocument) : name :=
  match sd_query (schema_definition s) with Some q => q | None => "Query" end.

(* count_root_typename_fields: the `__typename` fields at the root of a selection set, also when they
   are wrapped in (nested) inline fragments without a type condition; inline fragments with a type
   condition and fragment spreads are not looked through.  items.iter().map(..).sum() *)
Fixpoint count_root_typename (x : selection) : nat :=
  match x with
  | SField _ _ n _ _ _ _ => if name_eqb n "__typename" then 1 else 0
  | SInline _ None _ _ ss => list_sum (map count_root_typename ss)
  | _ => 0
  end.
Definition count_root_typename_fields (items : list selection) : nat :=
  list_sum (map count_root_typename items).

Definition foct_step (s : sdocument) (st : list verror) (e : event) (c : ctx) : list verror :=
  match e with
  | Enter (NOperation o) =>
      match o_kind o with
      | OpSubscription =>
          (* for _ in 0..count_root_typename_fields(..) { report_error(.. subscription.position) } *)
          st ++ repeat (err R_FieldsOnCorrectType [o_pos o]) (count_root_typename_fields (o_sels o))
      | _ => st
      end
  | Enter (NField (SField p _ n _ _ _ _)) =>
      match current_parent_type c with
      | Some pt =>
          if name_eqb n "__typename" then st
          else if (name_eqb n "__schema" || name_eqb n "__type") && name_eqb (td_name pt) (query_type_name s) then st
          else if is_none (field_by_name pt n) then st ++ [err R_FieldsOnCorrectType [p]] else st
      | None => st
      end
  | _ => st
  end.

(* ================================================================ known_fragment_names.rs *)
Definition kfn_step (d : document) (st : list verror) (e : event) (c : ctx) : list verror :=
  match e with
  | Enter (NSpread (SSpread p n _)) =>
      if is_none (known_fragment d n) then st ++ [err R_KnownFragmentNames [p]] else st
  | _ => st
  end.

(* ================================================================ no_unused_fragments.rs *)
Record nuf_state := mkNuf {
  nuf_current : option name;
  nuf_ops : list name;
  nuf_frags : list (name * list name);
  nuf_res : rule_result }.

(* while let Some(x) = pending.pop() { ... }  (pop takes the last element) *)
Fixpoint nuf_reach (fuel : nat) (frags : list (name * list name)) (pending in_use : list name)
  : option (list name) :=
  match fuel with
  | O => None
  | S fuel' =>
      match rev pending with
      | [] => Some in_use
      | x :: rest_rev =>
          let pending' := rev rest_rev in
          if mem_name x in_use then nuf_reach fuel' frags pending' in_use
          else nuf_reach fuel' frags
                 (pending' ++ match al_get x frags with Some l => l | None => [] end) (in_use ++ [x])
      end
  end.

Definition total_spreads (d : document) : nat :=
  List.length (flat_map (fun x => match x with
                                  | DOp o => get_recursive_fragment_spreads (o_sels o)
                                  | DFrag f => get_recursive_fragment_spreads (fr_sels f)
                                  end) d).

Definition nuf_step (d : document) (st : nuf_state) (e : event) (c : ctx) : nuf_state :=
  match e with
  | Enter (NOperation _) => mkNuf None (nuf_ops st) (nuf_frags st) (nuf_res st)
  | Enter (NFragmentDef f) => mkNuf (Some (fr_name f)) (nuf_ops st) (nuf_frags st) (nuf_res st)
  | Enter (NSpread (SSpread _ n _)) =>
      match nuf_current st with
      | Some fname => mkNuf (nuf_current st) (nuf_ops st) (as_push name_eqb fname n (nuf_frags st)) (nuf_res st)
      | None => mkNuf (nuf_current st) (nuf_ops st ++ [n]) (nuf_frags st) (nuf_res st)
      end
  | Leave (NDocument _) =>
      match nuf_reach (S (S (total_spreads d))) (nuf_frags st) (nuf_ops st) [] with
      | Some in_use =>
          mkNuf (nuf_current st) (nuf_ops st) (nuf_frags st)
                (mkRes (r_errors (nuf_res st) ++
                        flat_map (fun n => if mem_name n in_use then [] else [err R_NoUnusedFragments []])
                                 (known_fragment_names d))
                       (r_oof (nuf_res st)))
      | None => mkNuf (nuf_current st) (nuf_ops st) (nuf_frags st) (mkRes (r_errors (nuf_res st)) true)
      end
  | _ => st
  end.

(* ================================================================ no_fragments_cycle.rs *)
Record nfc_state := mkNfc { nfc_visited : list name; nfc_res : rule_result }.

(* spread_paths is a stack (push/pop at the end); the index map is keyed by fragment name *)
Fixpoint detect_cycles (fuel : nat) (d : document) (frag : fragment_def)
         (paths : list (pos * name)) (index : list (name * nat)) (visited : list name) (errs : list verror)
  : option (list name * list verror) :=
  match fuel with
  | O => None
  | S fuel' =>
      if mem_name (fr_name frag) visited then Some (visited, errs)
      else
        let visited1 := visited ++ [fr_name frag] in
        let spreads := get_recursive_fragment_spreads (fr_sels frag) in
        if is_nil spreads then Some (visited1, errs)
        else
          let index1 := al_set (fr_name frag) (List.length paths) index in
          (fix loop (l : list (pos * name)) (visited : list name) (errs : list verror)
             : option (list name * list verror) :=
             match l with
             | [] => Some (visited, errs)
             | sp :: r =>
                 let paths1 := paths ++ [sp] in
                 match al_get (snd sp) index1 with
                 | None =>
                     match known_fragment d (snd sp) with
                     | Some def =>
                         match detect_cycles fuel' d def paths1 index1 visited errs with
                         | Some (v', e') => loop r v' e'
                         | None => None
                         end
                     | None => loop r visited errs
                     end
                 | Some idx =>
                     loop r visited (errs ++ [err R_NoFragmentsCycle (map fst (skipn idx paths1))])
                 end
             end) spreads visited1 errs
  end.

Definition nfc_fuel (d : document) : nat := S (S (List.length (fragments_of d))).

Definition nfc_step (d : document) (st : nfc_state) (e : event) (c : ctx) : nfc_state :=
  match e with
  | Enter (NFragmentDef f) =>
      match detect_cycles (nfc_fuel d) d f [] [] (nfc_visited st) (r_errors (nfc_res st)) with
      | Some (v, errs) => mkNfc v (mkRes errs (r_oof (nfc_res st)))
      | None => mkNfc (nfc_visited st) (mkRes (r_errors (nfc_res st)) true)
      end
  | _ => st
  end.

(* ================================================================ possible_fragment_spreads.rs *)
Definition pfs_step (s : sdocument) (d : document) (st : list verror) (e : event) (c : ctx) : list verror :=
  match e with
  | Enter (NInline _) =>
      match current_type c, current_parent_type c with
      | Some ft, Some pt =>
          if td_is_composite ft && td_is_composite pt && negb (do_types_overlap s ft pt)
          then st ++ [err R_PossibleFragmentSpreads []] else st
      | _, _ => st
      end
  | Enter (NSpread (SSpread _ n _)) =>
      match known_fragment d n with
      | Some fr =>
          match type_by_name s (fr_tc fr), current_parent_type c with
          | Some ft, Some pt =>
              if td_is_composite ft && td_is_composite pt && negb (do_types_overlap s ft pt)
              then st ++ [err R_PossibleFragmentSpreads []] else st
          | _, _ => st
          end
      | None => st
      end
  | _ => st
  end.

(* ================================================================ no_unused_variables.rs / no_undefined_variables.rs *)
(* operations_seen counts the operation definitions entered; the operation scope and the key of
   defined_variables are (index, name) *)
Record vars_state := mkVars {
  vs_scope : option scope;
  vs_defined : list ((nat * option name) * list name);     (* HashMap<(usize, Option<&str>), HashSet<&str>> *)
  vs_seen : nat;                                           (* operations_seen *)
  vs_used : list (scope * list name);
  vs_spreads : list (scope * list name) }.

Definition vars_init : vars_state := mkVars None [] 0 [] [].

Definition vars_collect (st : vars_state) (e : event) : vars_state :=
  match e with
  | Enter (NOperation o) =>
      let op_index := vs_seen st in
      mkVars (Some (ScOp op_index (op_node_name o)))
             (match as_get opkey_eqb (op_index, op_node_name o) (vs_defined st) with
              | Some _ => as_set opkey_eqb (op_index, op_node_name o) [] (vs_defined st)
              | None => vs_defined st ++ [((op_index, op_node_name o), [])]
              end)
             (S op_index) (vs_used st) (vs_spreads st)
  | Enter (NFragmentDef f) =>
      mkVars (Some (ScFrag (fr_name f))) (vs_defined st) (vs_seen st) (vs_used st) (vs_spreads st)
  | Enter (NSpread (SSpread _ n _)) =>
      match vs_scope st with
      | Some sc => mkVars (vs_scope st) (vs_defined st) (vs_seen st) (vs_used st)
                          (as_push scope_eqb sc n (vs_spreads st))
      | None => st
      end
  | Enter (NVarDef v) =>
      match vs_scope st with
      | Some (ScOp i n) =>
          match as_get opkey_eqb (i, n) (vs_defined st) with
          | Some vars => mkVars (vs_scope st) (as_set opkey_eqb (i, n) (set_add (v_name v) vars) (vs_defined st))
                                (vs_seen st) (vs_used st) (vs_spreads st)
          | None => st
          end
      | _ => st
      end
  | Enter (NArgument a) =>
      match vs_scope st with
      | Some sc => mkVars (vs_scope st) (vs_defined st) (vs_seen st)
                          (as_append scope_eqb sc (variables_in_use (snd a)) (vs_used st)) (vs_spreads st)
      | None => st
      end
  | _ => st
  end.

(* the reachability walk shared by both rules: [pick] selects, among the variables used in a
   scope, those to accumulate (defined ones for "unused", undefined ones for "undefined") *)
Fixpoint vars_walk (fuel : nat) (st : vars_state) (pick : name -> bool) (from : scope)
         (acc : list name) (visited : list scope) : option (list name * list scope) :=
  match fuel with
  | O => None
  | S fuel' =>
      if existsb (scope_eqb from) visited then Some (acc, visited)
      else
        let visited1 := visited ++ [from] in
        let acc1 := fold_left (fun a v => if pick v then set_add v a else a)
                              (match as_get scope_eqb from (vs_used st) with Some l => l | None => [] end) acc in
        (fix loop (l : list name) (acc : list name) (visited : list scope) : option (list name * list scope) :=
           match l with
           | [] => Some (acc, visited)
           | sp :: r =>
               match vars_walk fuel' st pick (ScFrag sp) acc visited with
               | Some (a', v') => loop r a' v'
               | None => None
               end
           end) (match as_get scope_eqb from (vs_spreads st) with Some l => l | None => [] end) acc1 visited1
  end.

Definition vars_fuel (d : document) : nat := S (S (S (total_spreads d))).

Definition nuv_finish (d : document) (st : vars_state) : rule_result :=
  fold_left (fun (res : rule_result) (entry : (nat * option name) * list name) =>
               match vars_walk (vars_fuel d) st (fun v => mem_name v (snd entry))
                               (ScOp (fst (fst entry)) (snd (fst entry))) [] [] with
               | Some (used, _) =>
                   mkRes (r_errors res ++
                          flat_map (fun v => if mem_name v used then [] else [err R_NoUnusedVariables []]) (snd entry))
                         (r_oof res)
               | None => mkRes (r_errors res) true
               end) (vs_defined st) (mkRes [] false).

Definition nudv_finish (d : document) (st : vars_state) : rule_result :=
  fold_left (fun (res : rule_result) (entry : (nat * option name) * list name) =>
               match vars_walk (vars_fuel d) st (fun v => negb (mem_name v (snd entry)))
                               (ScOp (fst (fst entry)) (snd (fst entry))) [] [] with
               | Some (undefined, _) =>
                   mkRes (r_errors res ++ map (fun _ => err R_NoUndefinedVariables []) undefined) (r_oof res)
               | None => mkRes (r_errors res) true
               end) (vs_defined st) (mkRes [] false).

(* ================================================================ known_argument_names.rs *)
Inductive arg_owner := OwnField (fname tname : name) | OwnDirective (dname : name).
Definition s_owner (o : arg_owner) : string :=
  match o with OwnField f t => (t ++ "." ++ f)%string | OwnDirective d => ("@" ++ d)%string end.

Record kan_state := mkKan { kan_slot : option (arg_owner * list input_value_def); kan_errs : list verror }.

Definition kan_step (s : sdocument) (st : kan_state) (e : event) (c : ctx) : kan_state :=
  match e with
  | Enter (NDirective d) =>
      mkKan (match directive_by_name s (d_name d) with
             | Some dd => Some (OwnDirective (dd_name dd), dd_args dd)
             | None => None
             end) (kan_errs st)
  | Leave (NDirective _) => mkKan None (kan_errs st)
  | Enter (NField (SField _ _ n _ _ _ _)) =>
      mkKan (match current_parent_type c with
             | Some pt => match field_by_name pt n with
                          | Some fd => Some (OwnField (fd_name fd) (td_name pt), fd_args fd)
                          | None => None
                          end
             | None => None
             end) (kan_errs st)
  | Leave (NField _) => mkKan None (kan_errs st)
  | Enter (NArgument a) =>
      match kan_slot st with
      | Some (owner, defs) =>
          if existsb (fun x => name_eqb (iv_name x) (fst a)) defs then st
          else mkKan (kan_slot st) (kan_errs st ++ [mkErr R_KnownArgumentNames [] (s_owner owner)])
      | None => st
      end
  | _ => st
  end.

(* ================================================================ unique_argument_names.rs *)
Definition uan_errors (p : pos) (args : list argument) : list verror :=
  let counts := fold_left (fun m (a : argument) => count_incr (fst a) m) args [] in
  flat_map (fun kv : name * nat => if Nat.ltb 1 (snd kv) then [err R_UniqueArgumentNames (repeat p (snd kv))] else [])
           counts.

Definition uan_step (st : list verror) (e : event) (c : ctx) : list verror :=
  match e with
  | Enter (NField (SField p _ _ args _ _ _)) => st ++ uan_errors p args
  | Enter (NDirective d) => st ++ uan_errors (d_pos d) (d_args d)
  | _ => st
  end.

(* ================================================================ unique_variable_names.rs *)
Record uvn_state := mkUvn { uvn_found : list (name * pos); uvn_errs : list verror }.

Definition uvn_step (st : uvn_state) (e : event) (c : ctx) : uvn_state :=
  match e with
  | Enter (NOperation _) => mkUvn [] (uvn_errs st)
  | Enter (NVarDef v) =>
      match al_get (v_name v) (uvn_found st) with
      | Some p0 => mkUvn (uvn_found st) (uvn_errs st ++ [err R_UniqueVariableNames [p0; v_pos v]])
      | None => mkUvn (uvn_found st ++ [(v_name v, v_pos v)]) (uvn_errs st)
      end
  | _ => st
  end.

(* ================================================================ provided_required_arguments.rs *)
Definition missing_required (used : list argument) (defs : list input_value_def) : list input_value_def :=
  filter (fun dfn => iv_is_required dfn && negb (existsb (fun a : argument => name_eqb (fst a) (iv_name dfn)) used)) defs.

Definition pra_step (s : sdocument) (st : list verror) (e : event) (c : ctx) : list verror :=
  match e with
  | Enter (NField (SField p _ n args _ _ _)) =>
      match current_parent_type c with
      | Some pt =>
          match field_by_name pt n with
          | Some fd => st ++ map (fun _ => err R_ProvidedRequiredArguments [p]) (missing_required args (fd_args fd))
          | None => st
          end
      | None => st
      end
  | Enter (NDirective d) =>
      match directive_map_get s (d_name d) with
      | Some dd => st ++ map (fun _ => err R_ProvidedRequiredArguments [d_pos d]) (missing_required (d_args d) (dd_args dd))
      | None => st
      end
  | _ => st
  end.

(* ================================================================ known_directives.rs *)
Record kd_state := mkKd { kd_loc : option dir_loc; kd_errs : list verror }.

Definition kd_step (s : sdocument) (st : kd_state) (e : event) (c : ctx) : kd_state :=
  match e with
  | Enter (NOperation o) =>
      mkKd (Some (match o_kind o with
                  | OpMutation => LMutation | OpSubscription => LSubscription | _ => LQuery end)) (kd_errs st)
  | Leave (NOperation _) => mkKd None (kd_errs st)
  | Enter (NField _) => mkKd (Some LField) (kd_errs st)
  | Leave (NField _) => mkKd None (kd_errs st)
  | Enter (NFragmentDef _) => mkKd (Some LFragmentDefinition) (kd_errs st)
  | Leave (NFragmentDef _) => mkKd None (kd_errs st)
  | Enter (NSpread _) => mkKd (Some LFragmentSpread) (kd_errs st)
  | Leave (NSpread _) => mkKd None (kd_errs st)
  | Enter (NInline _) => mkKd (Some LInlineFragment) (kd_errs st)
  | Leave (NInline _) => mkKd None (kd_errs st)
  | Enter (NDirective d) =>
      match directive_map_get s (d_name d) with
      | Some dd =>
          match kd_loc st with
          | Some loc => if existsb (fun l => dir_loc_eqb l loc) (dd_locs dd) then st
                        else mkKd (kd_loc st) (kd_errs st ++ [err R_KnownDirectives [d_pos d]])
          | None => st
          end
      | None => mkKd (kd_loc st) (kd_errs st ++ [err R_KnownDirectives [d_pos d]])
      end
  | _ => st
  end.

(* ================================================================ unique_directives_per_location.rs *)
Definition check_duplicate_directive (s : sdocument) (dirs : list directive) : list verror :=
  snd (fold_left (fun (acc : list name * list verror) (d : directive) =>
                    match directive_map_get s (d_name d) with
                    | Some dd =>
                        if dd_repeatable dd then acc
                        else if mem_name (d_name d) (fst acc)
                             then (fst acc, snd acc ++ [err R_UniqueDirectivesPerLocation [d_pos d]])
                             else (fst acc ++ [d_name d], snd acc)
                    | None => acc
                    end) dirs ([], [])).

Definition udl_step (s : sdocument) (st : list verror) (e : event) (c : ctx) : list verror :=
  match e with
  | Enter (NOperation o) => st ++ check_duplicate_directive s (op_directives o)
  | Enter (NField (SField _ _ _ _ dirs _ _)) => st ++ check_duplicate_directive s dirs
  | Enter (NFragmentDef f) => st ++ check_duplicate_directive s (fr_dirs f)
  | Enter (NSpread (SSpread _ _ dirs)) => st ++ check_duplicate_directive s dirs
  | Enter (NInline (SInline _ _ dirs _ _)) => st ++ check_duplicate_directive s dirs
  | _ => st
  end.

(* ================================================================ variables_in_allowed_position.rs *)
Record viap_state := mkViap {
  vp_spreads : list (scope * list name);                      (* HashMap<Scope, HashSet<&str>> *)
  vp_usages : list (scope * list (name * ty * bool));
  vp_defs : list (scope * list vardef);
  vp_scope : option scope;
  vp_seen : nat;                                              (* operations_seen *)
  vp_directive : option name;
  vp_objects : list (option name);                            (* input_object_stack, top first *)
  vp_defaults : list bool }.                                  (* location_default_stack, top first *)

Definition viap_init : viap_state := mkViap [] [] [] None 0 None [] [].

Definition has_default_in (defs : option (list input_value_def)) (n : name) : bool :=
  match opt_bind defs (fun ds => find_first (fun x => name_eqb (iv_name x) n) ds) with
  | Some x => is_some (iv_default x)
  | None => false
  end.

Definition viap_collect (s : sdocument) (st : viap_state) (e : event) (c : ctx) : viap_state :=
  match e with
  | Enter (NFragmentDef f) =>
      mkViap (vp_spreads st) (vp_usages st) (vp_defs st) (Some (ScFrag (fr_name f))) (vp_seen st) (vp_directive st) (vp_objects st) (vp_defaults st)
  | Enter (NOperation o) =>
      mkViap (vp_spreads st) (vp_usages st) (vp_defs st) (Some (ScOp (vp_seen st) (op_node_name o))) (S (vp_seen st)) (vp_directive st) (vp_objects st) (vp_defaults st)
  | Enter (NSpread (SSpread _ n _)) =>
      match vp_scope st with
      | Some sc =>
          mkViap (match as_get scope_eqb sc (vp_spreads st) with
                  | Some l => as_set scope_eqb sc (set_add n l) (vp_spreads st)
                  | None => vp_spreads st ++ [(sc, [n])]
                  end) (vp_usages st) (vp_defs st) (vp_scope st) (vp_seen st) (vp_directive st) (vp_objects st) (vp_defaults st)
      | None => st
      end
  | Enter (NVarDef v) =>
      match vp_scope st with
      | Some sc => mkViap (vp_spreads st) (vp_usages st) (as_push scope_eqb sc v (vp_defs st)) (vp_scope st)
                          (vp_seen st) (vp_directive st) (vp_objects st) (vp_defaults st)
      | None => st
      end
  | Enter (NVariable n) =>
      match vp_scope st, current_input_type_literal c with
      | Some sc, Some t =>
          mkViap (vp_spreads st)
                 (as_push scope_eqb sc (n, t, match vp_defaults st with b :: _ => b | [] => false end) (vp_usages st))
                 (vp_defs st) (vp_scope st) (vp_seen st) (vp_directive st) (vp_objects st) (vp_defaults st)
      | _, _ => st
      end
  | Enter (NDirective d) =>
      mkViap (vp_spreads st) (vp_usages st) (vp_defs st) (vp_scope st) (vp_seen st) (Some (d_name d)) (vp_objects st) (vp_defaults st)
  | Leave (NDirective _) =>
      mkViap (vp_spreads st) (vp_usages st) (vp_defs st) (vp_scope st) (vp_seen st) None (vp_objects st) (vp_defaults st)
  | Enter (NArgument a) =>
      let defs := match vp_directive st with
                  | Some dn => opt_map dd_args (directive_by_name s dn)
                  | None => opt_map fd_args (current_field c)
                  end in
      mkViap (vp_spreads st) (vp_usages st) (vp_defs st) (vp_scope st) (vp_seen st) (vp_directive st) (vp_objects st)
             (has_default_in defs (fst a) :: vp_defaults st)
  | Leave (NArgument _) =>
      mkViap (vp_spreads st) (vp_usages st) (vp_defs st) (vp_scope st) (vp_seen st) (vp_directive st) (vp_objects st) (tl (vp_defaults st))
  | Enter (NList _) =>
      mkViap (vp_spreads st) (vp_usages st) (vp_defs st) (vp_scope st) (vp_seen st) (vp_directive st) (vp_objects st) (false :: vp_defaults st)
  | Leave (NList _) =>
      mkViap (vp_spreads st) (vp_usages st) (vp_defs st) (vp_scope st) (vp_seen st) (vp_directive st) (vp_objects st) (tl (vp_defaults st))
  | Enter (NObject _) =>
      mkViap (vp_spreads st) (vp_usages st) (vp_defs st) (vp_scope st) (vp_seen st) (vp_directive st)
             (opt_map td_name (current_input_type c) :: vp_objects st) (vp_defaults st)
  | Leave (NObject _) =>
      mkViap (vp_spreads st) (vp_usages st) (vp_defs st) (vp_scope st) (vp_seen st) (vp_directive st) (tl (vp_objects st)) (vp_defaults st)
  | Enter (NObjectField kv) =>
      let hd := match vp_objects st with
                | Some tn :: _ =>
                    match opt_bind (type_by_name s tn) (fun t => input_field_by_name t (fst kv)) with
                    | Some f => is_some (iv_default f)
                    | None => false
                    end
                | _ => false
                end in
      mkViap (vp_spreads st) (vp_usages st) (vp_defs st) (vp_scope st) (vp_seen st) (vp_directive st) (vp_objects st) (hd :: vp_defaults st)
  | Leave (NObjectField _) =>
      mkViap (vp_spreads st) (vp_usages st) (vp_defs st) (vp_scope st) (vp_seen st) (vp_directive st) (vp_objects st) (tl (vp_defaults st))
  | _ => st
  end.

(* the variable's effective type and the position's effective type *)
Definition effective_var_type (v : vardef) : ty :=
  match v_default v, v_type v with
  | Some dv, TList _ | Some dv, TNamed _ =>
      match dv with VNull => v_type v | _ => TNonNull (v_type v) end
  | _, t => t
  end.
Definition effective_location_type (t : ty) (has_default : bool) : ty :=
  match t with TNonNull inner => if has_default then inner else t | _ => t end.

Definition usage_errors (s : sdocument) (var_defs : list vardef) (usages : list (name * ty * bool)) : list verror :=
  flat_map (fun u : name * ty * bool =>
              let '(vn, vt, hd) := u in
              match find_first (fun vd => name_eqb (v_name vd) vn) var_defs with
              | Some vd =>
                  if is_subtype s (effective_var_type vd) (effective_location_type vt hd) then []
                  else [err R_VariablesInAllowedPosition [v_pos vd]]
              | None => []
              end) usages.

Fixpoint viap_walk (fuel : nat) (s : sdocument) (st : viap_state) (var_defs : list vardef) (from : scope)
         (errs : list verror) (visited : list scope) : option (list verror * list scope) :=
  match fuel with
  | O => None
  | S fuel' =>
      if existsb (scope_eqb from) visited then Some (errs, visited)
      else
        let visited1 := visited ++ [from] in
        let errs1 := errs ++ usage_errors s var_defs
                               (match as_get scope_eqb from (vp_usages st) with Some l => l | None => [] end) in
        (fix loop (l : list name) (errs : list verror) (visited : list scope) : option (list verror * list scope) :=
           match l with
           | [] => Some (errs, visited)
           | sp :: r =>
               match viap_walk fuel' s st var_defs (ScFrag sp) errs visited with
               | Some (e', v') => loop r e' v'
               | None => None
               end
           end) (match as_get scope_eqb from (vp_spreads st) with Some l => l | None => [] end) errs1 visited1
  end.

Definition viap_finish (s : sdocument) (d : document) (st : viap_state) : rule_result :=
  fold_left (fun (res : rule_result) (entry : scope * list vardef) =>
               match viap_walk (vars_fuel d) s st (snd entry) (fst entry) (r_errors res) [] with
               | Some (errs, _) => mkRes errs (r_oof res)
               | None => mkRes (r_errors res) true
               end) (vp_defs st) (mkRes [] false).

(* ================================================================ values_of_correct_type.rs *)
Definition is_custom_scalar (n : name) : bool :=
  negb (existsb (name_eqb n) ["String"; "Int"; "Float"; "Boolean"; "ID"]).

Definition int32_fits (z : Z) : bool := (Z.leb (-2147483648) z && Z.leb z 2147483647)%Z.

Definition vct_err : verror := err R_ValuesOfCorrectType [].

Definition validate_value (s : sdocument) (c : ctx) (raw : value) : list verror :=
  match current_input_type_literal c with
  | Some it =>
      match type_by_name s (inner_type it) with
      | Some td =>
          (if td_is_leaf td then [] else [vct_err]) ++
          match td with
          | TDScalar sn =>
              match raw with
              | VInt z =>
                  if name_eqb sn "Int" then (if int32_fits z then [] else [vct_err])
                  else if name_eqb sn "ID" || name_eqb sn "Float" then []
                  else if is_custom_scalar sn then [] else [vct_err]
              | VString _ => if name_eqb sn "ID" || name_eqb sn "String" then []
                             else if is_custom_scalar sn then [] else [vct_err]
              | VFloat _ => if name_eqb sn "Float" then [] else if is_custom_scalar sn then [] else [vct_err]
              | VBool _ => if name_eqb sn "Boolean" then [] else if is_custom_scalar sn then [] else [vct_err]
              | _ => if is_custom_scalar sn then [] else [vct_err]
              end
          | TDEnum en values =>
              match raw with
              | VEnum ev => if mem_name ev values then [] else [vct_err]
              | _ => [vct_err]
              end
          | _ => []
          end
      | None => []
      end
  | None => []
  end.

Definition vct_step (s : sdocument) (st : list verror) (e : event) (c : ctx) : list verror :=
  match e with
  | Enter NNull =>
      match current_input_type_literal c with
      | Some it => if is_non_null it then st ++ [vct_err] else st
      | None => st
      end
  | Enter (NList l) =>
      match current_input_type_literal c with
      | Some it =>
          let nullable := if is_non_null it then of_type it else it in
          if is_list_type nullable then st else st ++ validate_value s c (VList l)
      | None => st
      end
  | Enter (NObject l) =>
      let st1 := match current_input_type c with
                 | Some t => if td_is_leaf t then st ++ validate_value s c (VObject l) else st
                 | None => st
                 end in
      match current_input_type c with
      | Some (TDInputObject _ fields) =>
          st1 ++
          flat_map (fun f => if iv_is_required f && negb (existsb (fun kv : name * value => name_eqb (fst kv) (iv_name f)) l)
                             then [vct_err] else []) fields ++
          flat_map (fun kv : name * value =>
                      if existsb (fun f => name_eqb (iv_name f) (fst kv)) fields then [] else [vct_err]) l
      | _ => st1
      end
  | Enter (NEnum n) => st ++ validate_value s c (VEnum n)
  | Enter (NScalar v) => st ++ validate_value s c v
  | _ => st
  end.

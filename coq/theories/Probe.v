(* Probe.v — the family of probe transformers used by the C17 correspondence check: every hook
   logs its call; hook i (bit i of [mask]) rewrites a pseudo-randomly chosen subset of its nodes
   (chosen from the node's position / content, modulus [k], offset [salt]) in a recognisable way.
   The Rust harness implements exactly the same choices (harness/src/op_transform.rs). *)
From GT Require Export Transformer Render.
Local Open Scope string_scope.

Definition chosen (n k salt : N) : bool := N.eqb ((n + salt) mod (N.max k 1)) 0.
Definition pos_code (p : pos) : N := (fst p * 31 + snd p)%N.
Definition bit (mask : N) (i : N) : bool := N.testbit mask i.
Definition len_code (s : string) : N := N.of_nat (String.length s).

Definition probe_log (acc : list string) (h : hnode) : list string :=
  match h with
  | HDefinition (DOp o) => "H Definition op " ++ s_kind (o_kind o) ++ " " ++ s_oname (op_node_name o)
  | HDefinition (DFrag f) => "H Definition frag " ++ fr_name f
  | HOperation o => "H Operation " ++ s_kind (o_kind o) ++ " " ++ s_oname (op_node_name o)
  | HFragment f => "H Fragment " ++ s_pos (fr_pos f) ++ " " ++ fr_name f
  | HSelectionSet l => "H SelectionSet " ++ s_nat (List.length l)
  | HField (SField p _ n _ _ _ _) => "H Field " ++ s_pos p ++ " " ++ n
  | HSpread (SSpread p n _) => "H Spread " ++ s_pos p ++ " " ++ n
  | HInline (SInline p tc _ _ _) => "H Inline " ++ s_pos p ++ " " ++ s_oname tc
  | HField _ | HSpread _ | HInline _ => "H BAD"
  | HDirective d => "H Directive " ++ s_pos (d_pos d) ++ " " ++ d_name d
  | HArgument a => "H Argument " ++ fst a
  | HValue v => "H Value " ++ s_value v
  | HVarDef v => "H VarDef " ++ s_pos (v_pos v) ++ " " ++ v_name v
  end :: acc.

Definition probe (mask k salt : N) : hooks (list string) :=
  mkHooks probe_log
    (fun x => if bit mask 0 then
                match x with
                | DOp o => if negb (match o_kind o with OpSelSet => true | _ => false end) && chosen (pos_code (o_pos o)) k (salt + 1)
                           then Some (DOp (mkOperation (o_kind o) (o_pos o)
                                         (Some (match o_name o with Some n => n ++ "_d" | None => "_d" end))
                                         (o_vars o) (o_dirs o) (o_span o) (o_sels o))) else None
                | DFrag f => if chosen (pos_code (fr_pos f)) k (salt + 1)
                             then Some (DFrag (mkFragment (fr_pos f) (fr_name f ++ "_d") (fr_tc f) (fr_dirs f) (fr_span f) (fr_sels f)))
                             else None
                end else None)
    (fun o => if bit mask 1 && negb (match o_kind o with OpSelSet => true | _ => false end) && chosen (pos_code (o_pos o)) k salt
              then Some (mkOperation (o_kind o) (o_pos o) (Some (match o_name o with Some n => n ++ "_x" | None => "_x" end))
                                     (o_vars o) (o_dirs o) (o_span o) (o_sels o)) else None)
    (fun f => if bit mask 2 && chosen (pos_code (fr_pos f)) k salt
              then Some (mkFragment (fr_pos f) (fr_name f ++ "_x") (fr_tc f) (fr_dirs f) (fr_span f) (fr_sels f)) else None)
    (fun l => if bit mask 3 && Nat.leb 2 (List.length l) && chosen (N.of_nat (List.length l)) k salt then Some (rev l) else None)
    (fun x => match x with
              | SField p al n args dirs sp sels =>
                  if bit mask 4 && chosen (pos_code p) k salt then Some (SField p al (n ++ "_x") args dirs sp sels) else None
              | _ => None end)
    (fun x => match x with
              | SSpread p n dirs => if bit mask 5 && chosen (pos_code p) k salt then Some (SSpread p (n ++ "_x") dirs) else None
              | _ => None end)
    (fun x => match x with
              | SInline p tc dirs sp sels =>
                  if bit mask 6 && chosen (pos_code p) k salt
                  then Some (SInline p (Some (match tc with Some t => t ++ "_x" | None => "_x" end)) dirs sp sels) else None
              | _ => None end)
    (fun d => if bit mask 7 && chosen (pos_code (d_pos d)) k salt then Some (mkDirective (d_pos d) (d_name d ++ "_x") (d_args d)) else None)
    (fun a => if bit mask 8 && chosen (len_code (fst a)) k salt then Some (fst a ++ "_x", snd a) else None)
    (fun v => if bit mask 9 then
                match v with
                | VInt z => if chosen (Z.to_N (Z.abs z)) k salt then Some (VInt (z + 1)) else None
                | VString s => if chosen (len_code s) k salt then Some (VString (s ++ "_x")) else None
                | _ => None
                end else None)
    (fun v => if bit mask 10 && chosen (pos_code (v_pos v)) k salt
              then Some (mkVardef (v_pos v) (v_name v ++ "_x") (v_type v) (v_default v)) else None).

Definition render_transform (d : document) (mask k salt : N) : list string :=
  let '(log, r) := transform_document (probe mask k salt) d [] in
  List.app (rev log)
           [match r with Keep => "RESULT keep" | Replace _ => "RESULT replace" end;
            "DOC " ++ x_document (replace_or d r)].

(* Run.v — entry point used by the extracted driver and by the vm_compute cross-check:
   decode one input line, evaluate the requested model function, render the result. *)
From GT Require Export Sexp Render.
Local Open Scope string_scope.

(* line forms:   (S <sdoc>)                      -> remembered by the driver
                 (C <id> <op> <doc> args...)     -> evaluated against the current schema *)
Definition run_case (s : sdocument) (op : string) (args : list sexp) : list string :=
  if String.eqb op "trace" then
    match args with
    | [d] => match d_document d with Some d => render_trace s d | None => ["BADINPUT"] end
    | _ => ["BADINPUT"]
    end
  else if String.eqb op "strace" then render_strace s
  else ["BADOP"].

(* line-level entry points: the driver keeps the current schema *)
Definition run_line_schema (line : string) : option sdocument :=
  match parse_line line with
  | Some [SL [Atom k; sd]] => if String.eqb k "S" then d_sdocument sd else None
  | _ => None
  end.

(* returns (case id, output lines) *)
Definition run_line_case (s : sdocument) (line : string) : option (string * list string) :=
  match parse_line line with
  | Some [SL (Atom k :: Atom id :: Atom op :: args)] =>
      if String.eqb k "C" then Some (id, run_case s op args) else None
  | _ => None
  end.

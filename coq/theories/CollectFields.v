(* CollectFields.v — mirror of src/ast/collect_fields.rs.  The result HashMap<String, Vec<Field>>
   is an association list in first-insertion order of the keys (response keys); the order of a
   HashMap is unobservable, every consumer in the crate uses only the key set / the groups. *)
From GT Require Export Ext.

Definition does_fragment_condition_match (s : sdocument) (cond : option name) (current : type_def) : bool :=
  match cond with
  | None => true
  | Some tn =>
      match type_by_name s tn with
      | Some ct =>
          if name_eqb (td_name ct) (td_name current) then true
          else match ct with
               | TDInterface n _ _ => iface_is_implemented_by n current
               | TDUnion _ types => union_has_sub_type types (td_name current)
               | _ => false
               end
      | None => false
      end
  end.

Definition field_groups := list (name * list selection).

Definition cf_push (key : name) (f : selection) (m : field_groups) : field_groups :=
  match al_get key m with
  | Some fs => al_set key (fs ++ [f]) m
  | None => m ++ [(key, [f])]
  end.

Definition response_key (f : selection) : name :=
  match f with
  | SField _ (Some a) _ _ _ _ _ => a
  | SField _ None n _ _ _ _ => n
  | _ => ""
  end.

Definition cf_state := (field_groups * list name)%type.      (* result map, visited fragment names *)

(* fuel is consumed only when a named fragment is entered *)
Fixpoint collect_fields_inner (fuel : nat) (s : sdocument) (d : document) (parent : type_def)
         (sels : list selection) (st : cf_state) {struct fuel} : option cf_state :=
  match fuel with
  | O => None
  | S fuel' =>
      let one := fix one (x : selection) (st : cf_state) {struct x} : option cf_state :=
        match x with
        | SField _ _ _ _ _ _ _ => Some (cf_push (response_key x) x (fst st), snd st)
        | SInline _ tc _ _ ss =>
            if does_fragment_condition_match s tc parent then
              (fix many (l : list selection) (st : cf_state) {struct l} : option cf_state :=
                 match l with
                 | [] => Some st
                 | y :: r => match one y st with Some st' => many r st' | None => None end
                 end) ss st
            else Some st
        | SSpread _ n _ =>
            if mem_name n (snd st) then Some st
            else
              let st1 := (fst st, snd st ++ [n]) in
              match known_fragment d n with
              | Some fr =>
                  if does_fragment_condition_match s (Some (fr_tc fr)) parent
                  then collect_fields_inner fuel' s d parent (fr_sels fr) st1
                  else Some st1
              | None => Some st1
              end
        end in
      (fix many (l : list selection) (st : cf_state) {struct l} : option cf_state :=
         match l with
         | [] => Some st
         | y :: r => match one y st with Some st' => many r st' | None => None end
         end) sels st
  end.

Definition collect_fields_fuel (d : document) : nat := S (S (List.length (fragments_of d))).

Definition collect_fields (s : sdocument) (d : document) (parent : type_def) (sels : list selection)
  : option field_groups :=
  opt_map fst (collect_fields_inner (collect_fields_fuel d) s d parent sels ([], [])).

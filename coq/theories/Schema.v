(* Schema.v — schema-document AST, mirroring graphql_parser::schema as far as graphql-tools
   reads it.  Not modelled: descriptions, directives applied to schema elements, positions. *)
From GT Require Export Ast.

Record input_value_def := mkIV { iv_name : name; iv_type : ty; iv_default : option value }.

Record field_def := mkFD { fd_name : name; fd_args : list input_value_def; fd_type : ty }.

Inductive type_def : Type :=
| TDObject (n : name) (ifaces : list name) (fields : list field_def)
| TDInterface (n : name) (ifaces : list name) (fields : list field_def)
| TDUnion (n : name) (types : list name)
| TDScalar (n : name)
| TDEnum (n : name) (values : list name)
| TDInputObject (n : name) (fields : list input_value_def).

Inductive dir_loc :=
| LQuery | LMutation | LSubscription | LField | LFragmentDefinition | LFragmentSpread
| LInlineFragment | LVariableDefinition
| LSchema | LScalar | LObject | LFieldDefinition | LArgumentDefinition | LInterface | LUnion
| LEnum | LEnumValue | LInputObject | LInputFieldDefinition.

Record directive_def := mkDD {
  dd_name : name; dd_args : list input_value_def; dd_repeatable : bool; dd_locs : list dir_loc }.

Record schema_def := mkSD { sd_query : option name; sd_mutation : option name; sd_subscription : option name }.

Inductive sdefinition :=
| SDSchema (x : schema_def)
| SDType (t : type_def)
| SDDirective (x : directive_def)
| SDTypeExt (target : name).           (* kept only so that the schema visitor's panic branch exists *)

Definition sdocument := list sdefinition.

Definition dir_loc_eqb (a b : dir_loc) : bool :=
  match a, b with
  | LQuery, LQuery | LMutation, LMutation | LSubscription, LSubscription | LField, LField
  | LFragmentDefinition, LFragmentDefinition | LFragmentSpread, LFragmentSpread
  | LInlineFragment, LInlineFragment | LVariableDefinition, LVariableDefinition
  | LSchema, LSchema | LScalar, LScalar | LObject, LObject | LFieldDefinition, LFieldDefinition
  | LArgumentDefinition, LArgumentDefinition | LInterface, LInterface | LUnion, LUnion
  | LEnum, LEnum | LEnumValue, LEnumValue | LInputObject, LInputObject
  | LInputFieldDefinition, LInputFieldDefinition => true
  | _, _ => false
  end.

(* Transformer.v — mirror of src/ast/operation_transformer.rs.  Rust's open recursion through
   overridable default trait methods is modelled by a record of hooks, one per overridable
   method the property names (definition, operation, fragment, selection set, field, fragment
   spread, inline fragment, directive, argument, value, variable definition).  A hook of the
   modelled class logs the call ([pre]), delegates to the default method (which transforms the
   children, in the code's order) and may replace the node it is given — the node with its
   children already transformed — by [rw] of it.  With every [rw] returning None this is the
   transformer with nothing overridden.  The remaining overridable methods (transform_query /
   mutation / subscription, transform_selection, transform_directives, transform_arguments,
   transform_variable_definitions, transform_document) are taken in their default form. *)
From GT Require Export Ast.

Inductive tr (A : Type) := Keep | Replace (a : A).
Arguments Keep {A}.
Arguments Replace {A} a.

Definition replace_or {A} (x : A) (r : tr A) : A := match r with Keep => x | Replace y => y end.
Definition should_keep {A} (r : tr A) : bool := match r with Keep => true | Replace _ => false end.

Inductive hnode :=
| HDefinition (x : definition) | HOperation (o : operation) | HFragment (f : fragment_def)
| HSelectionSet (l : list selection) | HField (f : selection) | HSpread (f : selection)
| HInline (f : selection) | HDirective (d : directive) | HArgument (a : argument)
| HValue (v : value) | HVarDef (v : vardef).

Record hooks (St : Type) := mkHooks {
  pre : St -> hnode -> St;
  rw_definition : definition -> option definition;
  rw_operation : operation -> option operation;
  rw_fragment : fragment_def -> option fragment_def;
  rw_selection_set : list selection -> option (list selection);
  rw_field : selection -> option selection;
  rw_spread : selection -> option selection;
  rw_inline : selection -> option selection;
  rw_directive : directive -> option directive;
  rw_argument : argument -> option argument;
  rw_value : value -> option value;
  rw_vardef : vardef -> option vardef }.

Arguments mkHooks {St} _ _ _ _ _ _ _ _ _ _ _ _.
Arguments pre {St} h _ _.
Arguments rw_definition {St} h _.
Arguments rw_operation {St} h _.
Arguments rw_fragment {St} h _.
Arguments rw_selection_set {St} h _.
Arguments rw_field {St} h _.
Arguments rw_spread {St} h _.
Arguments rw_inline {St} h _.
Arguments rw_directive {St} h _.
Arguments rw_argument {St} h _.
Arguments rw_value {St} h _.
Arguments rw_vardef {St} h _.

Section Transform.
  Variable St : Type.
  Variable H : hooks St.

  (* the hook wrapper: log, run the default method, maybe replace the (rebuilt) node *)
  Definition hooked {A} (mk : A -> hnode) (rw : A -> option A) (dflt : St -> St * tr A) (x : A) (st : St)
    : St * tr A :=
    let st1 := pre H st (mk x) in
    let '(st2, r) := dflt st1 in
    match rw (replace_or x r) with
    | Some y => (st2, Replace y)
    | None => (st2, r)
    end.

  (* transform_list: Keep until the first replacement, then a full copy *)
  Definition transform_list {A} (f : A -> St -> St * tr A) : list A -> St -> St * tr (list A) :=
    fun l st =>
      let '(st', items, changed) :=
        (fix go (l : list A) (st : St) : St * list A * bool :=
           match l with
           | [] => (st, [], false)
           | x :: r =>
               let '(st1, rx) := f x st in
               let '(st2, rest, ch) := go r st1 in
               (st2, replace_or x rx :: rest, negb (should_keep rx) || ch)
           end) l st in
      (st', if changed then Replace items else Keep).

  Definition transform_value (v : value) (st : St) : St * tr value :=
    hooked HValue (rw_value H) (fun st => (st, Keep)) v st.

  Definition transform_argument (a : argument) (st : St) : St * tr argument :=
    hooked HArgument (rw_argument H)
      (fun st => let '(st1, rv) := transform_value (snd a) st in
                 (st1, match rv with Keep => Keep | Replace v' => Replace (fst a, v') end)) a st.

  Definition transform_arguments (args : list argument) (st : St) := transform_list transform_argument args st.

  Definition transform_directive (d : directive) (st : St) : St * tr directive :=
    hooked HDirective (rw_directive H)
      (fun st => let '(st1, ra) := transform_arguments (d_args d) st in
                 (st1, match ra with Keep => Keep | Replace a' => Replace (mkDirective (d_pos d) (d_name d) a') end)) d st.

  Definition transform_directives (ds : list directive) (st : St) := transform_list transform_directive ds st.

  Definition transform_variable_definition (v : vardef) (st : St) : St * tr vardef :=
    hooked HVarDef (rw_vardef H)
      (fun st => match v_default v with
                 | Some dv =>
                     let '(st1, rv) := transform_value dv st in
                     (st1, match rv with
                           | Keep => Keep
                           | Replace v' => Replace (mkVardef (v_pos v) (v_name v) (v_type v) (Some v'))
                           end)
                 | None => (st, Keep)
                 end) v st.

  Definition transform_variable_definitions (vs : list vardef) (st : St) :=
    transform_list transform_variable_definition vs st.

  Fixpoint transform_selection (x : selection) (st : St) {struct x} : St * tr selection :=
    let selset := fun (sels : list selection) (st : St) =>
      hooked HSelectionSet (rw_selection_set H) (transform_list transform_selection sels) sels st in
    match x with
    | SField p al n args dirs sp sels =>
        hooked HField (rw_field H)
          (fun st =>
             let '(st1, rs) := selset sels st in
             let '(st2, ra) := transform_arguments args st1 in
             let '(st3, rd) := transform_directives dirs st2 in
             (st3, if should_keep rs && should_keep ra && should_keep rd then Keep
                   else Replace (SField p al n (replace_or args ra) (replace_or dirs rd) sp (replace_or sels rs)))) x st
    | SSpread p n dirs =>
        hooked HSpread (rw_spread H)
          (fun st =>
             let '(st1, rd) := transform_directives dirs st in
             (st1, Replace (SSpread p n (replace_or dirs rd)))) x st      (* always a replacement *)
    | SInline p tc dirs sp sels =>
        hooked HInline (rw_inline H)
          (fun st =>
             let '(st1, rs) := selset sels st in
             let '(st2, rd) := transform_directives dirs st1 in
             (st2, if should_keep rs && should_keep rd then Keep
                   else Replace (SInline p tc (replace_or dirs rd) sp (replace_or sels rs)))) x st
    end.

  Definition transform_selection_set (sels : list selection) (st : St) : St * tr (list selection) :=
    hooked HSelectionSet (rw_selection_set H) (transform_list transform_selection sels) sels st.

  Definition transform_operation (o : operation) (st : St) : St * tr operation :=
    hooked HOperation (rw_operation H)
      (fun st =>
         match o_kind o with
         | OpSelSet =>
             let '(st1, rs) := transform_selection_set (o_sels o) st in
             (st1, match rs with
                   | Keep => Keep
                   | Replace items => Replace (mkOperation OpSelSet (o_pos o) (o_name o) (o_vars o) (o_dirs o) (o_span o) items)
                   end)
         | k =>
             let '(st1, rs) := transform_selection_set (o_sels o) st in
             let '(st2, rd) := transform_directives (o_dirs o) st1 in
             let '(st3, rv) := transform_variable_definitions (o_vars o) st2 in
             (st3, if should_keep rs && should_keep rd && should_keep rv then Keep
                   else Replace (mkOperation k (o_pos o) (o_name o) (replace_or (o_vars o) rv)
                                             (replace_or (o_dirs o) rd) (o_span o) (replace_or (o_sels o) rs)))
         end) o st.

  Definition transform_fragment (f : fragment_def) (st : St) : St * tr fragment_def :=
    hooked HFragment (rw_fragment H)
      (fun st =>
         let '(st1, rs) := transform_selection_set (fr_sels f) st in
         let '(st2, rd) := transform_directives (fr_dirs f) st1 in
         (st2, if should_keep rs && should_keep rd then Keep
               else Replace (mkFragment (fr_pos f) (fr_name f) (fr_tc f) (replace_or (fr_dirs f) rd)
                                        (fr_span f) (replace_or (fr_sels f) rs)))) f st.

  Definition transform_definition (x : definition) (st : St) : St * tr definition :=
    hooked HDefinition (rw_definition H)
      (fun st =>
         match x with
         | DOp o => let '(st1, r) := transform_operation o st in
                    (st1, match r with Keep => Keep | Replace o' => Replace (DOp o') end)
         | DFrag f => let '(st1, r) := transform_fragment f st in
                      (st1, match r with Keep => Keep | Replace f' => Replace (DFrag f') end)
         end) x st.

  Definition transform_document (d : document) (st : St) : St * tr document :=
    transform_list transform_definition d st.
End Transform.

Arguments transform_document {St} H d st.
Arguments transform_list {St A} f l st.

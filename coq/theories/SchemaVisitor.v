(* SchemaVisitor.v — mirror of src/ast/schema_visitor.rs (visit_schema_document).
   The visitor methods take &self and a user context; the model produces the callback trace.
   None = the `panic!("TypeExtension not supported at the moment")` branch. *)
From GT Require Export Ext.

Inductive snode :=
| SNDocument (d : sdocument)
| SNSchemaDef (x : schema_def)
| SNTypeDef (t : type_def)
| SNObject (t : type_def)
| SNObjectField (f : field_def) (owner : type_def)
| SNScalar (t : type_def)
| SNEnum (t : type_def)
| SNEnumValue (v : name) (owner : type_def)
| SNUnion (t : type_def)
| SNInputObject (t : type_def)
| SNInputField (f : input_value_def) (owner : type_def)
| SNInterface (t : type_def)
| SNInterfaceField (f : field_def) (owner : type_def)
| SNDirectiveDef (x : directive_def).

Inductive sevent := SEnter (n : snode) | SLeave (n : snode).

Definition svisit_type (t : type_def) : list sevent :=
  [SEnter (SNTypeDef t)] ++
  match t with
  | TDObject _ _ fs =>
      [SEnter (SNObject t)] ++
      flat_map (fun f => [SEnter (SNObjectField f t); SLeave (SNObjectField f t)]) fs ++
      [SLeave (SNObject t)]
  | TDScalar _ => [SEnter (SNScalar t); SLeave (SNScalar t)]
  | TDEnum _ vs =>
      [SEnter (SNEnum t)] ++
      flat_map (fun v => [SEnter (SNEnumValue v t); SLeave (SNEnumValue v t)]) vs ++
      [SLeave (SNEnum t)]
  | TDUnion _ _ => [SEnter (SNUnion t); SLeave (SNUnion t)]
  | TDInputObject _ fs =>
      [SEnter (SNInputObject t)] ++
      flat_map (fun f => [SEnter (SNInputField f t); SLeave (SNInputField f t)]) fs ++
      [SLeave (SNInputObject t)]
  | TDInterface _ _ fs =>
      [SEnter (SNInterface t)] ++
      flat_map (fun f => [SEnter (SNInterfaceField f t); SLeave (SNInterfaceField f t)]) fs ++
      [SLeave (SNInterface t)]
  end ++
  [SLeave (SNTypeDef t)].

Definition svisit_definition (x : sdefinition) : option (list sevent) :=
  match x with
  | SDSchema sd => Some [SEnter (SNSchemaDef sd); SLeave (SNSchemaDef sd)]
  | SDType t => Some (svisit_type t)
  | SDDirective dd => Some [SEnter (SNDirectiveDef dd); SLeave (SNDirectiveDef dd)]
  | SDTypeExt _ => None
  end.

Fixpoint svisit_definitions (l : sdocument) : option (list sevent) :=
  match l with
  | [] => Some []
  | x :: r =>
      match svisit_definition x with
      | None => None
      | Some ev => match svisit_definitions r with
                   | None => None
                   | Some evr => Some (ev ++ evr)
                   end
      end
  end.

Definition visit_schema_document (d : sdocument) : option (list sevent) :=
  match svisit_definitions d with
  | None => None
  | Some ev => Some ([SEnter (SNDocument d)] ++ ev ++ [SLeave (SNDocument d)])
  end.

(* Introspection.v — model of src/introspection/introspection.rs: the structs / enums (one Gallina
   type per Rust type, members in declaration order) and what `#[derive(Serialize, Deserialize)]`
   makes of them, on JSON TREES (theories/Json.v).  Byte-level JSON reading, reader chunking and
   I/O faults are serde_json's and outside this model.

   serde semantics modelled (each point checked against serde 1.0.215 / serde_json 1.0.132 with a
   throw-away program, see the C20 report):
   * struct <- JSON object: every member looked up by its (renamed) key; a key of the struct
     occurring twice is an error ("duplicate field"), whatever the values; unknown keys are ignored
     (also when repeated); `Option<T>` member: key absent or value null => None, otherwise Some(T);
     any other member: key absent => error, null => whatever T makes of null (an error for String,
     bool, Vec, structs, tagged enums).
   * struct <- JSON array: positional, exactly as many elements as the struct has members (fewer:
     "invalid length", more: "trailing characters"); an Option member takes null => None.
   * `#[serde(tag = "kind")]` enum <- object: exactly one member "kind" (twice: error, absent:
     error) whose value is a string naming a variant; the variant's content is read from the same
     object (no variant content has a member called "kind", so leaving it in is unobservable);
     <- array: first element the variant name, the remaining elements the content, positionally.
     The content of a tagged enum is BUFFERED by serde (private Content tree) before the variant
     is read from it.  A tagged enum that is itself read from buffered content (parameter
     [buffered] below: everything inside an element of "types", and every "ofType") also accepts,
     as its tag, a non-negative INTEGER i < number of variants, meaning the i-th variant in
     declaration order; read directly from the JSON text the tag must be a string.
   * `#[serde(tag = "kind")]` on the STRUCT IntrospectionField only adds "kind":"IntrospectionField"
     when serialising; deserialisation ignores any "kind" member(s).
   * DirectiveLocation (unit variants) <- a string naming a variant, or an object with exactly one
     member whose key names a variant and whose value is null.
   * `Option<serde_json::Value>` <- any JSON, null => None; serde_json::Value stores objects in a
     map: of several members with one key the LAST wins ([norm_value]; the map is key-sorted, the
     model keeps the order of the surviving members: member order is irrelevant to the comparison).
     Numbers inside such a value: the trees carry integers only; serde_json::Value keeps integers
     in [-2^63, 2^64) exactly and turns anything else into a float (not modelled).
   * serialisation: structs => objects with every member (declaration order, renamed keys),
     None => null, tagged enums => the content's object with "kind" in front. *)
From GT Require Export Json.
Local Open Scope string_scope.

Notation "'let*' x ':=' a 'in' b" := (opt_bind a (fun x => b))
  (at level 200, x name, a at level 100, b at level 200, only parsing).

(* ================================================================ types *)
Record named_ref := mkNamedRef { ntr_name : string }.                 (* IntrospectionNamedTypeRef *)

Inductive out_ref : Type :=                                           (* IntrospectionOutputTypeRef *)
| OR_SCALAR (r : named_ref)
| OR_LIST (of_type : option out_ref)
| OR_NON_NULL (of_type : option out_ref)
| OR_ENUM (r : named_ref)
| OR_INPUT_OBJECT (r : named_ref)
| OR_UNION (r : named_ref)
| OR_OBJECT (r : named_ref)
| OR_INTERFACE (r : named_ref).

Inductive in_ref : Type :=                                            (* IntrospectionInputTypeRef *)
| IR_LIST (of_type : option in_ref)
| IR_NON_NULL (of_type : option in_ref)
| IR_SCALAR (r : named_ref)
| IR_ENUM (r : named_ref)
| IR_INPUT_OBJECT (r : named_ref).

Record scalar_type := mkScalarType {                                  (* IntrospectionScalarType *)
  isc_name : string; isc_description : option string; isc_specified_by_url : option string }.

Record iinput_value := mkIInputValue {                                (* IntrospectionInputValue *)
  iiv_name : string; iiv_description : option string; iiv_default_value : option json;
  iiv_is_deprecated : option bool; iiv_deprecation_reason : option string;
  iiv_type_ref : option in_ref }.

Record ifield := mkIField {                                           (* IntrospectionField *)
  ifd_name : string; ifd_description : option string; ifd_args : list iinput_value;
  ifd_is_deprecated : option bool; ifd_deprecation_reason : option string; ifd_type_ref : out_ref }.

Record object_type := mkObjectType {                                  (* IntrospectionObjectType *)
  iob_name : string; iob_description : option string; iob_fields : list ifield;
  iob_interfaces : list named_ref }.

Record interface_type := mkInterfaceType {                            (* IntrospectionInterfaceType *)
  iif_name : string; iif_description : option string; iif_fields : list ifield;
  iif_interfaces : option (list named_ref); iif_possible_types : list named_ref }.

Record union_type := mkUnionType {                                    (* IntrospectionUnionType *)
  iun_name : string; iun_description : option string; iun_possible_types : list named_ref }.

Record enum_value := mkEnumValue {                                    (* IntrospectionEnumValue *)
  iev_name : string; iev_description : option string; iev_is_deprecated : option bool;
  iev_deprecation_reason : option string }.

Record enum_type := mkEnumType {                                      (* IntrospectionEnumType *)
  ien_name : string; ien_description : option string; ien_enum_values : list enum_value }.

Record input_object_type := mkInputObjectType {                       (* IntrospectionInputObjectType *)
  iio_name : string; iio_description : option string; iio_input_fields : list iinput_value }.

Inductive itype : Type :=                                             (* IntrospectionType *)
| T_SCALAR (x : scalar_type)
| T_OBJECT (x : object_type)
| T_INTERFACE (x : interface_type)
| T_UNION (x : union_type)
| T_ENUM (x : enum_type)
| T_INPUT_OBJECT (x : input_object_type).

Inductive iinput_type : Type :=                                       (* IntrospectionInputType (unused by the parser entry points) *)
| IT_SCALAR (x : scalar_type)
| IT_ENUM (x : enum_type)
| IT_INPUT_OBJECT (x : input_object_type).

Inductive ioutput_type : Type :=                                      (* IntrospectionOutputType (unused by the parser entry points) *)
| OT_SCALAR (x : scalar_type)
| OT_OBJECT (x : object_type)
| OT_INTERFACE (x : interface_type)
| OT_UNION (x : union_type)
| OT_ENUM (x : enum_type).

(* DirectiveLocation: the same nineteen variants, in the same order, as [dir_loc] of Schema.v *)
Record idirective := mkIDirective {                                   (* IntrospectionDirective *)
  idr_name : string; idr_description : option string; idr_is_repeatable : option bool;
  idr_locations : list dir_loc; idr_args : list iinput_value }.

Record ischema := mkISchema {                                         (* IntrospectionSchema *)
  isch_description : option string; isch_query_type : named_ref;
  isch_mutation_type : option named_ref; isch_subscription_type : option named_ref;
  isch_types : list itype; isch_directives : list idirective }.

Record introspection_query := mkIQuery { iq_schema : ischema }.       (* IntrospectionQuery *)

(* IntrospectionType::name() *)
Definition itype_name (t : itype) : string :=
  match t with
  | T_SCALAR x => isc_name x | T_OBJECT x => iob_name x | T_INTERFACE x => iif_name x
  | T_UNION x => iun_name x | T_ENUM x => ien_name x | T_INPUT_OBJECT x => iio_name x
  end.

(* ================================================================ serde_json::Value *)
(* what reading a JSON tree into a serde_json::Value and writing it back gives: of several
   members with the same key only the last survives *)
Fixpoint norm_value (j : json) : json :=
  match j with
  | JArr l => JArr ((fix go (l : list json) : list json :=
                       match l with [] => [] | x :: r => norm_value x :: go r end) l)
  | JObj es => JObj ((fix go (es : list (string * json)) : list (string * json) :=
                        match es with
                        | [] => []
                        | (k, v) :: r => if has_key k r then go r else (k, norm_value v) :: go r
                        end) es)
  | _ => j
  end.

(* ================================================================ deserialisation *)
Inductive lres (A : Type) : Type := LMissing | LDup | LOne (a : A).
Arguments LMissing {A}.
Arguments LDup {A}.
Arguments LOne {A} a.

Section Lookup.
  Context {A : Type} (f : json -> A).
  (* the member with key k, read by f: missing / present more than once / present once *)
  Fixpoint lookup_with (k : string) (es : list (string * json)) : lres A :=
    match es with
    | [] => LMissing
    | (k', v) :: r =>
        if String.eqb k k' then match lookup_with k r with LMissing => LOne (f v) | _ => LDup end
        else lookup_with k r
    end.
  Fixpoint nth_with (i : nat) (l : list json) : lres A :=
    match l, i with
    | [], _ => LMissing
    | x :: _, O => LOne (f x)
    | _ :: r, S i' => nth_with i' r
    end.
End Lookup.

(* where the members of a struct come from: the members of an object, or the elements of an array *)
Inductive source : Type := SrcMap (es : list (string * json)) | SrcSeq (l : list json).

Definition to_source (j : json) : option source :=
  match j with JObj es => Some (SrcMap es) | JArr l => Some (SrcSeq l) | _ => None end.

(* member number i (declaration order), key k *)
Definition get {A} (f : json -> A) (src : source) (i : nat) (k : string) : lres A :=
  match src with SrcMap es => lookup_with f k es | SrcSeq l => nth_with f i l end.

(* a positional source must have exactly n elements *)
Definition arity_ok (src : source) (n : nat) : bool :=
  match src with SrcMap _ => true | SrcSeq l => Nat.eqb (List.length l) n end.

Definition req_field {A} (r : lres (option A)) : option A :=
  match r with LOne x => x | _ => None end.
Definition opt_field {A} (r : lres (option (option A))) : option (option A) :=
  match r with LMissing => Some None | LDup => None | LOne x => x end.
(* Option<T> *)
Definition opt_dec {A} (dec : json -> option A) (j : json) : option (option A) :=
  match j with JNull => Some None | _ => opt_map Some (dec j) end.

Definition req {A} (dec : json -> option A) (src : source) (i : nat) (k : string) : option A :=
  req_field (get dec src i k).
Definition opt {A} (dec : json -> option A) (src : source) (i : nat) (k : string) : option (option A) :=
  opt_field (get (opt_dec dec) src i k).

Definition decode_string (j : json) : option string := match j with JStr s => Some s | _ => None end.
Definition decode_bool (j : json) : option bool := match j with JBool b => Some b | _ => None end.
Definition decode_value (j : json) : option json := Some (norm_value j).

Fixpoint map_opt {A B} (f : A -> option B) (l : list A) : option (list B) :=
  match l with
  | [] => Some []
  | x :: r => match f x, map_opt f r with Some a, Some b => Some (a :: b) | _, _ => None end
  end.
(* Vec<T> *)
Definition decode_list {A} (dec : json -> option A) (j : json) : option (list A) :=
  match j with JArr l => map_opt dec l | _ => None end.

Definition of_source {A} (dec : source -> option A) (j : json) : option A :=
  let* src := to_source j in dec src.

(* the tag of a #[serde(tag = "kind")] enum with the given variants, as a variant name *)
Definition variant_by_index (variants : list string) (z : Z) : option string :=
  if (0 <=? z)%Z && (z <? Z.of_nat (List.length variants))%Z then nth_error variants (Z.to_nat z) else None.
Definition tag_of (buffered : bool) (variants : list string) (j : json) : option string :=
  match j with
  | JStr t => Some t
  | JNum z => if buffered then variant_by_index variants z else None
  | _ => None
  end.

(* #[serde(tag = "kind")]: the variant name and the source of the variant's content *)
Definition split_tag (buffered : bool) (variants : list string) (j : json) : option (string * source) :=
  match j with
  | JObj es =>
      match lookup_with (fun x => x) "kind" es with
      | LOne tj => let* t := tag_of buffered variants tj in Some (t, SrcMap es)
      | _ => None
      end
  | JArr (tj :: rest) => let* t := tag_of buffered variants tj in Some (t, SrcSeq rest)
  | _ => None
  end.

(* ---- IntrospectionNamedTypeRef ---- *)
Definition decode_named_ref_src (src : source) : option named_ref :=
  if arity_ok src 1 then
    let* n := req decode_string src 0 "name" in Some (mkNamedRef n)
  else None.
Definition decode_named_ref : json -> option named_ref := of_source decode_named_ref_src.

(* ---- IntrospectionOutputTypeRef / IntrospectionInputTypeRef ---- *)
Definition out_named_variant (t : string) : option (named_ref -> out_ref) :=
  if String.eqb t "SCALAR" then Some OR_SCALAR
  else if String.eqb t "ENUM" then Some OR_ENUM
  else if String.eqb t "INPUT_OBJECT" then Some OR_INPUT_OBJECT
  else if String.eqb t "UNION" then Some OR_UNION
  else if String.eqb t "OBJECT" then Some OR_OBJECT
  else if String.eqb t "INTERFACE" then Some OR_INTERFACE
  else None.

Definition out_ref_variants : list string :=
  ["SCALAR"; "LIST"; "NON_NULL"; "ENUM"; "INPUT_OBJECT"; "UNION"; "OBJECT"; "INTERFACE"].

Fixpoint decode_out_ref (buffered : bool) (j : json) {struct j} : option out_ref :=
  match j with
  | JObj es =>
      match lookup_with (fun x => x) "kind" es with
      | LOne tj =>
          match tag_of buffered out_ref_variants tj with
          | Some t =>
              if String.eqb t "LIST" then
                opt_map OR_LIST (opt_field (lookup_with (opt_dec (decode_out_ref true)) "ofType" es))
              else if String.eqb t "NON_NULL" then
                opt_map OR_NON_NULL (opt_field (lookup_with (opt_dec (decode_out_ref true)) "ofType" es))
              else match out_named_variant t with
                   | Some c => opt_map c (decode_named_ref_src (SrcMap es))
                   | None => None
                   end
          | None => None
          end
      | _ => None
      end
  | JArr (tj :: rest) =>
      match tag_of buffered out_ref_variants tj with
      | Some t =>
          if String.eqb t "LIST" then
            match rest with [x] => opt_map OR_LIST (opt_dec (decode_out_ref true) x) | _ => None end
          else if String.eqb t "NON_NULL" then
            match rest with [x] => opt_map OR_NON_NULL (opt_dec (decode_out_ref true) x) | _ => None end
          else match out_named_variant t with
               | Some c => opt_map c (decode_named_ref_src (SrcSeq rest))
               | None => None
               end
      | None => None
      end
  | _ => None
  end.

Definition in_named_variant (t : string) : option (named_ref -> in_ref) :=
  if String.eqb t "SCALAR" then Some IR_SCALAR
  else if String.eqb t "ENUM" then Some IR_ENUM
  else if String.eqb t "INPUT_OBJECT" then Some IR_INPUT_OBJECT
  else None.

Definition in_ref_variants : list string :=
  ["LIST"; "NON_NULL"; "SCALAR"; "ENUM"; "INPUT_OBJECT"].

Fixpoint decode_in_ref (buffered : bool) (j : json) {struct j} : option in_ref :=
  match j with
  | JObj es =>
      match lookup_with (fun x => x) "kind" es with
      | LOne tj =>
          match tag_of buffered in_ref_variants tj with
          | Some t =>
              if String.eqb t "LIST" then
                opt_map IR_LIST (opt_field (lookup_with (opt_dec (decode_in_ref true)) "ofType" es))
              else if String.eqb t "NON_NULL" then
                opt_map IR_NON_NULL (opt_field (lookup_with (opt_dec (decode_in_ref true)) "ofType" es))
              else match in_named_variant t with
                   | Some c => opt_map c (decode_named_ref_src (SrcMap es))
                   | None => None
                   end
          | None => None
          end
      | _ => None
      end
  | JArr (tj :: rest) =>
      match tag_of buffered in_ref_variants tj with
      | Some t =>
          if String.eqb t "LIST" then
            match rest with [x] => opt_map IR_LIST (opt_dec (decode_in_ref true) x) | _ => None end
          else if String.eqb t "NON_NULL" then
            match rest with [x] => opt_map IR_NON_NULL (opt_dec (decode_in_ref true) x) | _ => None end
          else match in_named_variant t with
               | Some c => opt_map c (decode_named_ref_src (SrcSeq rest))
               | None => None
               end
      | None => None
      end
  | _ => None
  end.

(* ---- IntrospectionScalarType ---- *)
Definition decode_scalar_type_src (src : source) : option scalar_type :=
  if arity_ok src 3 then
    let* n := req decode_string src 0 "name" in
    let* d := opt decode_string src 1 "description" in
    let* u := opt decode_string src 2 "specifiedByURL" in
    Some (mkScalarType n d u)
  else None.

(* ---- IntrospectionInputValue ---- *)
Definition decode_input_value_src (buffered : bool) (src : source) : option iinput_value :=
  if arity_ok src 6 then
    let* n := req decode_string src 0 "name" in
    let* d := opt decode_string src 1 "description" in
    let* dv := opt decode_value src 2 "defaultValue" in
    let* dep := opt decode_bool src 3 "isDeprecated" in
    let* reason := opt decode_string src 4 "deprecationReason" in
    let* t := opt (decode_in_ref buffered) src 5 "type" in
    Some (mkIInputValue n d dv dep reason t)
  else None.
Definition decode_input_value (buffered : bool) : json -> option iinput_value :=
  of_source (decode_input_value_src buffered).

(* ---- IntrospectionField (its serde tag is not read) ---- *)
Definition decode_field_src (buffered : bool) (src : source) : option ifield :=
  if arity_ok src 6 then
    let* n := req decode_string src 0 "name" in
    let* d := opt decode_string src 1 "description" in
    let* args := req (decode_list (decode_input_value buffered)) src 2 "args" in
    let* dep := opt decode_bool src 3 "isDeprecated" in
    let* reason := opt decode_string src 4 "deprecationReason" in
    let* t := req (decode_out_ref buffered) src 5 "type" in
    Some (mkIField n d args dep reason t)
  else None.
Definition decode_field (buffered : bool) : json -> option ifield := of_source (decode_field_src buffered).

(* ---- IntrospectionObjectType ---- *)
Definition decode_object_type_src (buffered : bool) (src : source) : option object_type :=
  if arity_ok src 4 then
    let* n := req decode_string src 0 "name" in
    let* d := opt decode_string src 1 "description" in
    let* fs := req (decode_list (decode_field buffered)) src 2 "fields" in
    let* is := req (decode_list decode_named_ref) src 3 "interfaces" in
    Some (mkObjectType n d fs is)
  else None.

(* ---- IntrospectionInterfaceType ---- *)
Definition decode_interface_type_src (buffered : bool) (src : source) : option interface_type :=
  if arity_ok src 5 then
    let* n := req decode_string src 0 "name" in
    let* d := opt decode_string src 1 "description" in
    let* fs := req (decode_list (decode_field buffered)) src 2 "fields" in
    let* is := opt (decode_list decode_named_ref) src 3 "interfaces" in
    let* ps := req (decode_list decode_named_ref) src 4 "possibleTypes" in
    Some (mkInterfaceType n d fs is ps)
  else None.

(* ---- IntrospectionUnionType ---- *)
Definition decode_union_type_src (src : source) : option union_type :=
  if arity_ok src 3 then
    let* n := req decode_string src 0 "name" in
    let* d := opt decode_string src 1 "description" in
    let* ps := req (decode_list decode_named_ref) src 2 "possibleTypes" in
    Some (mkUnionType n d ps)
  else None.

(* ---- IntrospectionEnumValue / IntrospectionEnumType ---- *)
Definition decode_enum_value_src (src : source) : option enum_value :=
  if arity_ok src 4 then
    let* n := req decode_string src 0 "name" in
    let* d := opt decode_string src 1 "description" in
    let* dep := opt decode_bool src 2 "isDeprecated" in
    let* reason := opt decode_string src 3 "deprecationReason" in
    Some (mkEnumValue n d dep reason)
  else None.
Definition decode_enum_value : json -> option enum_value := of_source decode_enum_value_src.

Definition decode_enum_type_src (src : source) : option enum_type :=
  if arity_ok src 3 then
    let* n := req decode_string src 0 "name" in
    let* d := opt decode_string src 1 "description" in
    let* vs := req (decode_list decode_enum_value) src 2 "enumValues" in
    Some (mkEnumType n d vs)
  else None.

(* ---- IntrospectionInputObjectType ---- *)
Definition decode_input_object_type_src (buffered : bool) (src : source) : option input_object_type :=
  if arity_ok src 3 then
    let* n := req decode_string src 0 "name" in
    let* d := opt decode_string src 1 "description" in
    let* fs := req (decode_list (decode_input_value buffered)) src 2 "inputFields" in
    Some (mkInputObjectType n d fs)
  else None.

(* ---- IntrospectionType / IntrospectionInputType / IntrospectionOutputType ----
   (read directly from the text; their content is buffered) ---- *)
Definition type_variants : list string := ["SCALAR"; "OBJECT"; "INTERFACE"; "UNION"; "ENUM"; "INPUT_OBJECT"].
Definition input_type_variants : list string := ["SCALAR"; "ENUM"; "INPUT_OBJECT"].
Definition output_type_variants : list string := ["SCALAR"; "OBJECT"; "INTERFACE"; "UNION"; "ENUM"].

Definition decode_type (j : json) : option itype :=
  let* ts := split_tag false type_variants j in
  let t := fst ts in let src := snd ts in
  if String.eqb t "SCALAR" then opt_map T_SCALAR (decode_scalar_type_src src)
  else if String.eqb t "OBJECT" then opt_map T_OBJECT (decode_object_type_src true src)
  else if String.eqb t "INTERFACE" then opt_map T_INTERFACE (decode_interface_type_src true src)
  else if String.eqb t "UNION" then opt_map T_UNION (decode_union_type_src src)
  else if String.eqb t "ENUM" then opt_map T_ENUM (decode_enum_type_src src)
  else if String.eqb t "INPUT_OBJECT" then opt_map T_INPUT_OBJECT (decode_input_object_type_src true src)
  else None.

Definition decode_input_type (j : json) : option iinput_type :=
  let* ts := split_tag false input_type_variants j in
  let t := fst ts in let src := snd ts in
  if String.eqb t "SCALAR" then opt_map IT_SCALAR (decode_scalar_type_src src)
  else if String.eqb t "ENUM" then opt_map IT_ENUM (decode_enum_type_src src)
  else if String.eqb t "INPUT_OBJECT" then opt_map IT_INPUT_OBJECT (decode_input_object_type_src true src)
  else None.

Definition decode_output_type (j : json) : option ioutput_type :=
  let* ts := split_tag false output_type_variants j in
  let t := fst ts in let src := snd ts in
  if String.eqb t "SCALAR" then opt_map OT_SCALAR (decode_scalar_type_src src)
  else if String.eqb t "OBJECT" then opt_map OT_OBJECT (decode_object_type_src true src)
  else if String.eqb t "INTERFACE" then opt_map OT_INTERFACE (decode_interface_type_src true src)
  else if String.eqb t "UNION" then opt_map OT_UNION (decode_union_type_src src)
  else if String.eqb t "ENUM" then opt_map OT_ENUM (decode_enum_type_src src)
  else None.

(* ---- DirectiveLocation ---- *)
Definition loc_name (l : dir_loc) : string :=
  match l with
  | LQuery => "QUERY" | LMutation => "MUTATION" | LSubscription => "SUBSCRIPTION" | LField => "FIELD"
  | LFragmentDefinition => "FRAGMENT_DEFINITION" | LFragmentSpread => "FRAGMENT_SPREAD"
  | LInlineFragment => "INLINE_FRAGMENT" | LVariableDefinition => "VARIABLE_DEFINITION"
  | LSchema => "SCHEMA" | LScalar => "SCALAR" | LObject => "OBJECT"
  | LFieldDefinition => "FIELD_DEFINITION" | LArgumentDefinition => "ARGUMENT_DEFINITION"
  | LInterface => "INTERFACE" | LUnion => "UNION" | LEnum => "ENUM" | LEnumValue => "ENUM_VALUE"
  | LInputObject => "INPUT_OBJECT" | LInputFieldDefinition => "INPUT_FIELD_DEFINITION"
  end.
Definition all_locs : list dir_loc :=
  [LQuery; LMutation; LSubscription; LField; LFragmentDefinition; LFragmentSpread; LInlineFragment;
   LVariableDefinition; LSchema; LScalar; LObject; LFieldDefinition; LArgumentDefinition; LInterface;
   LUnion; LEnum; LEnumValue; LInputObject; LInputFieldDefinition].
Definition loc_of_name (s : string) : option dir_loc :=
  find_first (fun l => String.eqb (loc_name l) s) all_locs.

Definition decode_location (j : json) : option dir_loc :=
  match j with
  | JStr s => loc_of_name s
  | JObj [(k, JNull)] => loc_of_name k
  | _ => None
  end.

(* ---- IntrospectionDirective ---- *)
Definition decode_directive_src (src : source) : option idirective :=
  if arity_ok src 5 then
    let* n := req decode_string src 0 "name" in
    let* d := opt decode_string src 1 "description" in
    let* rep := opt decode_bool src 2 "isRepeatable" in
    let* locs := req (decode_list decode_location) src 3 "locations" in
    let* args := req (decode_list (decode_input_value false)) src 4 "args" in
    Some (mkIDirective n d rep locs args)
  else None.
Definition decode_directive : json -> option idirective := of_source decode_directive_src.

(* ---- IntrospectionSchema / IntrospectionQuery ---- *)
Definition decode_schema_src (src : source) : option ischema :=
  if arity_ok src 6 then
    let* d := opt decode_string src 0 "description" in
    let* q := req decode_named_ref src 1 "queryType" in
    let* m := opt decode_named_ref src 2 "mutationType" in
    let* s := opt decode_named_ref src 3 "subscriptionType" in
    let* ts := req (decode_list decode_type) src 4 "types" in
    let* ds := req (decode_list decode_directive) src 5 "directives" in
    Some (mkISchema d q m s ts ds)
  else None.
Definition decode_schema : json -> option ischema := of_source decode_schema_src.

Definition decode_query_src (src : source) : option introspection_query :=
  if arity_ok src 1 then
    let* s := req decode_schema src 0 "__schema" in Some (mkIQuery s)
  else None.
(* parse_introspection_from_string / parse_introspection, after JSON reading *)
Definition decode_query : json -> option introspection_query := of_source decode_query_src.

(* ================================================================ serialisation *)
Definition enc_opt {A} (enc : A -> json) (o : option A) : json :=
  match o with Some x => enc x | None => JNull end.
Definition enc_list {A} (enc : A -> json) (l : list A) : json := JArr (map enc l).
Definition enc_value (v : json) : json := v.
Definition tagged (t : string) (members : list (string * json)) : json :=
  JObj (("kind", JStr t) :: members).

Definition named_ref_members (r : named_ref) : list (string * json) := [("name", JStr (ntr_name r))].
Definition encode_named_ref (r : named_ref) : json := JObj (named_ref_members r).

Fixpoint encode_out_ref (r : out_ref) : json :=
  match r with
  | OR_SCALAR n => tagged "SCALAR" (named_ref_members n)
  | OR_LIST o => tagged "LIST" [("ofType", match o with Some x => encode_out_ref x | None => JNull end)]
  | OR_NON_NULL o => tagged "NON_NULL" [("ofType", match o with Some x => encode_out_ref x | None => JNull end)]
  | OR_ENUM n => tagged "ENUM" (named_ref_members n)
  | OR_INPUT_OBJECT n => tagged "INPUT_OBJECT" (named_ref_members n)
  | OR_UNION n => tagged "UNION" (named_ref_members n)
  | OR_OBJECT n => tagged "OBJECT" (named_ref_members n)
  | OR_INTERFACE n => tagged "INTERFACE" (named_ref_members n)
  end.

Fixpoint encode_in_ref (r : in_ref) : json :=
  match r with
  | IR_LIST o => tagged "LIST" [("ofType", match o with Some x => encode_in_ref x | None => JNull end)]
  | IR_NON_NULL o => tagged "NON_NULL" [("ofType", match o with Some x => encode_in_ref x | None => JNull end)]
  | IR_SCALAR n => tagged "SCALAR" (named_ref_members n)
  | IR_ENUM n => tagged "ENUM" (named_ref_members n)
  | IR_INPUT_OBJECT n => tagged "INPUT_OBJECT" (named_ref_members n)
  end.

Definition scalar_type_members (x : scalar_type) : list (string * json) :=
  [("name", JStr (isc_name x)); ("description", enc_opt JStr (isc_description x));
   ("specifiedByURL", enc_opt JStr (isc_specified_by_url x))].

Definition input_value_members (x : iinput_value) : list (string * json) :=
  [("name", JStr (iiv_name x)); ("description", enc_opt JStr (iiv_description x));
   ("defaultValue", enc_opt enc_value (iiv_default_value x));
   ("isDeprecated", enc_opt JBool (iiv_is_deprecated x));
   ("deprecationReason", enc_opt JStr (iiv_deprecation_reason x));
   ("type", enc_opt encode_in_ref (iiv_type_ref x))].
Definition encode_input_value (x : iinput_value) : json := JObj (input_value_members x).

Definition field_members (x : ifield) : list (string * json) :=
  [("name", JStr (ifd_name x)); ("description", enc_opt JStr (ifd_description x));
   ("args", enc_list encode_input_value (ifd_args x));
   ("isDeprecated", enc_opt JBool (ifd_is_deprecated x));
   ("deprecationReason", enc_opt JStr (ifd_deprecation_reason x));
   ("type", encode_out_ref (ifd_type_ref x))].
Definition encode_field (x : ifield) : json := tagged "IntrospectionField" (field_members x).

Definition object_type_members (x : object_type) : list (string * json) :=
  [("name", JStr (iob_name x)); ("description", enc_opt JStr (iob_description x));
   ("fields", enc_list encode_field (iob_fields x));
   ("interfaces", enc_list encode_named_ref (iob_interfaces x))].

Definition interface_type_members (x : interface_type) : list (string * json) :=
  [("name", JStr (iif_name x)); ("description", enc_opt JStr (iif_description x));
   ("fields", enc_list encode_field (iif_fields x));
   ("interfaces", enc_opt (enc_list encode_named_ref) (iif_interfaces x));
   ("possibleTypes", enc_list encode_named_ref (iif_possible_types x))].

Definition union_type_members (x : union_type) : list (string * json) :=
  [("name", JStr (iun_name x)); ("description", enc_opt JStr (iun_description x));
   ("possibleTypes", enc_list encode_named_ref (iun_possible_types x))].

Definition enum_value_members (x : enum_value) : list (string * json) :=
  [("name", JStr (iev_name x)); ("description", enc_opt JStr (iev_description x));
   ("isDeprecated", enc_opt JBool (iev_is_deprecated x));
   ("deprecationReason", enc_opt JStr (iev_deprecation_reason x))].
Definition encode_enum_value (x : enum_value) : json := JObj (enum_value_members x).

Definition enum_type_members (x : enum_type) : list (string * json) :=
  [("name", JStr (ien_name x)); ("description", enc_opt JStr (ien_description x));
   ("enumValues", enc_list encode_enum_value (ien_enum_values x))].

Definition input_object_type_members (x : input_object_type) : list (string * json) :=
  [("name", JStr (iio_name x)); ("description", enc_opt JStr (iio_description x));
   ("inputFields", enc_list encode_input_value (iio_input_fields x))].

Definition encode_type (t : itype) : json :=
  match t with
  | T_SCALAR x => tagged "SCALAR" (scalar_type_members x)
  | T_OBJECT x => tagged "OBJECT" (object_type_members x)
  | T_INTERFACE x => tagged "INTERFACE" (interface_type_members x)
  | T_UNION x => tagged "UNION" (union_type_members x)
  | T_ENUM x => tagged "ENUM" (enum_type_members x)
  | T_INPUT_OBJECT x => tagged "INPUT_OBJECT" (input_object_type_members x)
  end.

Definition encode_input_type (t : iinput_type) : json :=
  match t with
  | IT_SCALAR x => tagged "SCALAR" (scalar_type_members x)
  | IT_ENUM x => tagged "ENUM" (enum_type_members x)
  | IT_INPUT_OBJECT x => tagged "INPUT_OBJECT" (input_object_type_members x)
  end.

Definition encode_output_type (t : ioutput_type) : json :=
  match t with
  | OT_SCALAR x => tagged "SCALAR" (scalar_type_members x)
  | OT_OBJECT x => tagged "OBJECT" (object_type_members x)
  | OT_INTERFACE x => tagged "INTERFACE" (interface_type_members x)
  | OT_UNION x => tagged "UNION" (union_type_members x)
  | OT_ENUM x => tagged "ENUM" (enum_type_members x)
  end.

Definition encode_location (l : dir_loc) : json := JStr (loc_name l).

Definition directive_members (x : idirective) : list (string * json) :=
  [("name", JStr (idr_name x)); ("description", enc_opt JStr (idr_description x));
   ("isRepeatable", enc_opt JBool (idr_is_repeatable x));
   ("locations", enc_list encode_location (idr_locations x));
   ("args", enc_list encode_input_value (idr_args x))].
Definition encode_directive (x : idirective) : json := JObj (directive_members x).

Definition schema_members (x : ischema) : list (string * json) :=
  [("description", enc_opt JStr (isch_description x));
   ("queryType", encode_named_ref (isch_query_type x));
   ("mutationType", enc_opt encode_named_ref (isch_mutation_type x));
   ("subscriptionType", enc_opt encode_named_ref (isch_subscription_type x));
   ("types", enc_list encode_type (isch_types x));
   ("directives", enc_list encode_directive (isch_directives x))].
Definition encode_schema (x : ischema) : json := JObj (schema_members x).

(* serde_json::to_value(&q) up to member order *)
Definition encode_query (q : introspection_query) : json := JObj [("__schema", encode_schema (iq_schema q))].

(* ================================================================ normal structures *)
(* A default value held by a parsed structure is never Some(Value::Null) (null reads as None) and,
   being a serde_json::Value, has no object with a repeated key.  Structures built by hand can
   violate this in the model (json trees are used for Value); serialising such a structure and
   reading it back does not give the same structure (in Rust, too, Some(Value::Null) comes back as
   None). *)
Definition value_normal (o : option json) : bool :=
  match o with
  | None => true
  | Some JNull => false
  | Some v => no_dup_keys v
  end.
Definition input_value_normal (x : iinput_value) : bool := value_normal (iiv_default_value x).
Definition field_normal (x : ifield) : bool := forallb input_value_normal (ifd_args x).
Definition type_normal (t : itype) : bool :=
  match t with
  | T_OBJECT x => forallb field_normal (iob_fields x)
  | T_INTERFACE x => forallb field_normal (iif_fields x)
  | T_INPUT_OBJECT x => forallb input_value_normal (iio_input_fields x)
  | _ => true
  end.
Definition directive_normal (x : idirective) : bool := forallb input_value_normal (idr_args x).
Definition query_normal (q : introspection_query) : bool :=
  forallb type_normal (isch_types (iq_schema q)) &&
  forallb directive_normal (isch_directives (iq_schema q)).

(* Merge.v — mirror of src/validation/rules/overlapping_fields_can_be_merged.rs.
   All twelve functions of the algorithm, with the rule's state: the fragment-pair memo
   (PairSet), the per-selection-set list of visited fragment names (shared by every nested
   comparison, as in the code) and the set of field pairs (with the mutually-exclusive flag)
   whose sub-selections have already been compared for the current selection set (the memo
   that bounds the work).  Field nodes are identified by their source position (the
   code compares node addresses; the parser gives every node its own position).
   Recursion through fragments and sub-selections is on fuel; None = out of fuel. *)
From GT Require Export Rules.

Record astdef := mkAD { ad_parent : option type_def; ad_field : selection; ad_def : option field_def }.
Definition fmap := list (name * list astdef).          (* OrderedMap: insertion order *)

Definition sel_pos (x : selection) : pos :=
  match x with SField p _ _ _ _ _ _ | SSpread p _ _ | SInline p _ _ _ _ => p end.
Definition sel_name (x : selection) : name :=
  match x with SField _ _ n _ _ _ _ => n | SSpread _ n _ => n | SInline _ _ _ _ _ => "" end.
Definition sel_args (x : selection) : list argument :=
  match x with SField _ _ _ a _ _ _ => a | _ => [] end.
Definition sel_sels (x : selection) : list selection :=
  match x with SField _ _ _ _ _ _ ss | SInline _ _ _ _ ss => ss | _ => [] end.

Definition fm_push (key : name) (a : astdef) (m : fmap) : fmap :=
  match al_get key m with
  | Some l => al_set key (l ++ [a]) m
  | None => m ++ [(key, [a])]
  end.

Fixpoint collect_ff_sel (s : sdocument) (parent : option type_def) (x : selection)
         (acc : fmap * list name) : fmap * list name :=
  match x with
  | SField _ _ n _ _ _ _ =>
      (fm_push (response_key x) (mkAD parent x (opt_bind parent (fun t => field_by_name t n))) (fst acc), snd acc)
  | SSpread _ n _ => (fst acc, if mem_name n (snd acc) then snd acc else snd acc ++ [n])
  | SInline _ tc _ _ ss =>
      let ft := match opt_bind tc (type_by_name s) with Some t => Some t | None => parent end in
      fold_left (fun a y => collect_ff_sel s ft y a) ss acc
  end.

Definition get_fields_and_fragment_names (s : sdocument) (parent : option type_def) (sels : list selection)
  : fmap * list name :=
  fold_left (fun a y => collect_ff_sel s parent y a) sels ([], []).

Definition get_referenced_fields_and_fragment_names (s : sdocument) (f : fragment_def) : fmap * list name :=
  get_fields_and_fragment_names s (type_by_name s (fr_tc f)) (fr_sels f).

Definition is_same_arguments (a1 a2 : list argument) : bool :=
  Nat.eqb (List.length a1) (List.length a2) &&
  forallb (fun x : argument =>
             match find_first (fun y : argument => name_eqb (fst x) (fst y)) a2 with
             | Some y => value_compare (snd x) (snd y)
             | None => false
             end) a1.

Definition leaf_named (s : sdocument) (n : name) : bool :=
  match type_by_name s n with Some t => td_is_leaf t | None => false end.

Fixpoint is_type_conflict (s : sdocument) (t1 t2 : ty) : bool :=
  match t1, t2 with
  | TList a, TList b => is_type_conflict s a b
  | TList _, _ => true
  | _, TList _ => true
  | TNonNull a, TNonNull b => is_type_conflict s a b
  | TNonNull _, _ => true
  | _, TNonNull _ => true
  | TNamed a, TNamed b => if leaf_named s a || leaf_named s b then negb (name_eqb a b) else false
  end.

(* PairSet *)
Definition pairset := list ((name * name) * bool).
Definition pair_eqb (x y : name * name) : bool := name_eqb (fst x) (fst y) && name_eqb (snd x) (snd y).
Definition ps_contains (m : pairset) (a b : name) (mutex : bool) : bool :=
  match as_get pair_eqb (a, b) m with
  | Some result => if mutex then true else negb result
  | None => false
  end.
Definition ps_insert (m : pairset) (a b : name) (mutex : bool) : pairset :=
  as_set pair_eqb (b, a) mutex (as_set pair_eqb (a, b) mutex m).

(* ms_fields: the pairs of fields (with the mutually-exclusive flag) already compared for the
   current selection set *)
Record mstate := mkMS { ms_compared : pairset; ms_visited : list name; ms_being : list (pos * pos * bool) }.

Definition conflict := (list pos * list pos)%type.

Inductive mcall :=
| CFindConflict (a b : astdef) (mutex : bool)
| CBetweenSub (mutex : bool) (pn1 : option name) (sels1 : list selection) (pn2 : option name) (sels2 : list selection)
| CFieldsAndFragment (fm : fmap) (frag : name) (mutex : bool)
| CBetweenFragments (f1 f2 : name) (mutex : bool)
| CBetween (mutex : bool) (fm1 fm2 : fmap)
| CFragmentLoop (fm : fmap) (frags : list name) (mutex : bool)   (* one collection of fields against a list of fragments, with its own visited list *)
| CWithin (fm : fmap)
| CWithinSelectionSet (parent : option type_def) (sels : list selection).

Definition mres := option (mstate * list conflict).

(* run a list of calls in sequence, concatenating the conflicts *)
Definition seq_calls (run : mcall -> mstate -> mres) : list mcall -> mstate -> mres :=
  fix go (l : list mcall) (st : mstate) : mres :=
    match l with
    | [] => Some (st, [])
    | c :: r =>
        match run c st with
        | Some (st1, cs1) =>
            match go r st1 with
            | Some (st2, cs2) => Some (st2, cs1 ++ cs2)
            | None => None
            end
        | None => None
        end
    end.

Definition pairs_within {A} (l : list A) : list (A * A) :=
  (fix go (l : list A) : list (A * A) :=
     match l with [] => [] | x :: r => map (fun y => (x, y)) r ++ go r end) l.

Fixpoint mrun (fuel : nat) (s : sdocument) (d : document) (c : mcall) (st : mstate) {struct fuel} : mres :=
  match fuel with
  | O => None
  | S fuel' =>
      let run := mrun fuel' s d in
      match c with
      | CFindConflict first second parents_mutex =>
          let f1 := ad_field first in
          let f2 := ad_field second in
          let mutex := parents_mutex ||
                       (negb (name_eqb (otd_name (ad_parent first)) (otd_name (ad_parent second))) &&
                        otd_is_object (ad_parent first) && otd_is_object (ad_parent second)) in
          let simple := ([sel_pos f1], [sel_pos f2]) in
          if negb mutex && negb (name_eqb (sel_name f1) (sel_name f2)) then Some (st, [simple])
          else if negb mutex && negb (is_same_arguments (sel_args f1) (sel_args f2)) then Some (st, [simple])
          else
            let t1 := opt_map fd_type (ad_def first) in
            let t2 := opt_map fd_type (ad_def second) in
            if match t1, t2 with Some a, Some b => is_type_conflict s a b | _, _ => false end
            then Some (st, [simple])
            else if negb (is_nil (sel_sels f1)) && negb (is_nil (sel_sels f2)) then
              if existsb (fun pq : pos * pos * bool =>
                            pos_eqb (fst (fst pq)) (sel_pos f1) && pos_eqb (snd (fst pq)) (sel_pos f2) &&
                            Bool.eqb (snd pq) mutex) (ms_being st)
              then Some (st, [])
              else
                let st1 := mkMS (ms_compared st) (ms_visited st) (ms_being st ++ [(sel_pos f1, sel_pos f2, mutex)]) in
                match run (CBetweenSub mutex (opt_map inner_type t1) (sel_sels f1) (opt_map inner_type t2) (sel_sels f2)) st1 with
                | Some (st2, cs) =>
                    if is_nil cs then Some (st2, [])
                    else Some (st2, [(sel_pos f1 :: flat_map fst cs, sel_pos f1 :: flat_map fst cs)])
                | None => None
                end
            else Some (st, [])
      | CBetweenSub mutex pn1 sels1 pn2 sels2 =>
          let '(fm1, fr1) := get_fields_and_fragment_names s (opt_bind pn1 (type_by_name s)) sels1 in
          let '(fm2, fr2) := get_fields_and_fragment_names s (opt_bind pn2 (type_by_name s)) sels2 in
          seq_calls run
            ([CBetween mutex fm1 fm2; CFragmentLoop fm1 fr2 mutex; CFragmentLoop fm2 fr1 mutex] ++
             flat_map (fun a => map (fun b => CBetweenFragments a b mutex) fr2) fr1) st
      | CFragmentLoop fm frags mutex =>
          (* a fresh list of compared fragments for this collection of fields *)
          let saved := ms_visited st in
          match seq_calls run (map (fun f => CFieldsAndFragment fm f mutex) frags)
                          (mkMS (ms_compared st) [] (ms_being st)) with
          | Some (st1, cs) => Some (mkMS (ms_compared st1) saved (ms_being st1), cs)
          | None => None
          end
      | CFieldsAndFragment fm fname mutex =>
          match known_fragment d fname with
          | None => Some (st, [])
          | Some fragment =>
              let '(fm2, fr2) := get_referenced_fields_and_fragment_names s fragment in
              if mem_name fname fr2 then Some (st, [])
              else
                match run (CBetween mutex fm fm2) st with
                | Some (st1, cs1) =>
                    (fix loop (l : list name) (st : mstate) (acc : list conflict) : mres :=
                       match l with
                       | [] => Some (st, acc)
                       | f2 :: r =>
                           if mem_name f2 (ms_visited st) then loop r st acc
                           else
                             match run (CFieldsAndFragment fm f2 mutex)
                                       (mkMS (ms_compared st) (ms_visited st ++ [f2]) (ms_being st)) with
                             | Some (st2, cs2) => loop r st2 (acc ++ cs2)
                             | None => None
                             end
                       end) fr2 st1 cs1
                | None => None
                end
          end
      | CBetweenFragments n1 n2 mutex =>
          if name_eqb n1 n2 then Some (st, [])
          else if ps_contains (ms_compared st) n1 n2 mutex then Some (st, [])
          else
            let st1 := mkMS (ps_insert (ms_compared st) n1 n2 mutex) (ms_visited st) (ms_being st) in
            match known_fragment d n1, known_fragment d n2 with
            | Some fa, Some fb =>
                let '(fm1, fr1) := get_referenced_fields_and_fragment_names s fa in
                let '(fm2, fr2) := get_referenced_fields_and_fragment_names s fb in
                seq_calls run
                  ([CBetween mutex fm1 fm2] ++
                   map (fun x => CBetweenFragments n1 x mutex) fr2 ++
                   map (fun x => CBetweenFragments x n2 mutex) fr1) st1
            | _, _ => Some (st1, [])
            end
      | CBetween mutex fm1 fm2 =>
          seq_calls run
            (flat_map (fun kf : name * list astdef =>
                         match al_get (fst kf) fm2 with
                         | Some fields2 =>
                             flat_map (fun a => map (fun b => CFindConflict a b mutex) fields2) (snd kf)
                         | None => []
                         end) fm1) st
      | CWithin fm =>
          seq_calls run
            (flat_map (fun kf : name * list astdef =>
                         map (fun ab : astdef * astdef => CFindConflict (fst ab) (snd ab) false)
                             (pairs_within (snd kf))) fm) st
      | CWithinSelectionSet parent sels =>
          let '(fm, frs) := get_fields_and_fragment_names s parent sels in
          (* (A) within the collection; then, sharing ONE fresh visited list, for every fragment:
             (B) the fields against it, (C) it against every later fragment *)
          match run (CWithin fm) st with
          | Some (st0, cs0) =>
              let saved := ms_visited st0 in
              match seq_calls run
                      ((fix go (l : list name) : list mcall :=
                          match l with
                          | [] => []
                          | f1 :: r => CFieldsAndFragment fm f1 false :: map (fun f2 => CBetweenFragments f1 f2 false) r ++ go r
                          end) frs)
                      (mkMS (ms_compared st0) [] (ms_being st0)) with
              | Some (st1, cs1) => Some (mkMS (ms_compared st1) saved (ms_being st1), cs0 ++ cs1)
              | None => None
              end
          | None => None
          end
      end
  end.

(* a fuel that is ample for every document the harness generates; sufficiency is a theorem only
   for the cases named in DESIGN.md (C03/C05) *)
Fixpoint count_fields (x : selection) : nat :=
  match x with
  | SField _ _ _ _ _ _ ss => S (fold_left (fun n y => n + count_fields y) ss 0)
  | SSpread _ _ _ => 0
  | SInline _ _ _ _ ss => fold_left (fun n y => n + count_fields y) ss 0
  end.
Definition doc_fields (d : document) : nat :=
  fold_left (fun n x => n + match x with
                            | DOp o => fold_left (fun n y => n + count_fields y) (o_sels o) 0
                            | DFrag f => fold_left (fun n y => n + count_fields y) (fr_sels f) 0
                            end) d 0.
(* the quadratic part, (ng+5)*(2*nf^2) + 2*ng^2 + ng + 4, built with the tail-recursive addition
   and multiplication of the standard library (Nat.tail_add_spec / Nat.tail_mul_spec): the
   extracted code rebuilds this unary number for every selection set *)
Definition merge_fuel_extra (nf ng : nat) : nat :=
  Nat.tail_add (Nat.tail_mul (ng + 5) (Nat.tail_mul 2 (Nat.tail_mul nf nf))) (2 * (ng * ng) + ng + 4).
Definition merge_fuel (d : document) : nat :=
  let nf := doc_fields d in
  let ng := List.length (fragments_of d) in
  4 * (nf + 2) * (4 + 3 * ng) + 16 + merge_fuel_extra nf ng.

Record ofm_state := mkOfm { ofm_compared : pairset; ofm_res : rule_result }.

(* the step with an explicit fuel; [ofm_step] supplies [merge_fuel d].  [ofm_step s d] is a partial
   application, so the extracted code builds the (large, unary) fuel once per run of the rule and
   not once per selection set *)
Definition ofm_step_with (fuel : nat) (s : sdocument) (d : document) (st : ofm_state) (e : event) (c : ctx) : ofm_state :=
  match e with
  | Enter (NSelectionSet _ sels) =>
      match mrun fuel s d (CWithinSelectionSet (current_parent_type c) sels)
                 (mkMS (ofm_compared st) [] []) with
      | Some (ms, cs) =>
          mkOfm (ms_compared ms)
                (mkRes (r_errors (ofm_res st) ++
                        map (fun cf : conflict => err R_OverlappingFieldsCanBeMerged (fst cf ++ snd cf)) cs)
                       (r_oof (ofm_res st)))
      | None => mkOfm (ofm_compared st) (mkRes (r_errors (ofm_res st)) true)
      end
  | _ => st
  end.

Definition ofm_step (s : sdocument) (d : document) : ofm_state -> event -> ctx -> ofm_state :=
  ofm_step_with (merge_fuel d) s d.

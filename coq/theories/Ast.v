(* Ast.v — executable-document AST, mirroring graphql_parser::query (the `'static, String`
   instantiation used by graphql-tools: src/lib.rs static_graphql). *)
From GT Require Export Base.

Inductive ty : Type :=
| TNamed (n : name)
| TList (t : ty)
| TNonNull (t : ty).

(* Value: Int is an i64 in the parser (here unbounded Z), Float is carried as its IEEE-754 bit
   pattern, String as its bytes; Object is a BTreeMap, i.e. a key-sorted, key-unique list. *)
Inductive value : Type :=
| VVar (n : name)
| VInt (z : Z)
| VFloat (bits : N)
| VString (s : string)
| VBool (b : bool)
| VNull
| VEnum (n : name)
| VList (l : list value)
| VObject (l : list (name * value)).

Definition argument := (name * value)%type.

Record directive := mkDirective {
  d_pos : pos; d_name : name; d_args : list argument }.

Definition span := (pos * pos)%type.

(* Selection sets are stored as (span, items) wherever they occur. *)
Inductive selection : Type :=
| SField (p : pos) (alias : option name) (n : name) (args : list argument)
         (dirs : list directive) (sp : span) (sels : list selection)
| SSpread (p : pos) (n : name) (dirs : list directive)
| SInline (p : pos) (tc : option name) (dirs : list directive) (sp : span) (sels : list selection).

Record vardef := mkVardef {
  v_pos : pos; v_name : name; v_type : ty; v_default : option value }.

Inductive op_kind := OpSelSet | OpQuery | OpMutation | OpSubscription.

(* OperationDefinition: for OpSelSet (the bare `{ ... }` short-hand) the parser stores only the
   selection set; the accessors below mirror ext.rs OperationDefinitionExtension / AstNodeWithName. *)
Record operation := mkOperation {
  o_kind : op_kind; o_pos : pos; o_name : option name; o_vars : list vardef;
  o_dirs : list directive; o_span : span; o_sels : list selection }.

Record fragment_def := mkFragment {
  fr_pos : pos; fr_name : name; fr_tc : name; fr_dirs : list directive;
  fr_span : span; fr_sels : list selection }.

Inductive definition := DOp (o : operation) | DFrag (f : fragment_def).

Definition document := list definition.

Definition op_variable_definitions (o : operation) : list vardef :=
  match o_kind o with OpSelSet => [] | _ => o_vars o end.
Definition op_directives (o : operation) : list directive :=
  match o_kind o with OpSelSet => [] | _ => o_dirs o end.
Definition op_node_name (o : operation) : option name :=
  match o_kind o with OpSelSet => None | _ => o_name o end.

Definition fragments_of (d : document) : list fragment_def :=
  flat_map (fun x => match x with DFrag f => [f] | _ => [] end) d.
Definition operations_of (d : document) : list operation :=
  flat_map (fun x => match x with DOp o => [o] | _ => [] end) d.

(* HashMap::from_iter over (name, fragment): a later definition with the same name replaces
   an earlier one. *)
Fixpoint known_fragment (d : document) (n : name) : option fragment_def :=
  match d with
  | [] => None
  | DFrag f :: r =>
      match known_fragment r n with
      | Some g => Some g
      | None => if name_eqb n (fr_name f) then Some f else None
      end
  | _ :: r => known_fragment r n
  end.

(* keys of that map in first-insertion order (used where the code iterates the map; the order
   of a HashMap iteration is unspecified, see C12_order_insensitive). *)
Definition known_fragment_names (d : document) : list name :=
  rev (dedup_names (rev (map fr_name (fragments_of d)))).

(* ---- decidable equalities (derive(PartialEq) on the parser types) ---- *)
Fixpoint ty_eqb (a b : ty) : bool :=
  match a, b with
  | TNamed x, TNamed y => name_eqb x y
  | TList x, TList y => ty_eqb x y
  | TNonNull x, TNonNull y => ty_eqb x y
  | _, _ => false
  end.

(* ---- TypeExtension (ext.rs) ---- *)
Fixpoint inner_type (t : ty) : name :=
  match t with TNamed n => n | TList c => inner_type c | TNonNull c => inner_type c end.
Definition of_type (t : ty) : ty :=
  match t with TList c => c | TNonNull c => c | TNamed _ => t end.
Definition is_non_null (t : ty) : bool := match t with TNonNull _ => true | _ => false end.
Definition is_list_type (t : ty) : bool := match t with TList _ => true | _ => false end.
Definition is_named_type (t : ty) : bool := match t with TNamed _ => true | _ => false end.

Fixpoint ty_size (t : ty) : nat :=
  match t with TNamed _ => 1 | TList c => S (ty_size c) | TNonNull c => S (ty_size c) end.

(* the types the GraphQL grammar can express: no non-null directly under non-null ("T!!") *)
Fixpoint ty_proper (t : ty) : bool :=
  match t with
  | TNamed _ => true
  | TList i => ty_proper i
  | TNonNull (TNonNull _) => false
  | TNonNull i => ty_proper i
  end.

(* C11 — operation-level rules fire exactly when the spec condition is violated. *)
From GT Require Import Visitor Validate.
From GTS Require Import Annot WfSchema SpecRules SpecValid.
From GTP Require Import C11_proofs.

Theorem C11_unique_operation_names : forall s d,
  (run_alone R_UniqueOperationNames s d <> [] <-> violated R_UniqueOperationNames s d = true).
Proof. exact unique_operation_names_iff. Qed.
Print Assumptions C11_unique_operation_names.

Theorem C11_lone_anonymous_operation : forall s d,
  (run_alone R_LoneAnonymousOperation s d <> [] <-> violated R_LoneAnonymousOperation s d = true).
Proof. exact lone_anonymous_iff. Qed.
Print Assumptions C11_lone_anonymous_operation.

(* fragments are told apart by name (otherwise UniqueFragmentNames rejects the document) *)
Theorem C11_single_field_subscriptions : forall s d, wf_schema s = true -> distinct_fragments d = true ->
  (run_alone R_SingleFieldSubscriptions s d <> [] <-> violated R_SingleFieldSubscriptions s d = true).
Proof. exact single_field_subscriptions_iff. Qed.
Print Assumptions C11_single_field_subscriptions.

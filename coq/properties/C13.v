(* C13 — a plan's result is the in-order union of its rules' results; the default plan is
   complete.  Statements only. *)
From GT Require Import Visitor Validate Sexp.
From GTS Require Import SpecRules.
From GTP Require Import PlanFacts RuleFacts.
From GTP Require Import C13_proofs.

(* validate, for every plan (any length, order, repetitions), every schema and document:
   exactly the errors each rule returns when run alone on the same input, in plan order.
   The three side conditions are the model's explicit failure outcomes: the empty plan (no walk),
   the query_type() panic, and fuel exhaustion (excluded for well-formed input by C03). *)
Theorem C13_plan_union : forall s d plan,
  plan <> [] -> document_panics s d = false ->
  (forall r, In r plan -> r_oof (snd (run_rule r s d ctx0)) = false) ->
  validate s d plan = Ok (flat_map (fun r => run_alone r s d) plan).
Proof. exact validate_union. Qed.
Print Assumptions C13_plan_union.

(* the complete case analysis of validate *)
Theorem C13_validate_cases : forall s d plan,
  validate s d plan =
  if is_nil plan then Ok []
  else if document_panics s d then Panic
  else if existsb (fun r => r_oof (snd (run_rule r s d ctx0))) plan then OutOfFuel
  else Ok (flat_map (fun r => run_alone r s d) plan).
Proof. exact validate_eq. Qed.
Print Assumptions C13_validate_cases.

(* every rule leaves the shared context exactly as it found it (so the next rule of the plan
   starts from the same, initially empty, context) *)
Theorem C13_rule_restores_context : forall r s d c, fst (run_rule r s d c) = c.
Proof. exact run_rule_ctx. Qed.
Print Assumptions C13_rule_restores_context.

(* the default plan holds each of the 24 implemented rules exactly once *)
Theorem C13_default_plan : NoDup default_plan /\ (forall r : rule_id, In r default_plan) /\ List.length default_plan = 24.
Proof. split; [exact default_plan_nodup|split; [exact default_plan_complete|reflexivity]]. Qed.
Print Assumptions C13_default_plan.

(* additions to C13: codes and locations of the errors of every rule *)
Theorem C13_codes : forall r s d e, In e (run_alone r s d) -> e_rule e = r.
Proof. exact run_alone_codes. Qed.
Print Assumptions C13_codes.

(* each location of an error is the position of a node of the validated document *)
Theorem C13_locations : forall r s d e p, r <> R_OverlappingFieldsCanBeMerged ->
  In e (run_alone r s d) -> In p (e_locs e) -> In p (doc_positions d).
Proof. exact run_alone_locations. Qed.
Print Assumptions C13_locations.

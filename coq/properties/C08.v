(* C08 — literals are accepted exactly when coercible to the expected input type. *)
From GT Require Import Visitor Validate.
From GTS Require Import Annot WfSchema SpecRules SpecValues SpecValid.
From GTP Require Import C08_proofs.

(* the decision core, for ALL expected types and literals (any nesting depth): walking a literal
   with expected type t produces no error iff the literal is coercible to t *)
Theorem C08_core : forall s t v c, wf_schema s = true ->
  is_input_or_unknown s (inner_type t) = true ->
  (value_errors s (Some t) v = [] <-> coercibleb s v t = true).
Proof. exact value_errors_coercible. Qed.
Print Assumptions C08_core.

(* C08 — literals are accepted exactly when coercible to the expected input type. *)
From GT Require Import Visitor Validate.
From GTS Require Import Annot WfSchema SpecRules SpecValues SpecValid.
From GTP Require Import C08_proofs.

(* the decision core, for ALL expected types and ALL literals (any wrapper / nesting depth):
   walking literal v where type t is expected produces no error iff v is coercible to t.
   [value_errors s (Some t) v] = the errors of the rule's handler on the walk of v alone.
   [ty_proper t]: t is a type the grammar can express (no "T!!"); without it the statement is
   false (C08_core_counterexample: "[Int]!!" = TNonNull (TNonNull (TList (TNamed "Int"))) and the
   literal []: the model strips one "!" before testing for a list type, the specification all). *)
Theorem C08_core : forall s t v, wf_schema s = true -> ty_proper t = true ->
  is_input_or_unknown s (inner_type t) = true ->
  (value_errors s (Some t) v = [] <-> coercibleb s v t = true).
Proof. exact value_errors_coercible. Qed.
Print Assumptions C08_core.

(* the rule, run alone on a document whose variable types are expressible in the grammar *)
Theorem C08_values_of_correct_type : forall s d, wf_schema s = true -> doc_types_proper d = true ->
  rule_in_scope R_ValuesOfCorrectType s d = true ->
  (run_alone R_ValuesOfCorrectType s d <> [] <-> violated R_ValuesOfCorrectType s d = true).
Proof. exact values_of_correct_type_iff. Qed.
Print Assumptions C08_values_of_correct_type.

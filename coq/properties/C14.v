(* placeholder until the composition theorems are in place *)
From GT Require Import Validate.
Example C14_pending_c14 : True. Proof. exact I. Qed.
Print Assumptions C14_pending_c14.

(* C14 — the verdict is invariant under meaning-preserving rewrites of document and schema.
   Theorems: invariance of every rule's SPECIFICATION predicate under permutation of the
   top-level definitions of the document and under permutation of the schema's definitions,
   and, through the per-rule equivalences (C04, C06–C11), of the MODEL's per-rule verdicts. *)
From GT Require Import Visitor Validate.
From Coq Require Import Permutation.
From GTS Require Import Annot WfSchema SpecRules SpecValid.
From GTP Require Import C14_proofs.

(* permuting the definitions of the document does not change any rule's specification verdict *)
Theorem C14_spec_perm_definitions : forall r s d d',
  Permutation d d' -> distinct_fragments d = true ->
  violated r s d = violated r s d'.
Proof. exact violated_perm_definitions. Qed.
Print Assumptions C14_spec_perm_definitions.

(* hence the model's rules (all but field merging, whose equivalence is partial) report on d iff
   they report on the permuted document, on well-formed input where the rule is in scope *)
Theorem C14_model_perm_definitions : forall r s d d',
  r <> R_OverlappingFieldsCanBeMerged ->
  wf_schema s = true -> doc_types_proper d = true -> defaults_const d = true ->
  distinct_fragments d = true -> distinct_operations d = true -> rule_in_scope r s d = true ->
  Permutation d d' ->
  (run_alone r s d = [] <-> run_alone r s d' = []).
Proof. exact run_alone_perm_definitions. Qed.
Print Assumptions C14_model_perm_definitions.

(* permuting the definitions of a well-formed schema does not change any rule's specification
   verdict either *)
Theorem C14_spec_perm_schema : forall r s s' d,
  Permutation s s' -> wf_schema s = true ->
  violated r s d = violated r s' d.
Proof. exact violated_perm_schema. Qed.
Print Assumptions C14_spec_perm_schema.

(* C14 — the verdict is invariant under meaning-preserving rewrites of document and schema.
   Theorems: invariance of every rule's SPECIFICATION predicate under permutation of the
   top-level definitions of the document and under permutation of the schema's definitions,
   and, through the per-rule equivalences (C04, C06–C11), of the MODEL's per-rule verdicts. *)
From GT Require Import Visitor Validate.
From Coq Require Import Permutation.
From GTS Require Import Annot WfSchema SpecRules SpecValid.
From GTP Require Import C14_proofs C14_more_proofs C14_schema_proofs C14_merge_model_proofs.

(* permuting the definitions of the document does not change any rule's specification verdict *)
Theorem C14_spec_perm_definitions : forall r s d d',
  Permutation d d' -> distinct_fragments d = true ->
  violated r s d = violated r s d'.
Proof. exact violated_perm_definitions. Qed.
Print Assumptions C14_spec_perm_definitions.

(* hence the model's rules (all but field merging, whose equivalence is partial) report on d iff
   they report on the permuted document, on well-formed input where the rule is in scope *)
Theorem C14_model_perm_definitions : forall r s d d',
  r <> R_OverlappingFieldsCanBeMerged ->
  wf_schema s = true -> doc_types_proper d = true -> defaults_const d = true ->
  distinct_fragments d = true -> rule_in_scope r s d = true ->
  Permutation d d' ->
  (run_alone r s d = [] <-> run_alone r s d' = []).
Proof. exact run_alone_perm_definitions. Qed.
Print Assumptions C14_model_perm_definitions.

(* permuting the definitions of a well-formed schema does not change any rule's specification
   verdict either *)
Theorem C14_spec_perm_schema : forall r s s' d,
  Permutation s s' -> wf_schema s = true ->
  violated r s d = violated r s' d.
Proof. exact violated_perm_schema. Qed.
Print Assumptions C14_spec_perm_schema.

(* C14_additions.v — to be appended to properties/C14.v.  Needs, next to the imports of C14.v:
From GTP Require Import C14_more_proofs C14_schema_proofs C14_merge_model_proofs.
   (_CoqProject: proofs/C14_more_proofs.v, proofs/C14_schema_proofs.v, in this order, right after
    proofs/C14_proofs.v; proofs/C14_merge_model_proofs.v after proofs/C05_proofs.v) *)

(* ---- (c) arguments: [perm_args_doc d d'] = d' is d with the argument list of every field and of
   every directive replaced by a permutation of it ([rdoc (fun n => n) None true false false], C14_more_proofs.v) *)
Theorem C14_spec_perm_arguments : forall r s d d',
  perm_args_doc d d' -> violated r s d = violated r s d'.
Proof. exact violated_perm_arguments. Qed.
Print Assumptions C14_spec_perm_arguments.

Theorem C14_model_perm_arguments : forall r s d d',
  r <> R_OverlappingFieldsCanBeMerged ->
  wf_schema s = true -> doc_types_proper d = true -> defaults_const d = true ->
  distinct_fragments d = true -> rule_in_scope r s d = true ->
  perm_args_doc d d' ->
  (run_alone r s d = [] <-> run_alone r s d' = []).
Proof. exact run_alone_perm_arguments. Qed.
Print Assumptions C14_model_perm_arguments.

(* ---- (c) variable definitions: [perm_vars_doc d d'] = the variable definitions of every operation
   permuted.  With two definitions of one variable name the usage check reads the first, so the
   variable-position rule needs "variable names unique" (which is rule UniqueVariableNames). *)
Theorem C14_spec_perm_variable_definitions : forall r s d d',
  perm_vars_doc d d' ->
  (r = R_VariablesInAllowedPosition -> violated R_UniqueVariableNames s d = false) ->
  violated r s d = violated r s d'.
Proof. exact violated_perm_variable_definitions. Qed.
Print Assumptions C14_spec_perm_variable_definitions.

Theorem C14_model_perm_variable_definitions : forall r s d d',
  r <> R_OverlappingFieldsCanBeMerged ->
  wf_schema s = true -> doc_types_proper d = true -> defaults_const d = true ->
  distinct_fragments d = true -> rule_in_scope r s d = true ->
  perm_vars_doc d d' ->
  (r = R_VariablesInAllowedPosition -> violated R_UniqueVariableNames s d = false) ->
  (run_alone r s d = [] <-> run_alone r s d' = []).
Proof. exact run_alone_perm_variable_definitions. Qed.
Print Assumptions C14_model_perm_variable_definitions.

(* the hypothesis is needed, for the specification and for the model alike *)
Theorem C14_perm_vars_needs_unique_variable_names :
  wf_schema cxv_schema = true /\ perm_vars_doc cxv_d1 cxv_d2 /\
  violated R_UniqueVariableNames cxv_schema cxv_d1 = true /\
  violated R_VariablesInAllowedPosition cxv_schema cxv_d1 = false /\
  violated R_VariablesInAllowedPosition cxv_schema cxv_d2 = true /\
  run_alone R_VariablesInAllowedPosition cxv_schema cxv_d1 = [] /\
  run_alone R_VariablesInAllowedPosition cxv_schema cxv_d2 <> [].
Proof. exact perm_vars_needs_unique_variable_names. Qed.
Print Assumptions C14_perm_vars_needs_unique_variable_names.

(* ---- (b) selections: [perm_sels_doc d d'] = the selections of every selection set (of operations,
   fragment definitions, fields, inline fragments) permuted, recursively.  Holds for every rule,
   field merging and single-field subscriptions included. *)
Theorem C14_spec_perm_selections : forall r s d d',
  perm_sels_doc d d' -> violated r s d = violated r s d'.
Proof. exact violated_perm_selections. Qed.
Print Assumptions C14_spec_perm_selections.

Theorem C14_model_perm_selections : forall r s d d',
  r <> R_OverlappingFieldsCanBeMerged ->
  wf_schema s = true -> doc_types_proper d = true -> defaults_const d = true ->
  distinct_fragments d = true -> rule_in_scope r s d = true ->
  perm_sels_doc d d' ->
  (run_alone r s d = [] <-> run_alone r s d' = []).
Proof. exact run_alone_perm_selections. Qed.
Print Assumptions C14_model_perm_selections.

(* ---- all three rewrites at once *)
Theorem C14_spec_perm_lists : forall r s d d',
  perm_lists_doc d d' ->
  (r = R_VariablesInAllowedPosition -> violated R_UniqueVariableNames s d = false) ->
  violated r s d = violated r s d'.
Proof. exact violated_perm_lists. Qed.
Print Assumptions C14_spec_perm_lists.

(* ---- (d) operations renamed: [rename_ops_doc fo d d'] = d' is d with every operation name n replaced
   by fo n (nothing else changes; d' = map (rename_def fo) d, lemma rename_ops_doc_map), fo injective
   on the operation names of d *)
Theorem C14_spec_rename_operations : forall fo r s d d',
  rename_ops_doc fo d d' -> injective_on fo (named_operation_names d) ->
  violated r s d = violated r s d'.
Proof. exact violated_rename_operations. Qed.
Print Assumptions C14_spec_rename_operations.

Theorem C14_model_rename_operations : forall fo r s d d',
  r <> R_OverlappingFieldsCanBeMerged ->
  wf_schema s = true -> doc_types_proper d = true -> defaults_const d = true ->
  distinct_fragments d = true -> rule_in_scope r s d = true ->
  rename_ops_doc fo d d' -> injective_on fo (named_operation_names d) ->
  (run_alone r s d = [] <-> run_alone r s d' = []).
Proof. exact run_alone_rename_operations. Qed.
Print Assumptions C14_model_rename_operations.

Theorem C14_rename_ops_doc_map : forall fo d, rename_ops_doc fo d (map (rename_def fo) d).
Proof. exact rename_ops_doc_map. Qed.
Print Assumptions C14_rename_ops_doc_map.

(* injectivity is needed *)
Theorem C14_rename_needs_injective :
  rename_ops_doc (fun _ => "Q") [cxr_op "A"; cxr_op "B"] [cxr_op "Q"; cxr_op "Q"] /\
  violated R_UniqueOperationNames cx_schema [cxr_op "A"; cxr_op "B"] = false /\
  violated R_UniqueOperationNames cx_schema [cxr_op "Q"; cxr_op "Q"] = true.
Proof. exact rename_needs_injective. Qed.
Print Assumptions C14_rename_needs_injective.

(* ---- (d) aliases rewritten: [rename_aliases_doc h d d'] = d' is d with the alias of every field chosen
   such that the field's response key k becomes h k (nothing else changes; e.g. d' = map (realias_def h) d,
   lemma rename_aliases_doc_map), h injective: response-key equalities are preserved *)
Theorem C14_spec_rename_aliases : forall h r s d d',
  rename_aliases_doc h d d' -> (forall a b, h a = h b -> a = b) ->
  violated r s d = violated r s d'.
Proof. exact violated_rename_aliases. Qed.
Print Assumptions C14_spec_rename_aliases.

Theorem C14_model_rename_aliases : forall h r s d d',
  r <> R_OverlappingFieldsCanBeMerged ->
  wf_schema s = true -> doc_types_proper d = true -> defaults_const d = true ->
  distinct_fragments d = true -> rule_in_scope r s d = true ->
  rename_aliases_doc h d d' -> (forall a b, h a = h b -> a = b) ->
  (run_alone r s d = [] <-> run_alone r s d' = []).
Proof. exact run_alone_rename_aliases. Qed.
Print Assumptions C14_model_rename_aliases.

Theorem C14_rename_aliases_doc_map : forall h d, rename_aliases_doc h d (map (realias_def h) d).
Proof. exact rename_aliases_doc_map. Qed.
Print Assumptions C14_rename_aliases_doc_map.

(* injectivity is needed: two fields that get the same response key may not merge *)
Theorem C14_realias_needs_injective :
  rename_aliases_doc (fun _ => "x") cxa_doc (map (realias_def (fun _ => "x")) cxa_doc) /\
  violated R_OverlappingFieldsCanBeMerged cx_schema cxa_doc = false /\
  violated R_OverlappingFieldsCanBeMerged cx_schema (map (realias_def (fun _ => "x")) cxa_doc) = true.
Proof. exact realias_needs_injective. Qed.
Print Assumptions C14_realias_needs_injective.

(* ---- (h), inside the definitions: [perm_inside_schema s s'] = s' is s with, in every definition, the
   fields of an object / interface / input-object type, the arguments of every field and directive
   definition, the enum values, the union members, the implements-lists and the directive locations
   replaced by permutations (C14_schema_proofs.v); the order of the definitions themselves is
   C14_spec_perm_schema *)
Theorem C14_spec_perm_inside_schema : forall r s s' d,
  perm_inside_schema s s' -> wf_schema s = true ->
  violated r s d = violated r s' d.
Proof. exact violated_perm_inside_schema. Qed.
Print Assumptions C14_spec_perm_inside_schema.

Theorem C14_model_perm_inside_schema : forall r s s' d,
  r <> R_OverlappingFieldsCanBeMerged ->
  wf_schema s = true ->
  doc_types_proper d = true -> defaults_const d = true ->
  distinct_fragments d = true -> rule_in_scope r s d = true ->
  perm_inside_schema s s' ->
  (run_alone r s d = [] <-> run_alone r s' d = []).
Proof. exact run_alone_perm_inside_schema. Qed.
Print Assumptions C14_model_perm_inside_schema.

(* the rewritten schema is well-formed again *)
Theorem C14_wf_schema_perm_inside : forall s s',
  perm_inside_schema s s' -> wf_schema s = true -> wf_schema s' = true.
Proof. exact wf_schema_perm_inside. Qed.
Print Assumptions C14_wf_schema_perm_inside.

(* ---- the model's field-merging rule, where its equivalence with the specification is proved (C05:
   [merge_side s d] = no named fragment spreads in d, fields at distinct positions, argument names
   unique): invariant under all the list permutations and under the rewriting of the schema *)
Theorem C14_model_merge_perm_lists : forall s d d',
  wf_schema s = true -> merge_side s d -> perm_lists_doc d d' ->
  (run_alone R_OverlappingFieldsCanBeMerged s d = [] <-> run_alone R_OverlappingFieldsCanBeMerged s d' = []).
Proof. exact run_alone_merge_perm_lists. Qed.
Print Assumptions C14_model_merge_perm_lists.

Theorem C14_model_merge_perm_arguments : forall s d d',
  wf_schema s = true -> merge_side s d -> perm_args_doc d d' ->
  (run_alone R_OverlappingFieldsCanBeMerged s d = [] <-> run_alone R_OverlappingFieldsCanBeMerged s d' = []).
Proof. exact run_alone_merge_perm_arguments. Qed.
Print Assumptions C14_model_merge_perm_arguments.

Theorem C14_model_merge_perm_selections : forall s d d',
  wf_schema s = true -> merge_side s d -> perm_sels_doc d d' ->
  (run_alone R_OverlappingFieldsCanBeMerged s d = [] <-> run_alone R_OverlappingFieldsCanBeMerged s d' = []).
Proof. exact run_alone_merge_perm_selections. Qed.
Print Assumptions C14_model_merge_perm_selections.

Theorem C14_model_merge_perm_inside_schema : forall s s' d,
  wf_schema s = true -> merge_side s d -> perm_inside_schema s s' ->
  (run_alone R_OverlappingFieldsCanBeMerged s d = [] <-> run_alone R_OverlappingFieldsCanBeMerged s' d = []).
Proof. exact run_alone_merge_perm_inside_schema. Qed.
Print Assumptions C14_model_merge_perm_inside_schema.

Theorem C14_model_merge_rename_operations : forall fo s d d',
  wf_schema s = true -> merge_side s d -> rename_ops_doc fo d d' -> injective_on fo (named_operation_names d) ->
  (run_alone R_OverlappingFieldsCanBeMerged s d = [] <-> run_alone R_OverlappingFieldsCanBeMerged s d' = []).
Proof. exact run_alone_merge_rename_operations. Qed.
Print Assumptions C14_model_merge_rename_operations.

Theorem C14_model_merge_rename_aliases : forall h s d d',
  wf_schema s = true -> merge_side s d -> rename_aliases_doc h d d' -> (forall a b, h a = h b -> a = b) ->
  (run_alone R_OverlappingFieldsCanBeMerged s d = [] <-> run_alone R_OverlappingFieldsCanBeMerged s d' = []).
Proof. exact run_alone_merge_rename_aliases. Qed.
Print Assumptions C14_model_merge_rename_aliases.

(* C14_additions2.v — to be appended to properties/C14.v.  Needs, next to the imports of C14.v:
From GTP Require Import C14_rename_proofs C14_wrap_proofs.
   (_CoqProject: proofs/C14_rename_proofs.v, proofs/C14_wrap_proofs.v, in this order, after
    proofs/C14_merge_model_proofs.v) *)
From GT Require Import Visitor Validate.
From Coq Require Import Permutation.
From GTS Require Import Annot WfSchema SpecRules SpecValid.
From GTP Require Import C14_proofs C14_more_proofs C14_schema_proofs C14_merge_model_proofs C14_rename_proofs C14_wrap_proofs.

(* ---- (d) fragments renamed: [rename_fragments_doc ff d] = d with ff applied to the name of every fragment
   definition and of every fragment spread (nothing else changes); ff injective on the names in play,
   [doc_fragment_names d] = the names of the fragment definitions and the names the spreads mention (so an
   unknown spread stays unknown).  Every rule. *)
Theorem C14_spec_rename_fragments : forall ff r s d,
  injective_on ff (doc_fragment_names d) ->
  violated r s d = violated r s (rename_fragments_doc ff d).
Proof. exact violated_rename_fragments. Qed.
Print Assumptions C14_spec_rename_fragments.

Theorem C14_model_rename_fragments : forall ff r s d,
  r <> R_OverlappingFieldsCanBeMerged ->
  wf_schema s = true -> doc_types_proper d = true -> defaults_const d = true ->
  distinct_fragments d = true -> rule_in_scope r s d = true ->
  injective_on ff (doc_fragment_names d) ->
  (run_alone r s d = [] <-> run_alone r s (rename_fragments_doc ff d) = []).
Proof. exact run_alone_rename_fragments. Qed.
Print Assumptions C14_model_rename_fragments.

(* injectivity is needed, also on the names that only spreads mention *)
Theorem C14_rename_fragments_needs_injective :
  violated R_UniqueFragmentNames cx_schema [cxf_frag "F"; cxf_frag "G"; cxf_op ["F"; "G"]] = false /\
  violated R_UniqueFragmentNames cx_schema
           (rename_fragments_doc (fun _ => "F") [cxf_frag "F"; cxf_frag "G"; cxf_op ["F"; "G"]]) = true.
Proof. exact rename_fragments_needs_injective. Qed.
Print Assumptions C14_rename_fragments_needs_injective.

Theorem C14_rename_fragments_needs_injective_on_spreads :
  injective_on cxf_ff (frag_names [cxf_frag "F"; cxf_op ["F"; "U"]]) /\
  violated R_KnownFragmentNames cx_schema [cxf_frag "F"; cxf_op ["F"; "U"]] = true /\
  violated R_KnownFragmentNames cx_schema (rename_fragments_doc cxf_ff [cxf_frag "F"; cxf_op ["F"; "U"]]) = false.
Proof. exact rename_fragments_needs_injective_on_spreads. Qed.
Print Assumptions C14_rename_fragments_needs_injective_on_spreads.

(* ---- (d) variables renamed: [rename_variables_doc fv d] = d with fv applied to the name of every variable
   definition and to every variable inside a value (arguments of fields and of directives, default values,
   nested lists and objects); fv injective on [doc_variable_names d] = the defined and the used variable
   names.  Every rule. *)
Theorem C14_spec_rename_variables : forall fv r s d,
  injective_on fv (doc_variable_names d) ->
  violated r s d = violated r s (rename_variables_doc fv d).
Proof. exact violated_rename_variables. Qed.
Print Assumptions C14_spec_rename_variables.

Theorem C14_model_rename_variables : forall fv r s d,
  r <> R_OverlappingFieldsCanBeMerged ->
  wf_schema s = true -> doc_types_proper d = true -> defaults_const d = true ->
  distinct_fragments d = true -> rule_in_scope r s d = true ->
  injective_on fv (doc_variable_names d) ->
  (run_alone r s d = [] <-> run_alone r s (rename_variables_doc fv d) = []).
Proof. exact run_alone_rename_variables. Qed.
Print Assumptions C14_model_rename_variables.

Theorem C14_model_merge_rename_variables : forall fv s d,
  wf_schema s = true -> merge_side s d -> injective_on fv (doc_variable_names d) ->
  (run_alone R_OverlappingFieldsCanBeMerged s d = [] <->
   run_alone R_OverlappingFieldsCanBeMerged s (rename_variables_doc fv d) = []).
Proof. exact run_alone_merge_rename_variables. Qed.
Print Assumptions C14_model_merge_rename_variables.

Theorem C14_rename_variables_needs_injective :
  violated R_UniqueVariableNames cxv_schema cxw_doc = false /\
  violated R_UniqueVariableNames cxv_schema (rename_variables_doc (fun _ => "v") cxw_doc) = true.
Proof. exact rename_variables_needs_injective. Qed.
Print Assumptions C14_rename_variables_needs_injective.

(* both at once *)
Theorem C14_spec_rename_fragments_and_variables : forall ff fv r s d,
  injective_on ff (doc_fragment_names d) -> injective_on fv (doc_variable_names d) ->
  violated r s d = violated r s (rn_doc ff fv d).
Proof. exact violated_rn_on. Qed.
Print Assumptions C14_spec_rename_fragments_and_variables.

(* ---- (e) wrapping in untyped inline fragments: [wrap_doc d d'] = d' is d with contiguous NON-EMPTY parts of
   selection lists wrapped in `... { }` (inline fragment without type condition and without directives), anywhere
   (operations, fragment definitions, fields, inline fragments), any number of times, also nested
   ([wlist] / [wsel], C14_wrap_proofs.v).  Every rule is invariant, all 24 of them. *)
Theorem C14_spec_wrap : forall r s d d',
  wrap_doc d d' -> violated r s d = violated r s d'.
Proof. exact violated_wrap. Qed.
Print Assumptions C14_spec_wrap.

(* FieldsOnCorrectType = [fields_undefined s d || subscription_typename d] (definitionally): its clause about the
   fields is invariant, and so is its clause "a __typename at a subscription root", which looks through inline
   fragments without a type condition ([root_typename_fields], SpecRules.v) *)
Theorem C14_spec_wrap_fields_on_correct_type : forall s d d', wrap_doc d d' ->
  fields_undefined s d = fields_undefined s d' /\
  subscription_typename d = subscription_typename d' /\
  violated R_FieldsOnCorrectType s d = violated R_FieldsOnCorrectType s d'.
Proof. exact violated_wrap_fields_on_correct_type. Qed.
Print Assumptions C14_spec_wrap_fields_on_correct_type.

(* accept / reject is invariant, whatever the schema *)
Theorem C14_spec_valid_wrap : forall s d d', wrap_doc d d' ->
  spec_valid s d = spec_valid s d'.
Proof. exact spec_valid_wrap. Qed.
Print Assumptions C14_spec_valid_wrap.

(* the model: every rule with a per-rule equivalence (the merge rule has its own theorems) *)
Theorem C14_model_wrap : forall r s d d',
  r <> R_OverlappingFieldsCanBeMerged ->
  wf_schema s = true -> doc_types_proper d = true -> defaults_const d = true ->
  distinct_fragments d = true -> rule_in_scope r s d = true ->
  wrap_doc d d' ->
  (run_alone r s d = [] <-> run_alone r s d' = []).
Proof. exact run_alone_wrap. Qed.
Print Assumptions C14_model_wrap.

(* the documents that used to separate FieldsOnCorrectType (the rule saw a __typename at a subscription root only
   when it was a direct child):  subscription S { __typename }  and  subscription S { ... { __typename } }  now get
   the same verdict, from the specification and from the model ... *)
Theorem C14_wrap_fields_on_correct_type_example :
  wf_schema wx_schema_sub = true /\
  wrap_doc (wx_sub [cx_field "__typename"]) (wx_sub [wx_wrap [cx_field "__typename"]]) /\
  violated R_FieldsOnCorrectType wx_schema_sub (wx_sub [cx_field "__typename"]) = true /\
  violated R_FieldsOnCorrectType wx_schema_sub (wx_sub [wx_wrap [cx_field "__typename"]]) = true /\
  run_alone R_FieldsOnCorrectType wx_schema_sub (wx_sub [cx_field "__typename"]) =
    [err R_FieldsOnCorrectType [cx_z]] /\
  run_alone R_FieldsOnCorrectType wx_schema_sub (wx_sub [wx_wrap [cx_field "__typename"]]) =
    [err R_FieldsOnCorrectType [cx_z]] /\
  spec_valid wx_schema_sub (wx_sub [cx_field "__typename"]) = false /\
  spec_valid wx_schema_sub (wx_sub [wx_wrap [cx_field "__typename"]]) = false.
Proof. exact wrap_fields_on_correct_type_example. Qed.
Print Assumptions C14_wrap_fields_on_correct_type_example.

(* ... also where the schema has no subscription root type, where accept / reject used to change *)
Theorem C14_wrap_spec_valid_example :
  wf_schema cx_schema = true /\
  root cx_schema OpSubscription = None /\
  wrap_doc (wx_sub [cx_field "__typename"]) (wx_sub [wx_wrap [cx_field "__typename"]]) /\
  spec_valid cx_schema (wx_sub [cx_field "__typename"]) = false /\
  spec_valid cx_schema (wx_sub [wx_wrap [cx_field "__typename"]]) = false /\
  run_alone R_FieldsOnCorrectType cx_schema (wx_sub [cx_field "__typename"]) =
    [err R_FieldsOnCorrectType [cx_z]] /\
  run_alone R_FieldsOnCorrectType cx_schema (wx_sub [wx_wrap [cx_field "__typename"]]) =
    [err R_FieldsOnCorrectType [cx_z]].
Proof. exact wrap_spec_valid_example. Qed.
Print Assumptions C14_wrap_spec_valid_example.

(* the restriction to NON-EMPTY parts is needed: wrapping nothing gives a leaf field a selection set *)
Theorem C14_wrap_empty_cex :
  violated R_LeafFieldSelections cx_schema
           [DOp (mkOperation OpQuery cx_z (Some "Q") [] [] (cx_z, cx_z) [cx_field "a"])] = false /\
  violated R_LeafFieldSelections cx_schema
           [DOp (mkOperation OpQuery cx_z (Some "Q") [] [] (cx_z, cx_z)
                   [SField cx_z None "a" [] [] (cx_z, cx_z) [wx_wrap []]])] = true.
Proof. exact wrap_empty_cex. Qed.
Print Assumptions C14_wrap_empty_cex.

(* C14_additions3.v — to be appended to properties/C14.v.  Needs, next to the imports of C14.v:
From GTP Require Import C14_inline_proofs.
From GTP Require C06_graph_proofs C05_frag_annot.
   (_CoqProject: proofs/C14_inline_proofs.v after proofs/C14_wrap_proofs.v; it depends on C14_proofs,
    C14_more_proofs, C14_wrap_proofs, C06_graph_proofs, C05_merge_proofs, C05_frag_spec, C05_frag_annot,
    C05_frag_global, all of which precede it already) *)
From GT Require Import Visitor Validate.
From Coq Require Import Permutation.
From GTS Require Import Annot WfSchema SpecRules SpecValid.
From GTP Require Import C14_proofs C14_more_proofs C14_wrap_proofs C14_inline_proofs.
From GTP Require C06_graph_proofs C05_frag_annot.

(* ---- (f) a spread replaced by the typed inline fragment: [inline_doc F d d'] = d' is d with some (any number)
   of the spreads `...F` WITHOUT directives replaced by `... on T { selections of F }` (T = fr_tc F; the span
   of the new selection set is F's, its position is free), anywhere; the definition of F stays.
   [inline_side F d] = F is a definition of d, the only one named so, has no directives of its own and is not
   on a cycle of the spread graph (C06_graph_proofs.cyc).
   [inline_merge_side F s d] = T is a type of s and so are the type conditions of the inline fragments of d
   (C05_frag_annot.inline_conditions_known): needed for field merging only. *)
Theorem C14_spec_inline : forall F r s d d', inline_doc F d d' -> inline_side F d ->
  r <> R_OverlappingFieldsCanBeMerged -> r <> R_NoUnusedFragments ->
  violated r s d = violated r s d'.
Proof. exact violated_inline. Qed.
Print Assumptions C14_spec_inline.

Theorem C14_spec_inline_merge : forall F s d d', inline_doc F d d' -> inline_side F d -> inline_merge_side F s d ->
  violated R_OverlappingFieldsCanBeMerged s d = violated R_OverlappingFieldsCanBeMerged s d'.
Proof. exact violated_inline_merge. Qed.
Print Assumptions C14_spec_inline_merge.

(* NoUnusedFragments: an unused fragment stays unused; only F itself can become unused *)
Theorem C14_spec_inline_no_unused_fragments : forall F s d d', inline_doc F d d' -> inline_side F d ->
  (violated R_NoUnusedFragments s d = true -> violated R_NoUnusedFragments s d' = true) /\
  (In (fr_name F) (reachable_from_operations d') ->
   violated R_NoUnusedFragments s d = violated R_NoUnusedFragments s d').
Proof. exact violated_inline_no_unused_fragments. Qed.
Print Assumptions C14_spec_inline_no_unused_fragments.

(* accept / reject *)
Theorem C14_spec_valid_inline : forall F s d d', inline_doc F d d' -> inline_side F d -> inline_merge_side F s d ->
  In (fr_name F) (reachable_from_operations d') ->
  spec_valid s d = spec_valid s d'.
Proof. exact spec_valid_inline. Qed.
Print Assumptions C14_spec_valid_inline.

Theorem C14_spec_valid_inline_mono : forall F s d d', inline_doc F d d' -> inline_side F d -> inline_merge_side F s d ->
  spec_valid s d' = true -> spec_valid s d = true.
Proof. exact spec_valid_inline_mono. Qed.
Print Assumptions C14_spec_valid_inline_mono.

(* the relation is not degenerate; the hypotheses are needed *)
Theorem C14_inline_example :
  let d := [ix_q "Q" [] [ix_sub "t" [ix_spread "F"]]; ix_q "R" [] [ix_sub "t" [ix_spread "F"]]; DFrag ix_F] in
  let d' := [ix_q "Q" [] [ix_sub "t" [ix_copy ix_F]]; ix_q "R" [] [ix_sub "t" [ix_spread "F"]]; DFrag ix_F] in
  inline_doc ix_F d d' /\ spec_valid cx_schema d = true /\ spec_valid cx_schema d' = true.
Proof. exact inline_example. Qed.
Print Assumptions C14_inline_example.

Theorem C14_inline_unused_cex :
  let d := [ix_q "Q" [] [ix_sub "t" [ix_spread "F"]]; DFrag ix_F] in
  let d' := [ix_q "Q" [] [ix_sub "t" [ix_copy ix_F]]; DFrag ix_F] in
  inline_doc ix_F d d' /\ spec_valid cx_schema d = true /\ spec_valid cx_schema d' = false /\
  violated R_NoUnusedFragments cx_schema d' = true.
Proof. exact inline_unused_cex. Qed.
Print Assumptions C14_inline_unused_cex.

Theorem C14_inline_fragment_directives_cex :
  let d := [ix_q "Q" [ix_v] [ix_sub "t" [ix_spread "F"]]; ix_q "R" [ix_v] [ix_sub "t" [ix_spread "F"]]; DFrag ix_Fd] in
  let d' := [ix_q "Q" [ix_v] [ix_sub "t" [ix_copy ix_Fd]]; ix_q "R" [ix_v] [ix_sub "t" [ix_spread "F"]]; DFrag ix_Fd] in
  inline_doc ix_Fd d d' /\
  violated R_NoUnusedVariables cx_schema d = false /\ violated R_NoUnusedVariables cx_schema d' = true.
Proof. exact inline_fragment_directives_cex. Qed.
Print Assumptions C14_inline_fragment_directives_cex.

(* T not a type of the schema (schema of the example not well-formed) *)
Theorem C14_inline_undeclared_type_cex :
  let l := [SInline cx_z (Some "O") [] (cx_z, cx_z) [cx_field "a"]] in
  let d := [ix_q "Q" [] [ix_sub "t" (ix_spread "F" :: l)]; ix_q "R" [] [ix_sub "t" [ix_spread "F"]]; DFrag ix_Fi] in
  let d' := [ix_q "Q" [] [ix_sub "t" (ix_copy ix_Fi :: l)]; ix_q "R" [] [ix_sub "t" [ix_spread "F"]]; DFrag ix_Fi] in
  inline_doc ix_Fi d d' /\ type_by_name ix_schemaI "__Type" = None /\
  spec_valid ix_schemaI d = true /\ spec_valid ix_schemaI d' = false /\
  violated R_OverlappingFieldsCanBeMerged ix_schemaI d' = true.
Proof. exact inline_undeclared_type_cex. Qed.
Print Assumptions C14_inline_undeclared_type_cex.

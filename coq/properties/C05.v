(* C05 — the field-merging rule fires exactly when two same-key fields cannot merge. *)
From GT Require Import Visitor Validate Merge.
From GTS Require Import Annot WfSchema SpecRules SpecMerge SpecValid.
From GTP Require Import C05_proofs.

(* The full statement as first written (kept visible).  It is FALSE: C05_statement_refuted below;
   C05_acyclic_partial is the statement with the two hypotheses it needs (distinct field positions,
   which every parsed document has, and known inline type conditions, outside which the
   specification's algorithm is not defined). *)
Definition C05_statement : Prop := forall s d,
  wf_schema s = true -> rule_in_scope R_OverlappingFieldsCanBeMerged s d = true ->
  (run_alone R_OverlappingFieldsCanBeMerged s d <> [] <-> violated R_OverlappingFieldsCanBeMerged s d = true).

(* component: argument lists — the rule's comparison is equality of argument SETS *)
Theorem C05_same_arguments : forall a b,
  nodup_names (map fst a) = true -> nodup_names (map fst b) = true ->
  is_same_arguments a b = same_arguments a b.
Proof. exact is_same_arguments_spec. Qed.
Print Assumptions C05_same_arguments.

(* component: return types conflict iff their list / non-null shapes differ or a leaf type differs *)
Theorem C05_type_conflict : forall s a b, is_type_conflict s a b = shape_conflict s a b.
Proof. exact is_type_conflict_spec. Qed.
Print Assumptions C05_type_conflict.

(* component: the collected field map of a selection set without named spreads is the
   specification's collected set, grouped by response key *)
Theorem C05_collect : forall s d parent sels, spreads_in sels = [] ->
  flat_map (fun kf : name * list astdef => map (fun a => (ad_parent a, ad_field a)) (snd kf))
           (fst (get_fields_and_fragment_names s parent sels))
  = map (fun c => (cf_parent c, cf_field c))
        (flat_map (fun k => filter (fun c => name_eqb (cf_key c) k) (collected s d parent sels))
                  (map fst (fst (get_fields_and_fragment_names s parent sels)))).
Proof. exact collect_spreadfree. Qed.
Print Assumptions C05_collect.

(* the rule on documents without named fragment spreads (inline fragments of any kind and depth) *)
Theorem C05_spreadfree_partial : forall s d,
  wf_schema s = true -> spreads_in (flat_map def_sels d) = [] ->
  NoDup (map node_pos (filter (fun x => match x with SField _ _ _ _ _ _ _ => true | _ => false end) (doc_selections d))) ->
  negb (violated R_UniqueArgumentNames s d) = true ->
  (run_alone R_OverlappingFieldsCanBeMerged s d <> [] <-> violated R_OverlappingFieldsCanBeMerged s d = true).
Proof. exact merge_spreadfree_iff. Qed.
Print Assumptions C05_spreadfree_partial.

(* ---- additions to properties/C05.v (append to the file; the Require line may also be moved to the top) ---- *)
From GTP Require Import C05_frag_proofs.

(* The rule on documents WITH named fragment spreads of any nesting (inline fragments included):
   it reports a conflict exactly when FieldsInSetCanMerge fails for the collected set (fragments
   expanded) of some selection set.  With respect to C05_statement, two hypotheses are added:
   - the field nodes have pairwise distinct positions (the parser gives every node its own position;
     the rule identifies field nodes by address; same hypothesis as C05_spreadfree_partial);
   - every inline type condition names a type of the schema: without it C05_statement is FALSE,
     see C05_statement_refuted below. *)
Theorem C05_acyclic_partial : forall s d,
  wf_schema s = true -> rule_in_scope R_OverlappingFieldsCanBeMerged s d = true ->
  NoDup (map node_pos (filter (fun x => match x with SField _ _ _ _ _ _ _ => true | _ => false end) (doc_selections d))) ->
  inline_conditions_known s d = true ->
  (run_alone R_OverlappingFieldsCanBeMerged s d <> [] <-> violated R_OverlappingFieldsCanBeMerged s d = true).
Proof. exact merge_iff_acyclic. Qed.
Print Assumptions C05_acyclic_partial.

(* soundness alone needs neither extra hypothesis: every conflict the memoised search reports is a
   violation of FieldsInSetCanMerge.  Missing w.r.t. C05_statement: the converse. *)
Theorem C05_sound_partial : forall s d,
  wf_schema s = true -> rule_in_scope R_OverlappingFieldsCanBeMerged s d = true ->
  run_alone R_OverlappingFieldsCanBeMerged s d <> [] -> violated R_OverlappingFieldsCanBeMerged s d = true.
Proof. exact merge_sound_acyclic. Qed.
Print Assumptions C05_sound_partial.

(* completeness, stated separately with the out-of-fuel flag as a hypothesis (it holds for every
   memo content: the memo tables never hide a comparison whose outcome could differ); the flag is
   false for every document by C03_merge_no_fuel_exhaustion *)
Theorem C05_complete_no_oof_partial : forall s d,
  wf_schema s = true -> rule_in_scope R_OverlappingFieldsCanBeMerged s d = true ->
  NoDup (map node_pos (filter (fun x => match x with SField _ _ _ _ _ _ _ => true | _ => false end) (doc_selections d))) ->
  inline_conditions_known s d = true ->
  r_oof (snd (run_rule R_OverlappingFieldsCanBeMerged s d ctx0)) = false ->
  violated R_OverlappingFieldsCanBeMerged s d = true -> run_alone R_OverlappingFieldsCanBeMerged s d <> [].
Proof. exact merge_complete_no_oof. Qed.
Print Assumptions C05_complete_no_oof_partial.

(* the fuel [merge_fuel d] suffices on every document without fragment cycles, for every schema,
   every starting context and every content of the memo tables (also wanted by C03: it discharges the
   hypothesis of C03_terminates_partial on acyclic documents).  (For documents WITH fragment cycles see C03_merge_no_fuel_exhaustion: the constant of the model
   was raised after a counterexample found while proving this.) *)
Theorem C05_fuel_acyclic_partial : forall s d c,
  v_no_fragment_cycles d = false -> r_oof (snd (run_rule R_OverlappingFieldsCanBeMerged s d c)) = false.
Proof. exact merge_fuel_sufficient_acyclic. Qed.
Print Assumptions C05_fuel_acyclic_partial.

(* the side condition on inline type conditions, from KnownTypeNames *)
Theorem C05_inline_conditions_known : forall s d,
  violated R_KnownTypeNames s d = false ->
  (forall n, In n (type_conditions d) -> mem_name n introspection_type_names = true -> type_by_name s n <> None) ->
  inline_conditions_known s d = true.
Proof. exact inline_conditions_known_of_known_types. Qed.
Print Assumptions C05_inline_conditions_known.

(* the full statement C05_statement is FALSE as stated: a closed counterexample (an inline fragment
   on an unknown type inside a named fragment that is spread under two fields with the same
   response key); wf_schema and rule_in_scope hold, the rule reports nothing, the specification
   is violated *)
Theorem C05_statement_refuted : ~ C05_statement.
Proof. exact C05_statement_false. Qed.
Print Assumptions C05_statement_refuted.


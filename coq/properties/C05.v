(* C05 — the field-merging rule fires exactly when two same-key fields cannot merge. *)
From GT Require Import Visitor Validate Merge.
From GTS Require Import Annot WfSchema SpecRules SpecMerge SpecValid.
From GTP Require Import C05_proofs.

(* The full statement (kept visible; NOT proved: correctness of the memoised pairwise search with
   named fragments): *)
Definition C05_statement : Prop := forall s d,
  wf_schema s = true -> rule_in_scope R_OverlappingFieldsCanBeMerged s d = true ->
  (run_alone R_OverlappingFieldsCanBeMerged s d <> [] <-> violated R_OverlappingFieldsCanBeMerged s d = true).

(* component: argument lists — the rule's comparison is equality of argument SETS *)
Theorem C05_same_arguments : forall a b,
  nodup_names (map fst a) = true -> nodup_names (map fst b) = true ->
  is_same_arguments a b = same_arguments a b.
Proof. exact is_same_arguments_spec. Qed.
Print Assumptions C05_same_arguments.

(* component: return types conflict iff their list / non-null shapes differ or a leaf type differs *)
Theorem C05_type_conflict : forall s a b, is_type_conflict s a b = shape_conflict s a b.
Proof. exact is_type_conflict_spec. Qed.
Print Assumptions C05_type_conflict.

(* component: the collected field map of a selection set without named spreads is the
   specification's collected set, grouped by response key *)
Theorem C05_collect : forall s d parent sels, spreads_in sels = [] ->
  flat_map (fun kf : name * list astdef => map (fun a => (ad_parent a, ad_field a)) (snd kf))
           (fst (get_fields_and_fragment_names s parent sels))
  = map (fun c => (cf_parent c, cf_field c))
        (flat_map (fun k => filter (fun c => name_eqb (cf_key c) k) (collected s d parent sels))
                  (map fst (fst (get_fields_and_fragment_names s parent sels)))).
Proof. exact collect_spreadfree. Qed.
Print Assumptions C05_collect.

(* the rule on documents without named fragment spreads (inline fragments of any kind and depth) *)
Theorem C05_spreadfree_partial : forall s d,
  wf_schema s = true -> spreads_in (flat_map def_sels d) = [] ->
  NoDup (map node_pos (filter (fun x => match x with SField _ _ _ _ _ _ _ => true | _ => false end) (doc_selections d))) ->
  negb (violated R_UniqueArgumentNames s d) = true ->
  (run_alone R_OverlappingFieldsCanBeMerged s d <> [] <-> violated R_OverlappingFieldsCanBeMerged s d = true).
Proof. exact merge_spreadfree_iff. Qed.
Print Assumptions C05_spreadfree_partial.

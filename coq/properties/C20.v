(* C20 — introspection results parse losslessly (the part of the property that lives on JSON
   trees; byte-level reading, reader chunking and I/O faults are serde_json's and are covered by
   the correspondence check only). *)
From GT Require Import Json Introspection.
From GTS Require Import WfSchema SpecIntrospection.
From GTP Require Import C20_proofs.

(* Serialising a structure and parsing the result gives the structure back.  Hypothesis (added to
   the planned statement, see C20_roundtrip_needs_normal): the default values held by the
   structure are what a parse can produce — not Some(Value::Null), no object with a repeated key
   (the model uses JSON trees for serde_json::Value). *)
Theorem C20_roundtrip : forall q, query_normal q = true -> decode_query (encode_query q) = Some q.
Proof. exact roundtrip. Qed.
Print Assumptions C20_roundtrip.

(* every parsed structure satisfies that hypothesis ... *)
Theorem C20_decode_normal : forall j q, decode_query j = Some q -> query_normal q = true.
Proof. exact decode_normal. Qed.
Print Assumptions C20_decode_normal.

(* ... hence, as the property says: serialising the PARSED structure and parsing it again yields
   the same structure *)
Theorem C20_roundtrip_parsed : forall j q,
  decode_query j = Some q -> decode_query (encode_query q) = Some q.
Proof. exact roundtrip_parsed. Qed.
Print Assumptions C20_roundtrip_parsed.

(* the planned unconditional statement is false (in Rust as well: Some(Value::Null) is written as
   null, which reads back as None) *)
Theorem C20_roundtrip_needs_normal : exists q, decode_query (encode_query q) <> Some q.
Proof. exists roundtrip_counterexample. exact roundtrip_needs_normal. Qed.
Print Assumptions C20_roundtrip_needs_normal.

(* the spec-conformant introspection result of a well-formed schema, under either optional-member
   policy, parses, and the parsed structure is the one the schema denotes *)
Theorem C20_lossless : forall pol s,
  wf_schema s = true -> decode_query (render pol s) = Some (abstract_normal pol s).
Proof. exact lossless. Qed.
Print Assumptions C20_lossless.

(* nothing the property lists is dropped: type names with their kinds, fields, arguments (with
   default values as GraphQL text), type references, interfaces, union members, enum values,
   input fields, directives (name, repeatable, locations, arguments) and the root type names can
   be read back from that structure and are those of the schema *)
Theorem C20_recover : forall pol s,
  wf_schema s = true -> rebuild (abstract_normal pol s) = Some (essence_of s).
Proof. exact recover. Qed.
Print Assumptions C20_recover.

Theorem C20_recover_possible : forall pol s, possible_of (abstract_normal pol s) = possible_of_schema s.
Proof. exact recover_possible. Qed.
Print Assumptions C20_recover_possible.

Theorem C20_recover_query_root : forall s, wf_schema s = true ->
  exists t, Annot.root s Ast.OpQuery = Some t /\ e_query (essence_of s) = Ext.td_name t.
Proof. exact recover_query_root. Qed.
Print Assumptions C20_recover_query_root.

(* no object inside a serialised structure has a repeated key *)
Theorem C20_encode_no_duplicates : forall q, query_normal q = true -> no_dup_keys (encode_query q) = true.
Proof. exact encode_no_duplicates. Qed.
Print Assumptions C20_encode_no_duplicates.

(* a tree that is not of the shape of an introspection result is an error.  PARTIAL: proved for the
   outermost two levels only (exactly one __schema; inside it exactly one queryType, arrays types
   and directives, or the positional array forms); the full statement "decode_query j = Some q ->
   every level of j has the member shape of its struct" is not proved; the deeper levels are
   covered by the closed examples of C20_proofs.v and by the correspondence run (shape mutations) *)
Theorem C20_shape_partial : forall j q, decode_query j = Some q -> has_shape j = true.
Proof. exact shape. Qed.
Print Assumptions C20_shape_partial.

(* C20 — introspection results parse losslessly (the part of the property that lives on JSON
   trees; byte-level reading, reader chunking and I/O faults are serde_json's and are covered by
   the correspondence check only). *)
From GT Require Import Json Introspection.
From GTS Require Import WfSchema SpecIntrospection.
From GTP Require Import C20_proofs.

(* Serialising a structure and parsing the result gives the structure back.  Hypothesis (added to
   the planned statement, see C20_roundtrip_needs_normal): the default values held by the
   structure are what a parse can produce — not Some(Value::Null), no object with a repeated key
   (the model uses JSON trees for serde_json::Value). *)
Theorem C20_roundtrip : forall q, query_normal q = true -> decode_query (encode_query q) = Some q.
Proof. exact roundtrip. Qed.
Print Assumptions C20_roundtrip.

(* every parsed structure satisfies that hypothesis ... *)
Theorem C20_decode_normal : forall j q, decode_query j = Some q -> query_normal q = true.
Proof. exact decode_normal. Qed.
Print Assumptions C20_decode_normal.

(* ... hence, as the property says: serialising the PARSED structure and parsing it again yields
   the same structure *)
Theorem C20_roundtrip_parsed : forall j q,
  decode_query j = Some q -> decode_query (encode_query q) = Some q.
Proof. exact roundtrip_parsed. Qed.
Print Assumptions C20_roundtrip_parsed.

(* the planned unconditional statement is false (in Rust as well: Some(Value::Null) is written as
   null, which reads back as None) *)
Theorem C20_roundtrip_needs_normal : exists q, decode_query (encode_query q) <> Some q.
Proof. exists roundtrip_counterexample. exact roundtrip_needs_normal. Qed.
Print Assumptions C20_roundtrip_needs_normal.

(* the spec-conformant introspection result of a well-formed schema, under either optional-member
   policy, parses, and the parsed structure is the one the schema denotes *)
Theorem C20_lossless : forall pol s,
  wf_schema s = true -> decode_query (render pol s) = Some (abstract_normal pol s).
Proof. exact lossless. Qed.
Print Assumptions C20_lossless.

(* nothing the property lists is dropped: type names with their kinds, fields, arguments (with
   default values as GraphQL text), type references, interfaces, union members, enum values,
   input fields, directives (name, repeatable, locations, arguments) and the root type names can
   be read back from that structure and are those of the schema *)
Theorem C20_recover : forall pol s,
  wf_schema s = true -> rebuild (abstract_normal pol s) = Some (essence_of s).
Proof. exact recover. Qed.
Print Assumptions C20_recover.

Theorem C20_recover_possible : forall pol s, possible_of (abstract_normal pol s) = possible_of_schema s.
Proof. exact recover_possible. Qed.
Print Assumptions C20_recover_possible.

Theorem C20_recover_query_root : forall s, wf_schema s = true ->
  exists t, Annot.root s Ast.OpQuery = Some t /\ e_query (essence_of s) = Ext.td_name t.
Proof. exact recover_query_root. Qed.
Print Assumptions C20_recover_query_root.

(* no object inside a serialised structure has a repeated key *)
Theorem C20_encode_no_duplicates : forall q, query_normal q = true -> no_dup_keys (encode_query q) = true.
Proof. exact encode_no_duplicates. Qed.
Print Assumptions C20_encode_no_duplicates.

(* the outermost two levels of the shape (kept; the statement for EVERY level, in both directions, is
   C20_decode_iff_shape below) *)
Theorem C20_shape_outermost : forall j q, decode_query j = Some q -> has_shape j = true.
Proof. exact shape. Qed.
Print Assumptions C20_shape_outermost.

(* ---- additions to properties/C20.v (after the existing theorems) ---- *)
From GTP Require Import C20_shape_proofs.

(* A tree is accepted EXACTLY when it has the shape of an introspection result at every level.
   [full_shape] = [conforms query_ty]: [query_ty] transcribes the Rust declarations (members,
   which are Option, Vec, tagged enums, type references) and [conforms] says what serde accepts
   for each kind of type (see proofs/C20_shape_proofs.v; neither mentions the decoder).
   Replaces C20_shape_partial: all levels, both directions, including the positional array forms
   and the integer tags inside buffered content. *)
Theorem C20_decode_iff_shape : forall j, (exists q, decode_query j = Some q) <-> full_shape j = true.
Proof. exact decode_iff_shape. Qed.
Print Assumptions C20_decode_iff_shape.

Theorem C20_not_shape_error : forall j, full_shape j = false -> decode_query j = None.
Proof. exact not_shape_error. Qed.
Print Assumptions C20_not_shape_error.

(* the shape holds at every typed position of an accepted tree ([at_pos t j t' j']: reading j as
   a t descends into the subtree j', read as a t') ... *)
Theorem C20_shape_everywhere : forall j q t' j',
  decode_query j = Some q -> at_pos query_ty j t' j' -> conforms t' j' = true.
Proof. intros j q t' j' H P. exact (conforms_at _ _ _ _ P (decode_shape _ _ H)). Qed.
Print Assumptions C20_shape_everywhere.

(* ... hence the five kinds of error the property lists, at ANY struct position (ms: the members
   of the struct read there, es: the members of the object found there) *)
Theorem C20_reject_missing : forall j ms es, at_pos query_ty j (JTStruct ms) (JObj es) ->
  forall k t, In (k, (Req, t)) ms -> has_key k es = false -> decode_query j = None.
Proof. exact reject_missing. Qed.
Print Assumptions C20_reject_missing.

Theorem C20_reject_null : forall j ms es, at_pos query_ty j (JTStruct ms) (JObj es) ->
  forall k t, In (k, (Req, t)) ms -> t <> JTValue -> In (k, JNull) es -> decode_query j = None.
Proof. exact reject_null. Qed.
Print Assumptions C20_reject_null.

Theorem C20_reject_wrong_type : forall j ms es, at_pos query_ty j (JTStruct ms) (JObj es) ->
  forall k pr t v, In (k, (pr, t)) ms -> In (k, v) es -> (pr = Opt -> v <> JNull) ->
  json_type_ok t v = false -> decode_query j = None.
Proof. exact reject_wrong_type. Qed.
Print Assumptions C20_reject_wrong_type.

Theorem C20_reject_unknown_kind : forall j b vs es tag,
  at_pos query_ty j (JTEnum b vs) (JObj es) -> In ("kind"%string, JStr tag) es ->
  variant_members vs tag = None -> decode_query j = None.
Proof. exact reject_unknown_kind. Qed.
Print Assumptions C20_reject_unknown_kind.

Theorem C20_reject_unknown_kind_ref : forall j b vs es tag,
  at_pos query_ty j (JTRef vs b) (JObj es) -> In ("kind"%string, JStr tag) es ->
  mem_string tag vs = false -> decode_query j = None.
Proof. exact reject_unknown_kind_ref. Qed.
Print Assumptions C20_reject_unknown_kind_ref.

Theorem C20_reject_kind_count : forall j t es,
  at_pos query_ty j t (JObj es) -> (exists b vs, t = JTEnum b vs) \/ (exists vs b, t = JTRef vs b) ->
  count_key "kind" es <> 1 -> decode_query j = None.
Proof. exact reject_kind_count. Qed.
Print Assumptions C20_reject_kind_count.

Theorem C20_reject_duplicate : forall j ms es, at_pos query_ty j (JTStruct ms) (JObj es) ->
  forall k pr t es1 v1 es2 v2 es3, In (k, (pr, t)) ms ->
  es = (es1 ++ (k, v1) :: es2 ++ (k, v2) :: es3)%list -> decode_query j = None.
Proof. exact reject_duplicate. Qed.
Print Assumptions C20_reject_duplicate.

(* ---- "Unknown extra members and the order of members do not matter" ---- *)
From GTP Require Import C20_invariance_proofs.

(* [jsim t j j'] (proofs/C20_invariance_proofs.v): at every position read as a struct / tagged enum /
   type reference, j and j' have the same KNOWN members up to order (unknown ones may be added,
   removed, repeated, changed), with similar values; vectors element-wise; positional forms
   element-wise; a default value (serde_json::Value) only to itself.
   _partial: (a) the relation is typed by the Rust declarations, not the plain "Permutation at every
   level" on untyped trees (that statement is false: C20_value_order_matters); (b) for default values
   nothing is claimed beyond identity. *)
Theorem C20_invariance_partial : forall j j', jsim query_ty j j' -> decode_query j = decode_query j'.
Proof. exact decode_invariant. Qed.
Print Assumptions C20_invariance_partial.

(* how similar trees arise: members permuted / an unknown member inserted, at a struct position
   (the analogous rules for tagged enums and type references: sim_enum_perm, sim_enum_insert,
   sim_ref_wrapper_perm, sim_ref_wrapper_insert, sim_ref_named_permute, sim_ref_named_insert; to go
   down: sim_struct_member, sim_vec_elem, sim_enum_member, sim_ref_oftype) *)
Theorem C20_sim_permute : forall ms es es', Permutation.Permutation es es' -> jsim (JTStruct ms) (JObj es) (JObj es').
Proof. exact sim_struct_permute. Qed.
Print Assumptions C20_sim_permute.
Theorem C20_sim_insert : forall ms l1 l2 k v,
  mem_string k (map fst ms) = false -> jsim (JTStruct ms) (JObj (l1 ++ l2)) (JObj (l1 ++ (k, v) :: l2)).
Proof. exact sim_struct_insert. Qed.
Print Assumptions C20_sim_insert.

(* the order of the members of a default VALUE is visible in the model (a JSON tree compared with =) *)
Theorem C20_value_order_matters :
  decode_query (with_default (JObj [("a"%string, JNum 1); ("b"%string, JNum 2)])) <>
  decode_query (with_default (JObj [("b"%string, JNum 2); ("a"%string, JNum 1)])).
Proof. exact value_order_matters. Qed.
Print Assumptions C20_value_order_matters.

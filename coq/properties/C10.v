(* C10 — directive rules fire exactly when the spec condition is violated. *)
From GT Require Import Visitor Validate.
From GTS Require Import Annot WfSchema SpecRules SpecValid.
From GTP Require Import C10_proofs C10_slot_proofs.

Theorem C10_known_directives : forall s d, wf_schema s = true ->
  (run_alone R_KnownDirectives s d <> [] <-> violated R_KnownDirectives s d = true).
Proof. exact known_directives_iff. Qed.
Print Assumptions C10_known_directives.

Theorem C10_unique_directives_per_location : forall s d, wf_schema s = true ->
  (run_alone R_UniqueDirectivesPerLocation s d <> [] <-> violated R_UniqueDirectivesPerLocation s d = true).
Proof. exact unique_directives_iff. Qed.
Print Assumptions C10_unique_directives_per_location.

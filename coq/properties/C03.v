(* placeholder until the composition theorems are in place *)
From GT Require Import Validate.
Example C03_pending : True. Proof. exact I. Qed.
Print Assumptions C03_pending.

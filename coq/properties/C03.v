(* C03 — validation always terminates without panic, even on cyclic fragments. *)
From GT Require Import Visitor Validate.
From GTS Require Import Annot WfSchema SpecValid.
From GTP Require Import C03_proofs.

(* Every fuel-bounded walk of the model is given enough fuel: no rule other than the field-merging
   rule ever runs out of fuel, for ANY schema and document (cyclic, unknown names, invalid ...). *)
Theorem C03_no_fuel_exhaustion : forall r s d c,
  r <> R_OverlappingFieldsCanBeMerged -> r_oof (snd (run_rule r s d c)) = false.
Proof. exact no_fuel_exhaustion. Qed.
Print Assumptions C03_no_fuel_exhaustion.

(* validate returns normally (neither Panic nor OutOfFuel) on every well-formed schema and every
   document, for every plan without the field-merging rule ... *)
Theorem C03_terminates : forall s d plan, wf_schema s = true ->
  ~ In R_OverlappingFieldsCanBeMerged plan -> exists es, validate s d plan = Ok es.
Proof. exact validate_terminates. Qed.
Print Assumptions C03_terminates.

(* ... and with it whenever the merge rule itself does not exhaust its (generous) fuel; that
   [merge_fuel d] always suffices is NOT proved (see DESIGN.md: C03 partial) *)
Theorem C03_terminates_partial : forall s d plan, wf_schema s = true ->
  r_oof (snd (run_rule R_OverlappingFieldsCanBeMerged s d ctx0)) = false ->
  exists es, validate s d plan = Ok es.
Proof. exact validate_terminates_partial. Qed.
Print Assumptions C03_terminates_partial.

(* the only panic: a schema without a query root object, met by a query operation *)
Theorem C03_panic_exact : forall s d plan,
  validate s d plan = Panic <-> plan <> [] /\ document_panics s d = true.
Proof. exact validate_panic_exact. Qed.
Print Assumptions C03_panic_exact.

Theorem C03_no_panic_when_wf : forall s d, wf_schema s = true -> document_panics s d = false.
Proof. exact wf_no_panic. Qed.
Print Assumptions C03_no_panic_when_wf.

(* C03 — validation always terminates without panic, even on cyclic fragments. *)
From GT Require Import Visitor Validate.
From GTS Require Import Annot WfSchema SpecValid.
From GT Require Import Merge.
From GTP Require Import C03_proofs C03_merge_fuel_proofs C03_merge_fuel_cex C03_merge_fuel_all.

(* Every fuel-bounded walk of the model is given enough fuel: no rule other than the field-merging
   rule ever runs out of fuel, for ANY schema and document (cyclic, unknown names, invalid ...). *)
Theorem C03_no_fuel_exhaustion : forall r s d c,
  r <> R_OverlappingFieldsCanBeMerged -> r_oof (snd (run_rule r s d c)) = false.
Proof. exact no_fuel_exhaustion. Qed.
Print Assumptions C03_no_fuel_exhaustion.

(* validate returns normally (neither Panic nor OutOfFuel) on every well-formed schema and every
   document, for every plan without the field-merging rule ... *)
Theorem C03_terminates : forall s d plan, wf_schema s = true ->
  ~ In R_OverlappingFieldsCanBeMerged plan -> exists es, validate s d plan = Ok es.
Proof. exact validate_terminates. Qed.
Print Assumptions C03_terminates.

(* the field-merging rule never runs out of fuel either, for ANY schema, document (cyclic, unknown
   or duplicate fragments ...) and start context: the model's fuel dominates merge_fuel' d =
   (ng+5)*2*nf^2 + 2*ng^2 + ng + 4, which bounds the nesting depth of the memoised search by a
   measure on (call, memo state).  (The first constant of the model, linear in nf, was too small:
   C03_merge_depth_example; found while proving this.) *)
Theorem C03_merge_no_fuel_exhaustion : forall s d c,
  r_oof (snd (run_rule R_OverlappingFieldsCanBeMerged s d c)) = false.
Proof. exact merge_no_fuel_exhaustion. Qed.
Print Assumptions C03_merge_no_fuel_exhaustion.

(* hence: validate returns normally on every well-formed schema, every document and EVERY plan *)
Theorem C03_terminates_all : forall s d plan, wf_schema s = true -> exists es, validate s d plan = Ok es.
Proof. exact validate_terminates_all. Qed.
Print Assumptions C03_terminates_all.

(* the search of an arbitrary call from an arbitrary (symmetric) memo state needs at most the
   measure mu as nesting depth; more fuel never changes a result *)
Theorem C03_mrun_never_out_of_fuel : forall s d fuel c st,
  cwf d c -> psym (ms_compared st) -> mu d c st <= fuel -> mrun fuel s d c st <> None.
Proof. exact mrun_never_out_of_fuel. Qed.
Print Assumptions C03_mrun_never_out_of_fuel.

Theorem C03_mrun_more_fuel : forall s d fuel fuel' c st r,
  fuel <= fuel' -> mrun fuel s d c st = Some r -> mrun fuel' s d c st = Some r.
Proof. exact mrun_more_fuel. Qed.
Print Assumptions C03_mrun_more_fuel.

(* the depth really is quadratic in the number of fields: one cyclic fragment with two cycles of
   coprime lengths 13 and 12 (25 fields) needs depth exactly 776, more than the first constant 772 *)
Theorem C03_merge_depth_example :
  mrun 775 Cex.sch Cex.cex_doc (CWithinSelectionSet (type_by_name Cex.sch "T") Cex.cex_sels) (mkMS [] [] []) = None /\
  mrun 776 Cex.sch Cex.cex_doc (CWithinSelectionSet (type_by_name Cex.sch "T") Cex.cex_sels) (mkMS [] [] []) <> None.
Proof. exact Cex.cex_depth. Qed.
Print Assumptions C03_merge_depth_example.

(* the only panic: a schema without a query root object, met by a query operation *)
Theorem C03_panic_exact : forall s d plan,
  validate s d plan = Panic <-> plan <> [] /\ document_panics s d = true.
Proof. exact validate_panic_exact. Qed.
Print Assumptions C03_panic_exact.

Theorem C03_no_panic_when_wf : forall s d, wf_schema s = true -> document_panics s d = false.
Proof. exact wf_no_panic. Qed.
Print Assumptions C03_no_panic_when_wf.

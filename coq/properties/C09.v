(* C09 — argument rules fire exactly when the spec condition is violated. *)
From GT Require Import Visitor Validate.
From GTS Require Import Annot WfSchema SpecRules SpecValid.
From GTP Require Import C09_proofs C09_slot_proofs.

Theorem C09_known_argument_names : forall s d, wf_schema s = true ->
  (run_alone R_KnownArgumentNames s d <> [] <-> violated R_KnownArgumentNames s d = true).
Proof. exact known_argument_names_iff. Qed.
Print Assumptions C09_known_argument_names.

(* an error always names the field or directive the argument is actually attached to *)
Theorem C09_owner_named : forall s d e, wf_schema s = true ->
  In e (run_alone R_KnownArgumentNames s d) -> In (e_info e) (unknown_argument_owners s d).
Proof. exact known_argument_names_owner. Qed.
Print Assumptions C09_owner_named.

Theorem C09_unique_argument_names : forall s d, wf_schema s = true ->
  (run_alone R_UniqueArgumentNames s d <> [] <-> violated R_UniqueArgumentNames s d = true).
Proof. exact unique_argument_names_iff. Qed.
Print Assumptions C09_unique_argument_names.

Theorem C09_provided_required_arguments : forall s d, wf_schema s = true ->
  (run_alone R_ProvidedRequiredArguments s d <> [] <-> violated R_ProvidedRequiredArguments s d = true).
Proof. exact provided_required_arguments_iff. Qed.
Print Assumptions C09_provided_required_arguments.

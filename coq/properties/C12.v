(* C12 — validation is pure: deterministic, history-free, thread-safe, backend-neutral.
   In the model validate is a function of (schema, document, plan) by construction; what is
   proved is what that construction relies on: (1) every rule of a plan starts from the initial
   context whatever ran before it, (2) wherever the code iterates a hash container, any other
   iteration order yields a permutation of the same errors. *)
From GT Require Import Visitor Validate.
From Coq Require Import Permutation.
From GTP Require Import RuleFacts PlanFacts C12_proofs C12_viap_proofs.

Theorem C12_history_free : forall r s d c, fst (run_rule r s d c) = c.
Proof. exact run_rule_ctx. Qed.
Print Assumptions C12_history_free.

(* UniqueOperationNames / UniqueFragmentNames: findings_counter.into_iter() *)
Theorem C12_counts_order : forall r st st', Permutation st st' ->
  Permutation (counts_finish r st) (counts_finish r st').
Proof. exact counts_finish_perm. Qed.
Print Assumptions C12_counts_order.

(* UniqueArgumentNames: found_args.iter() *)
Theorem C12_unique_arguments_order : forall p args args', Permutation args args' ->
  Permutation (uan_errors p args) (uan_errors p args').
Proof. exact uan_errors_perm. Qed.
Print Assumptions C12_unique_arguments_order.

(* NoUnusedVariables / NoUndefinedVariables: iteration over defined_variables (outer map) *)
Theorem C12_unused_variables_order : forall d st defs', Permutation (vs_defined st) defs' ->
  Permutation (r_errors (nuv_finish d st))
              (r_errors (nuv_finish d (mkVars (vs_scope st) defs' (vs_seen st) (vs_used st) (vs_spreads st)))).
Proof. exact nuv_finish_perm. Qed.
Print Assumptions C12_unused_variables_order.

Theorem C12_undefined_variables_order : forall d st defs', Permutation (vs_defined st) defs' ->
  Permutation (r_errors (nudv_finish d st))
              (r_errors (nudv_finish d (mkVars (vs_scope st) defs' (vs_seen st) (vs_used st) (vs_spreads st)))).
Proof. exact nudv_finish_perm. Qed.
Print Assumptions C12_undefined_variables_order.

(* NoUnusedFragments: iteration over known_fragments *)
Theorem C12_unused_fragments_order : forall in_use names names', Permutation names names' ->
  Permutation (flat_map (fun n => if mem_name n in_use then [] else [err R_NoUnusedFragments []]) names)
              (flat_map (fun n => if mem_name n in_use then [] else [err R_NoUnusedFragments []]) names').
Proof. exact nuf_finish_perm. Qed.
Print Assumptions C12_unused_fragments_order.

(* VariablesInAllowedPosition: the spreads of a scope are a HashSet; enumerating every such set in
   another order makes the depth-first walk visit the fragments in another order, yet (with the
   fuel the model supplies) neither run is out of fuel and the reported errors are a permutation *)
Theorem C12_allowed_position_order : forall s d st spreads',
  spreads_permuted (vp_spreads st) spreads' ->
  List.length (vp_spreads st) < vars_fuel d ->
  let st' := mkViap spreads' (vp_usages st) (vp_defs st) (vp_scope st) (vp_seen st) (vp_directive st)
                    (vp_objects st) (vp_defaults st) in
  r_oof (viap_finish s d st) = false /\ r_oof (viap_finish s d st') = false /\
  Permutation (r_errors (viap_finish s d st)) (r_errors (viap_finish s d st')).
Proof. exact viap_finish_spreads_perm_fuel. Qed.
Print Assumptions C12_allowed_position_order.

(* C04 — field-selection rules fire exactly when the spec condition is violated. *)
From GT Require Import Visitor Validate.
From GTS Require Import Annot WfSchema PoolSchemas SpecRules SpecValid.
From GTP Require Import C04_proofs.

Theorem C04_fields_on_correct_type : forall s d, wf_schema s = true ->
  (run_alone R_FieldsOnCorrectType s d <> [] <-> violated R_FieldsOnCorrectType s d = true).
Proof. exact fields_on_correct_type_iff. Qed.
Print Assumptions C04_fields_on_correct_type.

Theorem C04_leaf_field_selections : forall s d, wf_schema s = true ->
  (run_alone R_LeafFieldSelections s d <> [] <-> violated R_LeafFieldSelections s d = true).
Proof. exact leaf_field_selections_iff. Qed.
Print Assumptions C04_leaf_field_selections.

(* every error carries the reporting rule's own code *)
Theorem C04_codes : forall s d e,
  (In e (run_alone R_FieldsOnCorrectType s d) -> e_rule e = R_FieldsOnCorrectType) /\
  (In e (run_alone R_LeafFieldSelections s d) -> e_rule e = R_LeafFieldSelections).
Proof. exact c04_codes. Qed.
Print Assumptions C04_codes.

(* `__typename` at the root of a subscription, on a schema WITHOUT a subscription root type (pool_minimal:
   the object types Query and T), so that FieldsOnCorrectType is the only rule to object.  The rule reports
   the field when it is a direct child of the operation and also when it sits inside inline fragments
   without a type condition (they select on the same type): one error per such field, located at the
   operation.  Inline fragments WITH a type condition are not looked through.
     subscription { __typename }                          reported
     subscription { ... { __typename } }                  reported
     subscription { ... { ... { __typename } } __typename }   reported twice
     subscription { ... on T { __typename } }             not reported *)
Definition st_pos : pos := (1%N, 1%N).
Definition st_span : span := (st_pos, st_pos).
Definition st_typename : selection := SField (2%N, 3%N) None "__typename" [] [] st_span [].
Definition st_inline (tc : option name) (l : list selection) : selection := SInline (2%N, 2%N) tc [] st_span l.
Definition st_doc (l : list selection) : document := [DOp (mkOperation OpSubscription st_pos None [] [] st_span l)].

Example C04_subscription_root_typename :
  match pool_minimal with
  | Some s =>
      wf_schema s = true /\ root s OpSubscription = None /\
      run_alone R_FieldsOnCorrectType s (st_doc [st_typename]) <> [] /\
      run_alone R_FieldsOnCorrectType s (st_doc [st_inline None [st_typename]]) <> [] /\
      run_alone R_FieldsOnCorrectType s (st_doc [st_inline (Some "T") [st_typename]]) = [] /\
      (* the same, in full *)
      run_alone R_FieldsOnCorrectType s (st_doc [st_typename]) = [err R_FieldsOnCorrectType [st_pos]] /\
      run_alone R_FieldsOnCorrectType s (st_doc [st_inline None [st_typename]]) = [err R_FieldsOnCorrectType [st_pos]] /\
      run_alone R_FieldsOnCorrectType s (st_doc [st_inline None [st_inline None [st_typename]]; st_typename]) =
        [err R_FieldsOnCorrectType [st_pos]; err R_FieldsOnCorrectType [st_pos]] /\
      (* the specification agrees *)
      violated R_FieldsOnCorrectType s (st_doc [st_typename]) = true /\
      violated R_FieldsOnCorrectType s (st_doc [st_inline None [st_typename]]) = true /\
      violated R_FieldsOnCorrectType s (st_doc [st_inline (Some "T") [st_typename]]) = false
  | None => False
  end.
Proof. vm_compute. repeat split; discriminate. Qed.
Print Assumptions C04_subscription_root_typename.

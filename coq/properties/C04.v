(* C04 — field-selection rules fire exactly when the spec condition is violated. *)
From GT Require Import Visitor Validate.
From GTS Require Import Annot WfSchema SpecRules SpecValid.
From GTP Require Import C04_proofs.

Theorem C04_fields_on_correct_type : forall s d, wf_schema s = true ->
  (run_alone R_FieldsOnCorrectType s d <> [] <-> violated R_FieldsOnCorrectType s d = true).
Proof. exact fields_on_correct_type_iff. Qed.
Print Assumptions C04_fields_on_correct_type.

Theorem C04_leaf_field_selections : forall s d, wf_schema s = true ->
  (run_alone R_LeafFieldSelections s d <> [] <-> violated R_LeafFieldSelections s d = true).
Proof. exact leaf_field_selections_iff. Qed.
Print Assumptions C04_leaf_field_selections.

(* every error carries the reporting rule's own code *)
Theorem C04_codes : forall s d e,
  (In e (run_alone R_FieldsOnCorrectType s d) -> e_rule e = R_FieldsOnCorrectType) /\
  (In e (run_alone R_LeafFieldSelections s d) -> e_rule e = R_LeafFieldSelections).
Proof. exact c04_codes. Qed.
Print Assumptions C04_codes.

(* C01 — spec-valid operations are accepted by the default rule plan. *)
From GT Require Import Visitor Validate.
From GTS Require Import Annot WfSchema SpecRules SpecValid.
From GTP Require Import C07_position_proofs C01_proofs C01_C02_full_proofs.

(* The full statement as first written (kept visible).  As written it is FALSE, see
   C01_needs_const_defaults. *)
Definition C01_statement : Prop := forall s d,
  wf_schema s = true -> doc_types_proper d = true -> spec_valid s d = true ->
  validate s d default_plan = Ok [].

(* ADJUSTED: one additional hypothesis, [defaults_const d] (C07_position_proofs.v): no variable
   occurs inside the default value of a variable definition (the grammar's
   DefaultValue : = Value[Const]; the AST of the model can express it).  The model's
   VariablesInAllowedPosition checks such an occurrence as a variable usage, the specification does
   not; C01_needs_const_defaults is the counterexample. *)

(* What is proved: C01_statement with that hypothesis and nothing else — for ALL 23 rules of the
   default plan, the field-merging rule included, on documents with named fragment spreads of any
   nesting.  Ingredients for the merge rule: a spec-valid document is in the rule's scope
   (UniqueFragmentNames, NoFragmentsCycle and UniqueArgumentNames are not violated); every conflict
   the rule reports is a violation of its specification (C05: merge_sound_acyclic; soundness needs
   neither distinct positions nor known inline type conditions); the rule never exhausts its fuel
   (C03: merge_no_fuel_exhaustion). *)
Theorem C01_accepts_valid : forall s d,
  wf_schema s = true -> doc_types_proper d = true -> defaults_const d = true ->
  spec_valid s d = true ->
  validate s d default_plan = Ok [].
Proof. exact spec_valid_accepted_full. Qed.
Print Assumptions C01_accepts_valid.

(* rule by rule: every rule is sound on its own, it reports nothing on a spec-valid document
   (constant default values are needed for VariablesInAllowedPosition only) *)
Theorem C01_every_rule_sound : forall s d r,
  wf_schema s = true -> doc_types_proper d = true -> spec_valid s d = true ->
  (r = R_VariablesInAllowedPosition -> defaults_const d = true) ->
  run_alone r s d = [].
Proof. exact spec_valid_rule_silent_full. Qed.
Print Assumptions C01_every_rule_sound.

(* ---- the earlier, weaker forms (they stay true; superseded by the two theorems above) ---- *)
(* the verdict of the field-merging rule as a hypothesis *)
Theorem C01_partial : forall s d,
  wf_schema s = true -> doc_types_proper d = true -> defaults_const d = true ->
  spec_valid s d = true ->
  snd (run_rule R_OverlappingFieldsCanBeMerged s d ctx0) = mkRes [] false ->
  validate s d default_plan = Ok [].
Proof. exact spec_valid_accepted. Qed.
Print Assumptions C01_partial.

(* every rule other than field merging *)
Theorem C01_rules_sound : forall s d r,
  wf_schema s = true -> doc_types_proper d = true -> spec_valid s d = true ->
  r <> R_OverlappingFieldsCanBeMerged ->
  (r = R_VariablesInAllowedPosition -> defaults_const d = true) ->
  run_alone r s d = [].
Proof. exact spec_valid_rule_silent. Qed.
Print Assumptions C01_rules_sound.

(* without [defaults_const] the statement is false:
   query Q($a: Int = $b, $b: String) { f(x: $a, y: $b) } on type Query { f(x: Int, y: String): Int } *)
Theorem C01_needs_const_defaults :
  wf_schema c01_cex_schema = true /\ doc_types_proper c01_cex_doc = true /\
  spec_valid c01_cex_schema c01_cex_doc = true /\
  snd (run_rule R_OverlappingFieldsCanBeMerged c01_cex_schema c01_cex_doc ctx0) = mkRes [] false /\
  run_alone R_VariablesInAllowedPosition c01_cex_schema c01_cex_doc <> [] /\
  validate c01_cex_schema c01_cex_doc default_plan <> Ok [] /\
  defaults_const c01_cex_doc = false.
Proof. exact c01_needs_const_defaults. Qed.
Print Assumptions C01_needs_const_defaults.

Theorem C01_statement_refuted : ~ C01_statement.
Proof.
  intro H. destruct c01_needs_const_defaults as [H1 [H2 [H3 [_ [_ [H4 _]]]]]].
  exact (H4 (H _ _ H1 H2 H3)).
Qed.
Print Assumptions C01_statement_refuted.

(* non-vacuity: { t { ...F } } fragment F on T { a b } over pool_minimal satisfies all hypotheses
   of C01_accepts_valid *)
Theorem C01_non_vacuous :
  wf_schema nv_schema = true /\ doc_types_proper nv_valid_doc = true /\
  defaults_const nv_valid_doc = true /\ spec_valid nv_schema nv_valid_doc = true.
Proof. exact nv_valid_hyps. Qed.
Print Assumptions C01_non_vacuous.

(* C01 — spec-valid operations are accepted by the default rule plan. *)
From GT Require Import Visitor Validate.
From GTS Require Import Annot WfSchema SpecRules SpecValid.
From GTP Require Import C07_position_proofs C01_proofs.

(* The full statement (kept visible).  As written it is FALSE, see C01_needs_const_defaults. *)
Definition C01_statement : Prop := forall s d,
  wf_schema s = true -> doc_types_proper d = true -> spec_valid s d = true ->
  validate s d default_plan = Ok [].

(* ADJUSTED: additional hypothesis [defaults_const d] (C07_position_proofs.v): no variable occurs
   inside the default value of a variable definition (the grammar's DefaultValue : = Value[Const];
   the AST of the model can express it).  The model's VariablesInAllowedPosition checks such an
   occurrence as a variable usage, the specification does not. *)

(* What is proved: the same with the soundness of the field-merging rule as a hypothesis (C05 is
   partial: the merge rule's verdict is proved against its specification only for documents
   without named fragment spreads) *)
Theorem C01_partial : forall s d,
  wf_schema s = true -> doc_types_proper d = true -> defaults_const d = true ->
  spec_valid s d = true ->
  snd (run_rule R_OverlappingFieldsCanBeMerged s d ctx0) = mkRes [] false ->
  validate s d default_plan = Ok [].
Proof. exact spec_valid_accepted. Qed.
Print Assumptions C01_partial.

(* every other rule is sound on its own: it reports nothing on a spec-valid document
   (constant default values are needed for VariablesInAllowedPosition only) *)
Theorem C01_rules_sound : forall s d r,
  wf_schema s = true -> doc_types_proper d = true -> spec_valid s d = true ->
  r <> R_OverlappingFieldsCanBeMerged ->
  (r = R_VariablesInAllowedPosition -> defaults_const d = true) ->
  run_alone r s d = [].
Proof. exact spec_valid_rule_silent. Qed.
Print Assumptions C01_rules_sound.

(* without [defaults_const] both statements are false:
   query Q($a: Int = $b, $b: String) { f(x: $a, y: $b) } on type Query { f(x: Int, y: String): Int } *)
Theorem C01_needs_const_defaults :
  wf_schema c01_cex_schema = true /\ doc_types_proper c01_cex_doc = true /\
  spec_valid c01_cex_schema c01_cex_doc = true /\
  snd (run_rule R_OverlappingFieldsCanBeMerged c01_cex_schema c01_cex_doc ctx0) = mkRes [] false /\
  run_alone R_VariablesInAllowedPosition c01_cex_schema c01_cex_doc <> [] /\
  validate c01_cex_schema c01_cex_doc default_plan <> Ok [] /\
  defaults_const c01_cex_doc = false.
Proof. exact c01_needs_const_defaults. Qed.
Print Assumptions C01_needs_const_defaults.

(* placeholder until the composition theorems are in place *)
From GT Require Import Validate.
Example C01_pending : True. Proof. exact I. Qed.
Print Assumptions C01_pending.

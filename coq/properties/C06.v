(* C06 — fragment rules fire exactly when the spec condition is violated. *)
From GT Require Import Visitor Validate.
From GTS Require Import Annot WfSchema SpecRules SpecValid.
From GTP Require Import C06_proofs C06_graph_proofs.

Theorem C06_unique_fragment_names : forall s d,
  (run_alone R_UniqueFragmentNames s d <> [] <-> violated R_UniqueFragmentNames s d = true).
Proof. exact unique_fragment_names_iff. Qed.
Print Assumptions C06_unique_fragment_names.

Theorem C06_known_fragment_names : forall s d,
  (run_alone R_KnownFragmentNames s d <> [] <-> violated R_KnownFragmentNames s d = true).
Proof. exact known_fragment_names_iff. Qed.
Print Assumptions C06_known_fragment_names.

Theorem C06_known_type_names : forall s d,
  (run_alone R_KnownTypeNames s d <> [] <-> violated R_KnownTypeNames s d = true).
Proof. exact known_type_names_iff. Qed.
Print Assumptions C06_known_type_names.

Theorem C06_fragments_on_composite_types : forall s d,
  (run_alone R_FragmentsOnCompositeTypes s d <> [] <-> violated R_FragmentsOnCompositeTypes s d = true).
Proof. exact fragments_on_composite_iff. Qed.
Print Assumptions C06_fragments_on_composite_types.

Theorem C06_possible_fragment_spreads : forall s d, wf_schema s = true -> distinct_fragments d = true ->
  (run_alone R_PossibleFragmentSpreads s d <> [] <-> violated R_PossibleFragmentSpreads s d = true).
Proof. exact possible_fragment_spreads_iff. Qed.
Print Assumptions C06_possible_fragment_spreads.

Theorem C06_no_unused_fragments : forall s d, distinct_fragments d = true ->
  (run_alone R_NoUnusedFragments s d <> [] <-> violated R_NoUnusedFragments s d = true).
Proof. exact no_unused_fragments_iff. Qed.
Print Assumptions C06_no_unused_fragments.

Theorem C06_no_fragment_cycles : forall s d, distinct_fragments d = true ->
  (run_alone R_NoFragmentsCycle s d <> [] <-> violated R_NoFragmentsCycle s d = true).
Proof. exact no_fragment_cycles_iff. Qed.
Print Assumptions C06_no_fragment_cycles.

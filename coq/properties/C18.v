(* C18 — type-system and value helpers agree with the specification's definitions. *)
From GT Require Import Ext Visitor.
From GTS Require Import Annot WfSchema SpecTypes.
From GTP Require Import C18_proofs.

(* ---- name look-ups: the definition with that name iff one exists ---- *)
Theorem C18_type_by_name : forall s n t, wf_schema s = true ->
  (type_by_name s n = Some t <-> defines s t /\ td_name t = n).
Proof. exact type_by_name_spec. Qed.
Print Assumptions C18_type_by_name.

Theorem C18_type_by_name_none : forall s n,
  type_by_name s n = None <-> (forall t, defines s t -> td_name t <> n).
Proof. exact type_by_name_none_spec. Qed.
Print Assumptions C18_type_by_name_none.

Theorem C18_directive_by_name : forall s n x, wf_schema s = true ->
  (directive_by_name s n = Some x <-> In (SDDirective x) s /\ dd_name x = n).
Proof. exact directive_by_name_spec. Qed.
Print Assumptions C18_directive_by_name.

Theorem C18_field_by_name : forall s t n f, wf_schema s = true -> defines s t ->
  (field_by_name t n = Some f <->
   fd_name f = n /\ match t with TDObject _ _ fs | TDInterface _ _ fs => In f fs | _ => False end).
Proof. exact field_by_name_spec. Qed.
Print Assumptions C18_field_by_name.

Theorem C18_input_field_by_name : forall s t n f, wf_schema s = true -> defines s t ->
  (input_field_by_name t n = Some f <->
   iv_name f = n /\ match t with TDInputObject _ fs => In f fs | _ => False end).
Proof. exact input_field_by_name_spec. Qed.
Print Assumptions C18_input_field_by_name.

Theorem C18_type_map : forall s n, wf_schema s = true -> type_map_get s n = type_by_name s n.
Proof. exact type_map_get_spec. Qed.
Print Assumptions C18_type_map.

(* ---- root operation types: the schema definition's entries, else Query/Mutation/Subscription ---- *)
Theorem C18_roots : forall s, wf_schema s = true ->
  query_type s = root s OpQuery /\ mutation_type s = root s OpMutation /\
  subscription_type s = root s OpSubscription.
Proof. exact roots_spec. Qed.
Print Assumptions C18_roots.

(* ---- subtyping ---- *)
Theorem C18_is_subtype : forall s a b, wf_schema s = true ->
  (is_subtype s a b = true <-> subtype_spec s a b).
Proof. exact is_subtype_spec. Qed.
Print Assumptions C18_is_subtype.

Theorem C18_subtype_refl : forall s a, is_subtype s a a = true.
Proof. exact is_subtype_refl. Qed.
Print Assumptions C18_subtype_refl.

Theorem C18_subtype_trans : forall s a b c, wf_schema s = true ->
  is_subtype s a b = true -> is_subtype s b c = true -> is_subtype s a c = true.
Proof. exact is_subtype_trans. Qed.
Print Assumptions C18_subtype_trans.

Theorem C18_named_subtype : forall s x y, wf_schema s = true ->
  (is_named_subtype s x y = true <-> x = y \/ member_or_implementer s x y).
Proof. exact is_named_subtype_spec. Qed.
Print Assumptions C18_named_subtype.

(* ---- possible types and overlap ---- *)
Theorem C18_possible_types : forall s t o, wf_schema s = true -> defines s t ->
  (In o (possible_types s t) <-> possible_object s t o).
Proof. exact possible_types_spec. Qed.
Print Assumptions C18_possible_types.

Theorem C18_overlap : forall s a b, wf_schema s = true -> defines s a -> defines s b ->
  td_is_composite a = true -> td_is_composite b = true ->
  (do_types_overlap s a b = true <-> overlap_spec s a b).
Proof. exact do_types_overlap_spec. Qed.
Print Assumptions C18_overlap.

Theorem C18_overlap_sym : forall s a b, wf_schema s = true -> defines s a -> defines s b ->
  td_is_composite a = true -> td_is_composite b = true ->
  do_types_overlap s a b = do_types_overlap s b a.
Proof. exact do_types_overlap_sym. Qed.
Print Assumptions C18_overlap_sym.

(* ---- values ---- *)
Theorem C18_value_compare : forall a b, value_compare a b = true <-> value_eq a b.
Proof. exact value_compare_spec. Qed.
Print Assumptions C18_value_compare.

Theorem C18_variables_in_use : forall v x, In x (variables_in_use v) <-> var_leaf x v.
Proof. exact variables_in_use_spec. Qed.
Print Assumptions C18_variables_in_use.

Theorem C18_is_required : forall iv,
  iv_is_required iv = true <-> is_non_null (iv_type iv) = true /\ iv_default iv = None.
Proof. exact iv_is_required_spec. Qed.
Print Assumptions C18_is_required.

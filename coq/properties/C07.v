(* C07 — variable rules fire exactly when the spec condition is violated. *)
From GT Require Import Visitor Validate.
From GTS Require Import Annot WfSchema SpecRules SpecValues SpecValid.
From GTP Require Import C07_proofs C07_graph_proofs.

Theorem C07_unique_variable_names : forall s d,
  (run_alone R_UniqueVariableNames s d <> [] <-> violated R_UniqueVariableNames s d = true).
Proof. exact unique_variable_names_iff. Qed.
Print Assumptions C07_unique_variable_names.

Theorem C07_variables_are_input_types : forall s d,
  (run_alone R_VariablesAreInputTypes s d <> [] <-> violated R_VariablesAreInputTypes s d = true).
Proof. exact variables_are_input_types_iff. Qed.
Print Assumptions C07_variables_are_input_types.

(* the decision core, for ALL types the grammar can express (any wrapper depth, no "T!!" at the
   location): the rule's effective-type comparison is the specification's IsVariableUsageAllowed,
   on input types of a well-formed schema.
   Without [ty_proper lt] the equation is false: with lt = TNonNull (TNonNull (TNamed "Int")),
   ld = true, v_type = TNamed "Int" and a non-null default (or v_type = TNonNull (TNamed "Int")),
   the rule accepts (is_subtype Int! Int! = true) and the specification rejects
   (AreTypesCompatible Int Int! = false). *)
Theorem C07_allowed_core : forall s vd lt ld, wf_schema s = true ->
  is_input_named s (inner_type (v_type vd)) = true -> is_input_named s (inner_type lt) = true ->
  ty_proper lt = true ->
  is_subtype s (effective_var_type vd) (effective_location_type lt ld)
  = is_variable_usage_allowed (v_type vd) (v_default vd) lt ld.
Proof. exact allowed_core. Qed.
Print Assumptions C07_allowed_core.

(* the same under the weakest side condition: only "T!!" at a location WITH a default is excluded *)
Theorem C07_allowed_core_weak : forall s vd lt ld, wf_schema s = true ->
  is_input_named s (inner_type (v_type vd)) = true -> is_input_named s (inner_type lt) = true ->
  (ld && double_non_null lt) = false ->
  is_subtype s (effective_var_type vd) (effective_location_type lt ld)
  = is_variable_usage_allowed (v_type vd) (v_default vd) lt ld.
Proof. exact allowed_core_weak. Qed.
Print Assumptions C07_allowed_core_weak.

Theorem C07_no_undefined_variables : forall s d, distinct_fragments d = true -> distinct_operations d = true ->
  (run_alone R_NoUndefinedVariables s d <> [] <-> violated R_NoUndefinedVariables s d = true).
Proof. exact no_undefined_variables_iff. Qed.
Print Assumptions C07_no_undefined_variables.

Theorem C07_no_unused_variables : forall s d, distinct_fragments d = true -> distinct_operations d = true ->
  (run_alone R_NoUnusedVariables s d <> [] <-> violated R_NoUnusedVariables s d = true).
Proof. exact no_unused_variables_iff. Qed.
Print Assumptions C07_no_unused_variables.

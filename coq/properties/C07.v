(* C07 — variable rules fire exactly when the spec condition is violated. *)
From GT Require Import Visitor Validate.
From GTS Require Import Annot WfSchema SpecRules SpecValues SpecValid PoolSchemas.
From GTP Require Import C07_proofs C07_graph_proofs C07_position_proofs.

Theorem C07_unique_variable_names : forall s d,
  (run_alone R_UniqueVariableNames s d <> [] <-> violated R_UniqueVariableNames s d = true).
Proof. exact unique_variable_names_iff. Qed.
Print Assumptions C07_unique_variable_names.

Theorem C07_variables_are_input_types : forall s d,
  (run_alone R_VariablesAreInputTypes s d <> [] <-> violated R_VariablesAreInputTypes s d = true).
Proof. exact variables_are_input_types_iff. Qed.
Print Assumptions C07_variables_are_input_types.

(* the decision core, for ALL types the grammar can express (any wrapper depth, no "T!!" at the
   location): the rule's effective-type comparison is the specification's IsVariableUsageAllowed,
   on input types of a well-formed schema.
   Without [ty_proper lt] the equation is false: with lt = TNonNull (TNonNull (TNamed "Int")),
   ld = true, v_type = TNamed "Int" and a non-null default (or v_type = TNonNull (TNamed "Int")),
   the rule accepts (is_subtype Int! Int! = true) and the specification rejects
   (AreTypesCompatible Int Int! = false). *)
Theorem C07_allowed_core : forall s vd lt ld, wf_schema s = true ->
  is_input_named s (inner_type (v_type vd)) = true -> is_input_named s (inner_type lt) = true ->
  ty_proper lt = true ->
  is_subtype s (effective_var_type vd) (effective_location_type lt ld)
  = is_variable_usage_allowed (v_type vd) (v_default vd) lt ld.
Proof. exact allowed_core. Qed.
Print Assumptions C07_allowed_core.

(* the same under the weakest side condition: only "T!!" at a location WITH a default is excluded *)
Theorem C07_allowed_core_weak : forall s vd lt ld, wf_schema s = true ->
  is_input_named s (inner_type (v_type vd)) = true -> is_input_named s (inner_type lt) = true ->
  (ld && double_non_null lt) = false ->
  is_subtype s (effective_var_type vd) (effective_location_type lt ld)
  = is_variable_usage_allowed (v_type vd) (v_default vd) lt ld.
Proof. exact allowed_core_weak. Qed.
Print Assumptions C07_allowed_core_weak.

(* NoUndefinedVariables / NoUnusedVariables / VariablesInAllowedPosition key the tables of an
   operation by (index of the operation in the document, name): the equivalences hold for every
   document, also when operations share a name or several are anonymous (no hypothesis on the
   names of operations) *)
Theorem C07_no_undefined_variables : forall s d, distinct_fragments d = true ->
  (run_alone R_NoUndefinedVariables s d <> [] <-> violated R_NoUndefinedVariables s d = true).
Proof. exact no_undefined_variables_iff. Qed.
Print Assumptions C07_no_undefined_variables.

Theorem C07_no_unused_variables : forall s d, distinct_fragments d = true ->
  (run_alone R_NoUnusedVariables s d <> [] <-> violated R_NoUnusedVariables s d = true).
Proof. exact no_unused_variables_iff. Qed.
Print Assumptions C07_no_unused_variables.

(* the rule: some variable is used, in the operation or in a transitively spread fragment, at a
   position where IsVariableUsageAllowed fails for the operation's definition of it.
   [defaults_const d] (C07_position_proofs): no variable occurs inside the default value of a
   variable definition (DefaultValue : = Value[Const] in the grammar; the parser cannot produce
   one).  Without it the equivalence is false (C07_position_needs_const_defaults): the rule also
   records the variables met inside default values, as usages at the declared type of the
   variable being defined, e.g.  query Q($a: Int = $b, $b: String) { f }  is reported.
   The hypotheses [doc_types_proper d], [distinct_fragments d] and
   [negb (violated R_VariablesAreInputTypes s d)] are not
   used by the proof (only the location type has to be an input type, which the well-formed
   schema guarantees; a variable of unknown or non-input type is judged alike by both sides). *)
Theorem C07_variables_in_allowed_position : forall s d,
  wf_schema s = true -> doc_types_proper d = true ->
  distinct_fragments d = true ->
  negb (violated R_VariablesAreInputTypes s d) = true ->
  defaults_const d = true ->
  (run_alone R_VariablesInAllowedPosition s d <> [] <-> violated R_VariablesInAllowedPosition s d = true).
Proof. exact variables_in_allowed_position_iff. Qed.
Print Assumptions C07_variables_in_allowed_position.

(* the same with the hypotheses the proof uses only *)
Theorem C07_variables_in_allowed_position_core : forall s d,
  wf_schema s = true -> defaults_const d = true ->
  (run_alone R_VariablesInAllowedPosition s d <> [] <-> violated R_VariablesInAllowedPosition s d = true).
Proof. exact variables_in_allowed_position_core. Qed.
Print Assumptions C07_variables_in_allowed_position_core.

(* ([distinct_operations cex_doc] is no hypothesis of the theorem any more; it is kept here as a
   fact about the counterexample: one named operation) *)
Theorem C07_position_needs_const_defaults :
  wf_schema cex_schema = true /\ doc_types_proper cex_doc = true /\
  distinct_fragments cex_doc = true /\ distinct_operations cex_doc = true /\
  negb (violated R_VariablesAreInputTypes cex_schema cex_doc) = true /\
  run_alone R_VariablesInAllowedPosition cex_schema cex_doc <> [] /\
  violated R_VariablesInAllowedPosition cex_schema cex_doc = false.
Proof. exact position_needs_const_defaults. Qed.
Print Assumptions C07_position_needs_const_defaults.

(* the repaired behaviour on the witness of the defect: two ANONYMOUS operations, the first defines
   and uses $v, the second has no variables:
       query ($v: Int) { t(x: $v) { a } }   { a }
   on schema pool_minimal.  Each operation has its own table (keys (0, None) and (1, None)):
   NoUndefinedVariables run alone reports nothing, as the specification says.  (With the tables
   keyed by name only, entering the second operation emptied the table of the first, whose use
   of $v was then reported as undefined.)  The same holds with the operations in the other order,
   and for NoUnusedVariables. *)
Definition w_pos : pos := (0%N, 0%N).
Definition w_span : span := (w_pos, w_pos).
Definition w_leaf : selection := SField w_pos None "a" [] [] w_span [].
Definition w_op_with_var : definition :=
  DOp (mkOperation OpQuery w_pos None [mkVardef w_pos "v" (TNamed "Int") None] [] w_span
         [SField w_pos None "t" [("x", VVar "v")] [] w_span [w_leaf]]).
Definition w_op_plain : definition := DOp (mkOperation OpQuery w_pos None [] [] w_span [w_leaf]).
Definition w_doc : document := [w_op_with_var; w_op_plain].
Definition w_doc_rev : document := [w_op_plain; w_op_with_var].

Example C07_anonymous_operations_have_their_own_tables :
  match pool_minimal with
  | Some s =>
      distinct_operations w_doc = false /\ distinct_fragments w_doc = true /\
      run_alone R_NoUndefinedVariables s w_doc = [] /\
      violated R_NoUndefinedVariables s w_doc = false /\
      run_alone R_NoUndefinedVariables s w_doc_rev = [] /\
      run_alone R_NoUnusedVariables s w_doc = [] /\
      run_alone R_NoUnusedVariables s w_doc_rev = [] /\
      violated R_NoUnusedVariables s w_doc = false
  | None => False
  end.
Proof. vm_compute. repeat split. Qed.
Print Assumptions C07_anonymous_operations_have_their_own_tables.

(* C15 — visitors enter/leave every AST node exactly once, nested, in list order.
   (statements only; proofs live in coq/proofs) *)
From GT Require Import Visitor.
Example C15_placeholder : True. Proof. exact I. Qed.
Print Assumptions C15_placeholder.

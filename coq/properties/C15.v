(* C15 — visitors enter/leave every AST node exactly once, nested, in list order.
   Statements only; every proof is one [exact] of a lemma from coq/proofs. *)
From GT Require Import Visitor SchemaVisitor Sexp.
From GTS Require Import SpecLin PoolSchemas.
From GTP Require Import VisitorFacts TraceFacts.

(* The callback sequence of the operation visitor is the structural linearisation of the
   document, for EVERY schema (so also one that knows none of the names) and every document. *)
Theorem C15_events : forall (s : sdocument) (d : document),
  map fst (trace s d) = lin_document d.
Proof. intros s d. rewrite trace_eq. exact (ctr_document_events s d ctx0). Qed.
Print Assumptions C15_events.

(* That linearisation is properly nested: blocks  Enter n · (children, in list order) · Leave n. *)
Theorem C15_nested : forall d : document, Nested (lin_document d).
Proof. exact Nested_document. Qed.
Print Assumptions C15_nested.

(* A visitor with any handler and any user state sees exactly the trace: the traversal is the
   fold of the handler over it (the handler gets each callback once, in trace order). *)
Theorem C15_fold_fusion : forall St (h : St -> event -> ctx -> St) s d c st,
  snd (visit_document h s d c st)
  = fold_left (fun st ec => h st (fst ec) (snd ec)) (snd (tr_document s d c)) st.
Proof.
  intros St h s d c st. rewrite tr_document_eq, (visit_document_fusion h s d c st). reflexivity.
Qed.
Print Assumptions C15_fold_fusion.

(* Schema visitor: same guarantee for schema documents without type extensions ... *)
Theorem C15_schema : forall sd : sdocument,
  no_extensions sd = true -> visit_schema_document sd = Some (lin_schema sd).
Proof. exact visit_schema_document_lin. Qed.
Print Assumptions C15_schema.

(* ... and the only failure (the panic) is a type extension. *)
Theorem C15_schema_panic_exact : forall sd : sdocument,
  no_extensions sd = false -> visit_schema_document sd = None.
Proof. exact visit_schema_document_panics. Qed.
Print Assumptions C15_schema_panic_exact.

(* non-vacuity: a pool schema has no extensions *)
Example C15_schema_example : opt_map no_extensions pool_crate = Some true.
Proof. vm_compute. reflexivity. Qed.
Print Assumptions C15_schema_example.

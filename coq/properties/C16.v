(* C16 — visitors enter/leave every AST node exactly once, nested, in list order.
   (statements only; proofs live in coq/proofs) *)
From GT Require Import Visitor.
Example C16_placeholder : True. Proof. exact I. Qed.
Print Assumptions C16_placeholder.

(* C16 — the visitor context reports the schema type of every position correctly.
   Statements only; every proof is one [exact]/rewrite of lemmas from coq/proofs. *)
From GT Require Import Visitor Sexp.
From GTS Require Import Annot WfSchema PoolSchemas.
From GTP Require Import VisitorFacts TraceFacts.

(* At every callback the six context answers are exactly what the environment-passing
   specification [annot] prescribes for that position (absent where it prescribes nothing). *)
Theorem C16_context : forall (s : sdocument) (d : document),
  wf_schema s = true ->
  map (fun ec : event * ctx => (fst ec, answers_of (snd ec))) (trace s d) = annot s d.
Proof.
  intros s d Hwf. rewrite trace_eq.
  exact (ctr_document_answers s (wf_query_entry_ok s Hwf) d).
Qed.
Print Assumptions C16_context.

(* All six stacks are restored by the walk: for every visitor, user state and start context. *)
Theorem C16_balanced : forall St (h : St -> event -> ctx -> St) s d c st,
  fst (visit_document h s d c st) = c.
Proof. intros St h s d c st. rewrite (visit_document_fusion h s d c st). reflexivity. Qed.
Print Assumptions C16_balanced.

(* non-vacuity of the hypothesis: the pool schemas (the crate's own test schema, implicit root
   names, an explicit query-only schema definition) are well-formed *)
Example C16_wf_examples :
  (opt_map wf_schema pool_crate, opt_map wf_schema pool_implicit,
   opt_map wf_schema pool_explicit_query_only) = (Some true, Some true, Some true).
Proof. vm_compute. reflexivity. Qed.
(* ... and so are the others the correspondence run validates against: a schema without
   declarations of @skip / @include, the pets schema, the one-type schema, the synthetic schema
   of the bounded-exhaustive families, the schema with decoy root names and the one with an
   unimplemented interface; the schema that knows nothing is not (it is used by the
   traversal properties only) *)
Example C16_wf_examples_more :
  (opt_map wf_schema pool_plain, opt_map wf_schema pool_pets, opt_map wf_schema pool_minimal,
   opt_map wf_schema pool_synthetic, opt_map wf_schema pool_decoy, opt_map wf_schema pool_lonely)
  = (Some true, Some true, Some true, Some true, Some true, Some true).
Proof. vm_compute. reflexivity. Qed.
(* the schema whose names are prefixes of one another, and the one that declares the meta fields *)
Example C16_wf_examples_names :
  (opt_map wf_schema pool_prefixes, opt_map wf_schema pool_introspective) = (Some true, Some true).
Proof. vm_compute. reflexivity. Qed.
Print Assumptions C16_wf_examples_names.
Print Assumptions C16_wf_examples_more.
Print Assumptions C16_wf_examples.

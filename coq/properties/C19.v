(* C19 — collect_fields implements the spec's CollectFields. *)
From GT Require Import Visitor CollectFields Validate.
From GTS Require Import Annot WfSchema SpecRules SpecCollect SpecValid.
From GTP Require Import C19_proofs.

(* termination on every input, cyclic fragment graphs and unknown fragment names included *)
Theorem C19_total : forall s d p sels, exists r, collect_fields s d p sels = Some r.
Proof. exact collect_fields_total. Qed.
Print Assumptions C19_total.

(* for an object parent type of a well-formed schema the result is exactly the specification's
   CollectFields: same response keys in order of first occurrence, same fields in document order
   in every group (a HashMap cannot expose the order of the groups) *)
Theorem C19_spec : forall s d p sels,
  wf_schema s = true -> distinct_fragments d = true ->
  type_by_name s (td_name p) = Some p -> td_is_object p = true ->
  collect_fields s d p sels = Some (spec_collect s d p sels).
Proof. exact collect_fields_spec. Qed.
Print Assumptions C19_spec.

(* what the specification's grouping guarantees: distinct keys, no empty group, every field of a
   group has the group's response key, and the groups partition the collected fields in order *)
Theorem C19_grouping : forall l : list selection,
  NoDup (map fst (group_by_key l)) /\
  (forall k fs, In (k, fs) (group_by_key l) ->
     fs <> [] /\ fs = filter (fun g => name_eqb (field_response_key g) k) l) /\
  (forall f, In f l <-> exists k fs, In (k, fs) (group_by_key l) /\ In f fs).
Proof. exact group_by_key_spec. Qed.
Print Assumptions C19_grouping.

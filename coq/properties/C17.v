(* placeholder until the composition theorems are in place *)
From GT Require Import Validate.
Example C17_pending_c17 : True. Proof. exact I. Qed.
Print Assumptions C17_pending_c17.

(* C17 — "the transformer rewrites exactly what its hooks replace and keeps the rest".
   Model: theories/Transformer.v ([transform_document H d st], mirror of
   src/ast/operation_transformer.rs, for a record [H] of hooks: [pre H] logs a hook call,
   [rw_X H] decides whether hook X replaces the node it is handed).
   Specification: spec/SpecTransform.v ([smap_document], [hook_calls], [rewrites_somewhere],
   [no_rewrites], [thread], [patched]) — no Keep / Replace bookkeeping, no state threading. *)
From GT Require Import Transformer.
From GTS Require Import SpecTransform.
From GTP Require Import C17_proofs.

(* The document that comes out (the replacement if there is one, else the input) is the eager
   bottom-up structural map: every node rebuilt from its mapped children — lists element-wise,
   order and length preserved, everything else copied — and then rewritten by its own hook
   where that hook replaces it. *)
Theorem C17_result :
  forall St (H : hooks St) d st,
    replace_or d (snd (transform_document H d st)) = smap_document H d.
Proof. exact transform_result. Qed.
Print Assumptions C17_result.

(* Every hook is invoked exactly once per corresponding node of the ORIGINAL document, in
   pre-order with the code's child order: the final state is the fold of [pre H] over
   [hook_calls d]. *)
Theorem C17_calls :
  forall St (H : hooks St) d st,
    fst (transform_document H d st) = fold_left (pre H) (hook_calls d) st.
Proof. exact transform_calls. Qed.
Print Assumptions C17_calls.

(* With nothing overridden (no hook ever replaces a node) the document is unchanged. *)
Theorem C17_identity :
  forall St (H : hooks St) d st,
    no_rewrites H -> replace_or d (snd (transform_document H d st)) = d.
Proof. exact transform_identity. Qed.
Print Assumptions C17_identity.

(* Keep is only reported when nothing was rewritten anywhere: no hook replaced the node it was
   handed, and the document has no fragment spread (which the default method always rebuilds). *)
Theorem C17_keep :
  forall St (H : hooks St) d st,
    snd (transform_document H d st) = Keep -> rewrites_somewhere H d = false.
Proof. exact transform_keep. Qed.
Print Assumptions C17_keep.

(* transform_list, for an arbitrary item transformer [f]: the items are processed left to right
   with the state threaded through ([thread f l st] = final state and the per-item results
   [rs]); the result is Keep iff every item's result is Keep, and otherwise the Replace of the
   list whose i-th item is [replace_or x_i r_i] — same length, same order. *)
Theorem C17_transform_list :
  forall St A (f : A -> St -> St * tr A) (l : list A) (st : St),
    let rs := snd (thread f l st) in
    List.length rs = List.length l /\
    fst (transform_list f l st) = fst (thread f l st) /\
    (snd (transform_list f l st) = Keep <-> Forall (fun r => r = Keep) rs) /\
    (snd (transform_list f l st) <> Keep -> snd (transform_list f l st) = Replace (patched l rs)) /\
    List.length (patched l rs) = List.length l /\
    (forall i x, nth_error l i = Some x ->
       exists rx, nth_error rs i = Some rx /\ nth_error (patched l rs) i = Some (replace_or x rx)).
Proof. exact transform_list_spec. Qed.
Print Assumptions C17_transform_list.

(* placeholder until the composition theorems are in place *)
From GT Require Import Validate.
Example C02_pending : True. Proof. exact I. Qed.
Print Assumptions C02_pending.

(* C02 — every operation that violates an implemented rule is rejected. *)
From GT Require Import Visitor Validate.
From GTS Require Import Annot WfSchema SpecRules SpecValid.
From GTP Require Import C07_position_proofs C02_proofs C01_C02_full_proofs.

(* The full statement as first written (kept visible).  As written it is FALSE, see
   C02_statement_refuted. *)
Definition C02_statement : Prop := forall s d r,
  wf_schema s = true -> doc_types_proper d = true -> violated r s d = true ->
  exists es, validate s d default_plan = Ok es /\ es <> [].

(* What is proved: a document violating ANY of the 23 rules of the default plan, the field-merging
   rule included (documents with named fragment spreads of any nesting), makes validate return a
   non-empty list of errors.  ADJUSTED with respect to C02_statement — three hypotheses, each
   needed only when the violated rule is the one named:
   - r = VariablesInAllowedPosition: [defaults_const d] (C07_position_proofs.v: no variable occurs
     inside the default value of a variable definition), under which that rule's equivalence is
     proved.  (No counterexample is known without it: the model sees more variable usages than the
     specification, not fewer.)
   - r = OverlappingFieldsCanBeMerged: the field nodes of the document have pairwise distinct
     positions.  A fact about parsed documents (the parser gives every node its own position), that
     the AST of the model does not enforce; the rule identifies field nodes by position
     (same hypothesis as C05_acyclic_partial).
   - r = OverlappingFieldsCanBeMerged: a type condition that names a type of the introspection
     system (__Schema, __Type, ...) names a type the schema declares.  NEEDED: without it the
     statement is false (C02_statement_refuted).  How it is used: completeness of the merge rule
     (C05: merge_iff_acyclic) needs every inline type condition to have a definition in the schema;
     if one has none, either KnownTypeNames is violated — and reports — or the name is one of the
     introspection type names, which KnownTypeNames (model and specification) accept in every schema.
   Nothing is assumed about the rule's scope: when the merge rule is out of its scope
   (a fragment name defined twice, a fragment cycle, a repeated argument name), UniqueFragmentNames,
   NoFragmentsCycle or UniqueArgumentNames is violated and reports.  Nothing is assumed about fuel
   (C03: no rule exhausts its fuel, merge_no_fuel_exhaustion included). *)
Theorem C02_rejects_invalid : forall s d r,
  wf_schema s = true -> doc_types_proper d = true -> violated r s d = true ->
  (r = R_VariablesInAllowedPosition -> defaults_const d = true) ->
  (r = R_OverlappingFieldsCanBeMerged ->
     NoDup (map node_pos (filter (fun x => match x with SField _ _ _ _ _ _ _ => true | _ => false end)
                                 (doc_selections d)))) ->
  (r = R_OverlappingFieldsCanBeMerged ->
     forall n, In n (type_conditions d) -> mem_name n introspection_type_names = true ->
               type_by_name s n <> None) ->
  exists es, validate s d default_plan = Ok es /\ es <> [].
Proof. exact violation_rejected_full. Qed.
Print Assumptions C02_rejects_invalid.

(* the same with the third hypothesis restricted to the type conditions of INLINE fragments (those
   of fragment definitions do not matter) *)
Theorem C02_rejects_invalid_inline : forall s d r,
  wf_schema s = true -> doc_types_proper d = true -> violated r s d = true ->
  (r = R_VariablesInAllowedPosition -> defaults_const d = true) ->
  (r = R_OverlappingFieldsCanBeMerged -> NoDup (map node_pos (filter is_field_sel (doc_selections d)))) ->
  (r = R_OverlappingFieldsCanBeMerged ->
     forall p tc dirs sp sels, In (SInline p (Some tc) dirs sp sels) (doc_selections d) ->
       mem_name tc introspection_type_names = true -> type_by_name s tc <> None) ->
  exists es, validate s d default_plan = Ok es /\ es <> [].
Proof. exact violation_rejected_full_inline. Qed.
Print Assumptions C02_rejects_invalid_inline.

(* for every rule other than field merging, nothing but [defaults_const] (for
   VariablesInAllowedPosition) is added to C02_statement *)
Theorem C02_other_rules : forall s d r,
  wf_schema s = true -> doc_types_proper d = true ->
  r <> R_OverlappingFieldsCanBeMerged -> violated r s d = true ->
  (r = R_VariablesInAllowedPosition -> defaults_const d = true) ->
  exists es, validate s d default_plan = Ok es /\ es <> [].
Proof. exact violation_rejected_errors_all. Qed.
Print Assumptions C02_other_rules.

(* C02_statement is false.  On   type Query { q: T }  type T { f: U }  type U { x: Int }
   type A { x: String }   (a well-formed schema that does not declare the introspection types):
     { q { ...G }  q { ...G } }
     fragment G on T { ... on __Type { f { x  ... on A { x } } } }
   violates the specification of field merging (x : Int against x : String below f) and no other
   rule's specification; the default plan returns Ok [].  The field positions are distinct and the
   merge rule is in scope: the only hypothesis of C02_rejects_invalid that fails is the one on
   introspection type names. *)
Theorem C02_counterexample :
  wf_schema c02_cex_schema = true /\ doc_types_proper c02_cex_doc = true /\
  defaults_const c02_cex_doc = true /\
  violated R_OverlappingFieldsCanBeMerged c02_cex_schema c02_cex_doc = true /\
  filter (fun r => violated r c02_cex_schema c02_cex_doc) all_rules = [R_OverlappingFieldsCanBeMerged] /\
  rule_in_scope R_OverlappingFieldsCanBeMerged c02_cex_schema c02_cex_doc = true /\
  validate c02_cex_schema c02_cex_doc default_plan = Ok [] /\
  type_by_name c02_cex_schema "__Type" = None /\
  In "__Type" (type_conditions c02_cex_doc) /\
  mem_name "__Type" introspection_type_names = true.
Proof. exact c02_cex_facts. Qed.
Print Assumptions C02_counterexample.

Theorem C02_counterexample_positions :
  NoDup (map node_pos (filter is_field_sel (doc_selections c02_cex_doc))).
Proof. exact c02_cex_positions. Qed.
Print Assumptions C02_counterexample_positions.

Theorem C02_statement_refuted : ~ C02_statement.
Proof. exact c02_statement_false. Qed.
Print Assumptions C02_statement_refuted.

(* ---- the earlier, weaker forms (they stay true; superseded by the theorems above) ---- *)
(* "not accepted" instead of "returns a non-empty error list", rules other than field merging *)
Theorem C02_partial : forall s d r,
  wf_schema s = true -> doc_types_proper d = true ->
  r <> R_OverlappingFieldsCanBeMerged -> violated r s d = true ->
  (r = R_VariablesInAllowedPosition -> defaults_const d = true) ->
  validate s d default_plan <> Ok [].
Proof. exact violation_rejected. Qed.
Print Assumptions C02_partial.

(* with the fuel of the merge rule as a hypothesis (now a theorem: C02_other_rules) *)
Theorem C02_partial_errors : forall s d r,
  wf_schema s = true -> doc_types_proper d = true ->
  r <> R_OverlappingFieldsCanBeMerged -> violated r s d = true ->
  (r = R_VariablesInAllowedPosition -> defaults_const d = true) ->
  r_oof (snd (run_rule R_OverlappingFieldsCanBeMerged s d ctx0)) = false ->
  exists es, validate s d default_plan = Ok es /\ es <> [].
Proof. exact violation_rejected_errors. Qed.
Print Assumptions C02_partial_errors.

(* non-vacuity: { t { ...F  x: b } } fragment F on T { x: a } over pool_minimal violates the
   field-merging rule only, satisfies all hypotheses of C02_rejects_invalid with
   r = R_OverlappingFieldsCanBeMerged, and the model answers with one error of that rule *)
Theorem C02_non_vacuous :
  wf_schema nv_schema = true /\ doc_types_proper nv_invalid_doc = true /\
  violated R_OverlappingFieldsCanBeMerged nv_schema nv_invalid_doc = true /\
  filter (fun r => violated r nv_schema nv_invalid_doc) all_rules = [R_OverlappingFieldsCanBeMerged] /\
  rule_in_scope R_OverlappingFieldsCanBeMerged nv_schema nv_invalid_doc = true /\
  type_conditions nv_invalid_doc = ["T"].
Proof. exact nv_invalid_hyps. Qed.
Print Assumptions C02_non_vacuous.
Theorem C02_non_vacuous_positions :
  NoDup (map node_pos (filter is_field_sel (doc_selections nv_invalid_doc))).
Proof. exact nv_invalid_positions. Qed.
Print Assumptions C02_non_vacuous_positions.
Theorem C02_non_vacuous_result :
  exists e, validate nv_schema nv_invalid_doc default_plan = Ok [e] /\ e_rule e = R_OverlappingFieldsCanBeMerged.
Proof. exact nv_invalid_result. Qed.
Print Assumptions C02_non_vacuous_result.

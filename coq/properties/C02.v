(* C02 — every operation that violates an implemented rule is rejected. *)
From GT Require Import Visitor Validate.
From GTS Require Import Annot WfSchema SpecRules SpecValid.
From GTP Require Import C07_position_proofs C02_proofs.

(* The full statement (kept visible): *)
Definition C02_statement : Prop := forall s d r,
  wf_schema s = true -> doc_types_proper d = true -> violated r s d = true ->
  exists es, validate s d default_plan = Ok es /\ es <> [].

(* ADJUSTED: when the violated rule is VariablesInAllowedPosition, additional hypothesis
   [defaults_const d] (C07_position_proofs.v: no variable occurs inside the default value of a
   variable definition), under which that rule's equivalence is proved.  Nothing is added for
   the other rules. *)

(* What is proved: a document violating any rule other than field merging is never accepted
   (validate does not return Ok []); completeness of the merge rule is C05 (partial), and that
   the merge rule never exhausts its fuel is C03 (partial), hence "not accepted" instead of
   "returns a non-empty error list". *)
Theorem C02_partial : forall s d r,
  wf_schema s = true -> doc_types_proper d = true ->
  r <> R_OverlappingFieldsCanBeMerged -> violated r s d = true ->
  (r = R_VariablesInAllowedPosition -> defaults_const d = true) ->
  validate s d default_plan <> Ok [].
Proof. exact violation_rejected. Qed.
Print Assumptions C02_partial.

(* and when the merge rule does not exhaust its fuel the result is a non-empty error list *)
Theorem C02_partial_errors : forall s d r,
  wf_schema s = true -> doc_types_proper d = true ->
  r <> R_OverlappingFieldsCanBeMerged -> violated r s d = true ->
  (r = R_VariablesInAllowedPosition -> defaults_const d = true) ->
  r_oof (snd (run_rule R_OverlappingFieldsCanBeMerged s d ctx0)) = false ->
  exists es, validate s d default_plan = Ok es /\ es <> [].
Proof. exact violation_rejected_errors. Qed.
Print Assumptions C02_partial_errors.

(* C20_proofs.v — theorems about the introspection (de)serialisation model of
   theories/Introspection.v and its specification spec/SpecIntrospection.v. *)
From GT Require Import Ext Json Introspection.
From GTS Require Import Annot WfSchema SpecRules SpecIntrospection.
Local Open Scope string_scope.

(* ================================================================ generic facts *)
Lemma map_opt_map {A B C} (dec : B -> option C) (r : A -> B) (a : A -> C) (l : list A) :
  (forall x, In x l -> dec (r x) = Some (a x)) -> map_opt dec (map r l) = Some (map a l).
Proof.
  induction l as [|x l IH]; intro H; cbn [map map_opt]; [reflexivity|].
  rewrite (H x (or_introl eq_refl)), IH; [reflexivity|].
  intros y Hy. apply H. right. exact Hy.
Qed.

Lemma map_opt_map_id {A B} (dec : B -> option A) (enc : A -> B) (l : list A) :
  (forall x, In x l -> dec (enc x) = Some x) -> map_opt dec (map enc l) = Some l.
Proof.
  intro H. rewrite (map_opt_map dec enc (fun x => x)); [rewrite map_id; reflexivity|exact H].
Qed.

Lemma decode_list_enc_list {A} (dec : json -> option A) (enc : A -> json) (l : list A) :
  (forall x, In x l -> dec (enc x) = Some x) -> decode_list dec (enc_list enc l) = Some l.
Proof. intro H. unfold decode_list, enc_list. apply map_opt_map_id. exact H. Qed.

Lemma decode_list_map {A B} (dec : json -> option B) (r : A -> json) (a : A -> B) (l : list A) :
  (forall x, In x l -> dec (r x) = Some (a x)) -> decode_list dec (JArr (map r l)) = Some (map a l).
Proof. intro H. unfold decode_list. apply map_opt_map. exact H. Qed.

Lemma map_opt_Forall {A B} (f : A -> option B) (P : B -> Prop) (l : list A) (l' : list B) :
  (forall x y, f x = Some y -> P y) -> map_opt f l = Some l' -> Forall P l'.
Proof.
  intro H. revert l'. induction l as [|x l IH]; intros l' E; cbn [map_opt] in E.
  - inversion E. constructor.
  - destruct (f x) as [y|] eqn:Ex; [|discriminate].
    destruct (map_opt f l) as [r|] eqn:Er; [|discriminate].
    inversion E. subst l'. constructor; [eapply H; exact Ex|apply IH; reflexivity].
Qed.

Lemma opt_bind_some {A B} (o : option A) (f : A -> option B) (y : B) :
  opt_bind o f = Some y -> exists x, o = Some x /\ f x = Some y.
Proof. destruct o as [x|]; cbn; [intro H; exists x; split; [reflexivity|exact H]|discriminate]. Qed.

Lemma opt_map_some {A B} (f : A -> B) (o : option A) (y : B) :
  opt_map f o = Some y -> exists x, o = Some x /\ y = f x.
Proof. destruct o as [x|]; cbn; [intro H; inversion H; exists x; split; reflexivity|discriminate]. Qed.

Lemma forallb_Forall {A} (p : A -> bool) (l : list A) : forallb p l = true <-> Forall (fun x => p x = true) l.
Proof.
  induction l as [|x l IH]; cbn [forallb]; split; intro H.
  - constructor.
  - reflexivity.
  - apply andb_prop in H. destruct H as [H1 H2]. constructor; [exact H1|apply IH; exact H2].
  - inversion H as [|? ? H1 H2]. subst. rewrite H1. cbn. apply IH. exact H2.
Qed.

(* ================================================================ serde_json::Value *)
Fixpoint norm_list (l : list json) : list json :=
  match l with [] => [] | x :: r => norm_value x :: norm_list r end.
Fixpoint norm_entries (es : list (string * json)) : list (string * json) :=
  match es with
  | [] => []
  | (k, v) :: r => if has_key k r then norm_entries r else (k, norm_value v) :: norm_entries r
  end.
Lemma norm_value_arr l : norm_value (JArr l) = JArr (norm_list l).
Proof. reflexivity. Qed.
Lemma norm_value_obj es : norm_value (JObj es) = JObj (norm_entries es).
Proof. reflexivity. Qed.

Fixpoint all_no_dup (l : list json) : bool :=
  match l with [] => true | x :: r => no_dup_keys x && all_no_dup r end.
Fixpoint entries_no_dup (es : list (string * json)) : bool :=
  match es with [] => true | (_, v) :: r => no_dup_keys v && entries_no_dup r end.
Lemma no_dup_keys_arr l : no_dup_keys (JArr l) = all_no_dup l.
Proof. reflexivity. Qed.
Lemma no_dup_keys_obj es : no_dup_keys (JObj es) = keys_unique es && entries_no_dup es.
Proof. reflexivity. Qed.

(* a value without repeated keys is read back unchanged *)
Lemma norm_value_id v : no_dup_keys v = true -> norm_value v = v.
Proof.
  induction v as [| | | |l IH|es IH] using json_ind'; intro H; try reflexivity.
  - rewrite norm_value_arr. rewrite no_dup_keys_arr in H. f_equal.
    induction IH as [|x l Hx _ IHl]; [reflexivity|].
    cbn [all_no_dup] in H. apply andb_prop in H. destruct H as [H1 H2].
    cbn [norm_list]. rewrite (Hx H1), (IHl H2). reflexivity.
  - rewrite norm_value_obj. rewrite no_dup_keys_obj in H. f_equal.
    apply andb_prop in H. destruct H as [Hu Hv].
    induction IH as [|[k v] es Hx _ IHes]; [reflexivity|].
    cbn [keys_unique] in Hu. apply andb_prop in Hu. destruct Hu as [Hk Hu].
    cbn [entries_no_dup] in Hv. apply andb_prop in Hv. destruct Hv as [Hv1 Hv2].
    cbn [norm_entries]. apply negb_true_iff in Hk. rewrite Hk.
    cbn [snd] in Hx. rewrite (Hx Hv1), (IHes Hu Hv2). reflexivity.
Qed.

Lemma has_key_norm_entries k es : has_key k (norm_entries es) = has_key k es.
Proof.
  induction es as [|[k' v] es IH]; [reflexivity|].
  cbn [norm_entries]. destruct (has_key k' es) eqn:Hk'.
  - rewrite IH. unfold has_key at 2. cbn [existsb fst].
    destruct (String.eqb k k') eqn:E; [|reflexivity].
    apply String.eqb_eq in E. subst k'. cbn [orb]. exact Hk'.
  - unfold has_key. cbn [existsb fst]. f_equal. exact IH.
Qed.

(* what is read into a Value never has repeated keys *)
Lemma norm_value_no_dup v : no_dup_keys (norm_value v) = true.
Proof.
  induction v as [| | | |l IH|es IH] using json_ind'; try reflexivity.
  - rewrite norm_value_arr, no_dup_keys_arr.
    induction IH as [|x l Hx _ IHl]; [reflexivity|]. cbn [norm_list all_no_dup]. rewrite Hx, IHl. reflexivity.
  - rewrite norm_value_obj, no_dup_keys_obj. apply andb_true_intro. split.
    + clear IH. induction es as [|[k v] es IHes]; [reflexivity|].
      cbn [norm_entries]. destruct (has_key k es) eqn:Hk; [exact IHes|].
      cbn [keys_unique]. rewrite has_key_norm_entries, Hk, IHes. reflexivity.
    + induction IH as [|[k v] es Hx _ IHes]; [reflexivity|].
      cbn [norm_entries]. destruct (has_key k es); [exact IHes|].
      cbn [entries_no_dup]. cbn [snd] in Hx. rewrite Hx, IHes. reflexivity.
Qed.

Lemma norm_value_not_null v : v <> JNull -> norm_value v <> JNull.
Proof. destruct v; intro H; try discriminate; [exact H]. Qed.

(* ================================================================ round trip *)
Section RefInd.
  Variable P : out_ref -> Prop.
  Hypothesis Hnamed : forall r, (forall o, r <> OR_LIST o) -> (forall o, r <> OR_NON_NULL o) -> P r.
  Hypothesis Hlist0 : P (OR_LIST None).
  Hypothesis Hlist : forall x, P x -> P (OR_LIST (Some x)).
  Hypothesis Hnn0 : P (OR_NON_NULL None).
  Hypothesis Hnn : forall x, P x -> P (OR_NON_NULL (Some x)).
  Fixpoint out_ref_ind' (r : out_ref) : P r.
  Proof.
    destruct r as [n|o|o|n|n|n|n|n].
    - apply Hnamed; intros; discriminate.
    - destruct o as [x|]; [apply Hlist, out_ref_ind'|apply Hlist0].
    - destruct o as [x|]; [apply Hnn, out_ref_ind'|apply Hnn0].
    - apply Hnamed; intros; discriminate.
    - apply Hnamed; intros; discriminate.
    - apply Hnamed; intros; discriminate.
    - apply Hnamed; intros; discriminate.
    - apply Hnamed; intros; discriminate.
  Defined.
End RefInd.
Section InRefInd.
  Variable P : in_ref -> Prop.
  Hypothesis Hnamed : forall r, (forall o, r <> IR_LIST o) -> (forall o, r <> IR_NON_NULL o) -> P r.
  Hypothesis Hlist0 : P (IR_LIST None).
  Hypothesis Hlist : forall x, P x -> P (IR_LIST (Some x)).
  Hypothesis Hnn0 : P (IR_NON_NULL None).
  Hypothesis Hnn : forall x, P x -> P (IR_NON_NULL (Some x)).
  Fixpoint in_ref_ind' (r : in_ref) : P r.
  Proof.
    destruct r as [o|o|n|n|n].
    - destruct o as [x|]; [apply Hlist, in_ref_ind'|apply Hlist0].
    - destruct o as [x|]; [apply Hnn, in_ref_ind'|apply Hnn0].
    - apply Hnamed; intros; discriminate.
    - apply Hnamed; intros; discriminate.
    - apply Hnamed; intros; discriminate.
  Defined.
End InRefInd.

Lemma opt_dec_obj {A} (dec : json -> option A) es : opt_dec dec (JObj es) = opt_map Some (dec (JObj es)).
Proof. reflexivity. Qed.

Lemma encode_out_ref_obj r : exists es, encode_out_ref r = JObj es.
Proof. destruct r; cbn; eexists; reflexivity. Qed.
Lemma encode_in_ref_obj r : exists es, encode_in_ref r = JObj es.
Proof. destruct r; cbn; eexists; reflexivity. Qed.

Lemma rt_out_ref r : forall b, decode_out_ref b (encode_out_ref r) = Some r.
Proof.
  induction r as [r H1 H2| |x IH| |x IH] using out_ref_ind'; intro b.
  - destruct r as [n|o|o|n|n|n|n|n]; try (exfalso; eapply H1; reflexivity); try (exfalso; eapply H2; reflexivity);
      destruct n; destruct b; reflexivity.
  - destruct b; reflexivity.
  - destruct (encode_out_ref_obj x) as [es E].
    assert (G : decode_out_ref b (encode_out_ref (OR_LIST (Some x))) =
                opt_map OR_LIST (opt_dec (decode_out_ref true) (encode_out_ref x))) by (destruct b; reflexivity).
    rewrite G, E, opt_dec_obj, <- E, IH. reflexivity.
  - destruct b; reflexivity.
  - destruct (encode_out_ref_obj x) as [es E].
    assert (G : decode_out_ref b (encode_out_ref (OR_NON_NULL (Some x))) =
                opt_map OR_NON_NULL (opt_dec (decode_out_ref true) (encode_out_ref x))) by (destruct b; reflexivity).
    rewrite G, E, opt_dec_obj, <- E, IH. reflexivity.
Qed.

Lemma rt_in_ref r : forall b, decode_in_ref b (encode_in_ref r) = Some r.
Proof.
  induction r as [r H1 H2| |x IH| |x IH] using in_ref_ind'; intro b.
  - destruct r as [o|o|n|n|n]; try (exfalso; eapply H1; reflexivity); try (exfalso; eapply H2; reflexivity);
      destruct n; destruct b; reflexivity.
  - destruct b; reflexivity.
  - destruct (encode_in_ref_obj x) as [es E].
    assert (G : decode_in_ref b (encode_in_ref (IR_LIST (Some x))) =
                opt_map IR_LIST (opt_dec (decode_in_ref true) (encode_in_ref x))) by (destruct b; reflexivity).
    rewrite G, E, opt_dec_obj, <- E, IH. reflexivity.
  - destruct b; reflexivity.
  - destruct (encode_in_ref_obj x) as [es E].
    assert (G : decode_in_ref b (encode_in_ref (IR_NON_NULL (Some x))) =
                opt_map IR_NON_NULL (opt_dec (decode_in_ref true) (encode_in_ref x))) by (destruct b; reflexivity).
    rewrite G, E, opt_dec_obj, <- E, IH. reflexivity.
Qed.

(* optional members *)
Lemma rt_opt_str o : opt_dec decode_string (enc_opt JStr o) = Some o.
Proof. destruct o; reflexivity. Qed.
Lemma rt_opt_bool o : opt_dec decode_bool (enc_opt JBool o) = Some o.
Proof. destruct o; reflexivity. Qed.
Lemma rt_opt_in_ref b o : opt_dec (decode_in_ref b) (enc_opt encode_in_ref o) = Some o.
Proof.
  destruct o as [r|]; [|reflexivity]. cbn [enc_opt].
  destruct (encode_in_ref_obj r) as [es E]. rewrite E, opt_dec_obj, <- E, rt_in_ref. reflexivity.
Qed.
Lemma rt_opt_value o : value_normal o = true -> opt_dec decode_value (enc_opt enc_value o) = Some o.
Proof.
  destruct o as [v|]; [|reflexivity]. cbn [enc_opt value_normal]. unfold enc_value, decode_value.
  destruct v; intro H; try discriminate; cbn [opt_dec opt_map]; rewrite (norm_value_id _ H); reflexivity.
Qed.

Local Arguments opt_dec : simpl never.
Local Arguments enc_opt : simpl never.
Local Arguments decode_list : simpl never.
Local Arguments enc_list : simpl never.
Local Arguments decode_out_ref : simpl never.
Local Arguments decode_in_ref : simpl never.
Local Arguments encode_out_ref : simpl never.
Local Arguments encode_in_ref : simpl never.

Lemma rt_named_ref r : decode_named_ref (encode_named_ref r) = Some r.
Proof. destruct r. reflexivity. Qed.
Lemma rt_opt_named_ref o : opt_dec decode_named_ref (enc_opt encode_named_ref o) = Some o.
Proof. destruct o as [[n]|]; reflexivity. Qed.
Lemma rt_named_refs l : decode_list decode_named_ref (enc_list encode_named_ref l) = Some l.
Proof. apply decode_list_enc_list. intros x _. apply rt_named_ref. Qed.
Lemma rt_opt_named_refs o :
  opt_dec (decode_list decode_named_ref) (enc_opt (enc_list encode_named_ref) o) = Some o.
Proof.
  destruct o as [l|]; [|reflexivity]. unfold enc_opt. unfold enc_list at 1. unfold opt_dec.
  change (JArr (map encode_named_ref l)) with (enc_list encode_named_ref l). rewrite rt_named_refs. reflexivity.
Qed.

Lemma rt_input_value b x :
  input_value_normal x = true -> decode_input_value b (encode_input_value x) = Some x.
Proof.
  destruct x as [n d dv dep reason t]. unfold input_value_normal. cbn [iiv_default_value]. intro H.
  unfold decode_input_value, encode_input_value, of_source. cbn.
  rewrite !rt_opt_str, rt_opt_bool, rt_opt_in_ref, (rt_opt_value _ H). reflexivity.
Qed.
Lemma rt_input_values b l :
  forallb input_value_normal l = true ->
  decode_list (decode_input_value b) (enc_list encode_input_value l) = Some l.
Proof.
  intro H. apply decode_list_enc_list. intros x Hx. apply rt_input_value.
  rewrite forallb_forall in H. apply H. exact Hx.
Qed.

Local Arguments decode_input_value : simpl never.
Local Arguments encode_input_value : simpl never.
Local Arguments decode_named_ref : simpl never.
Local Arguments encode_named_ref : simpl never.

Lemma rt_field b x : field_normal x = true -> decode_field b (encode_field x) = Some x.
Proof.
  destruct x as [n d args dep reason t]. unfold field_normal. cbn [ifd_args]. intro H.
  unfold decode_field, encode_field, of_source. cbn.
  rewrite !rt_opt_str, rt_opt_bool, (rt_input_values _ _ H), rt_out_ref. reflexivity.
Qed.
Lemma rt_fields b l :
  forallb field_normal l = true -> decode_list (decode_field b) (enc_list encode_field l) = Some l.
Proof.
  intro H. apply decode_list_enc_list. intros x Hx. apply rt_field.
  rewrite forallb_forall in H. apply H. exact Hx.
Qed.
Local Arguments decode_field : simpl never.
Local Arguments encode_field : simpl never.

Lemma rt_enum_value x : decode_enum_value (encode_enum_value x) = Some x.
Proof.
  destruct x as [n d dep reason]. unfold decode_enum_value, encode_enum_value, of_source. cbn.
  rewrite !rt_opt_str, rt_opt_bool. reflexivity.
Qed.
Local Arguments decode_enum_value : simpl never.
Local Arguments encode_enum_value : simpl never.

Lemma rt_type t : type_normal t = true -> decode_type (encode_type t) = Some t.
Proof.
  destruct t as [x|x|x|x|x|x]; cbn [type_normal]; intro H.
  - destruct x as [n d u]. unfold decode_type. cbn. rewrite !rt_opt_str. reflexivity.
  - destruct x as [n d fs is]. cbn [iob_fields] in H. unfold decode_type. cbn.
    rewrite rt_opt_str, (rt_fields _ _ H), rt_named_refs. reflexivity.
  - destruct x as [n d fs is ps]. cbn [iif_fields] in H. unfold decode_type. cbn.
    rewrite rt_opt_str, (rt_fields _ _ H), rt_opt_named_refs, rt_named_refs. reflexivity.
  - destruct x as [n d ps]. unfold decode_type. cbn. rewrite rt_opt_str, rt_named_refs. reflexivity.
  - destruct x as [n d vs]. unfold decode_type. cbn. rewrite rt_opt_str.
    rewrite decode_list_enc_list; [reflexivity|]. intros x _. apply rt_enum_value.
  - destruct x as [n d fs]. cbn [iio_input_fields] in H. unfold decode_type. cbn.
    rewrite rt_opt_str, (rt_input_values _ _ H). reflexivity.
Qed.

Lemma loc_of_name_loc_name l : loc_of_name (loc_name l) = Some l.
Proof. destruct l; reflexivity. Qed.
Lemma rt_location l : decode_location (encode_location l) = Some l.
Proof. apply loc_of_name_loc_name. Qed.

Lemma rt_directive x : directive_normal x = true -> decode_directive (encode_directive x) = Some x.
Proof.
  destruct x as [n d rep locs args]. unfold directive_normal. cbn [idr_args]. intro H.
  unfold decode_directive, encode_directive, of_source. cbn.
  rewrite rt_opt_str, rt_opt_bool, (rt_input_values _ _ H).
  rewrite decode_list_enc_list; [reflexivity|]. intros x _. apply rt_location.
Qed.

Local Arguments decode_type : simpl never.
Local Arguments encode_type : simpl never.
Local Arguments decode_directive : simpl never.
Local Arguments encode_directive : simpl never.

Theorem roundtrip q : query_normal q = true -> decode_query (encode_query q) = Some q.
Proof.
  destruct q as [[d qt mt st ts ds]]. unfold query_normal. cbn [iq_schema isch_types isch_directives].
  intro H. apply andb_prop in H. destruct H as [Ht Hd].
  unfold decode_query, encode_query, of_source. cbn.
  rewrite rt_opt_str, rt_named_ref, !rt_opt_named_ref.
  rewrite (decode_list_enc_list decode_type encode_type ts).
  2:{ intros x Hx. apply rt_type. rewrite forallb_forall in Ht. apply Ht. exact Hx. }
  rewrite (decode_list_enc_list decode_directive encode_directive ds).
  2:{ intros x Hx. apply rt_directive. rewrite forallb_forall in Hd. apply Hd. exact Hx. }
  reflexivity.
Qed.

(* without the hypothesis the statement is false, in the model as in Rust: a default value
   Some(Value::Null) is written as null and read back as None *)
Definition roundtrip_counterexample : introspection_query :=
  mkIQuery (mkISchema None (mkNamedRef "Q") None None []
    [mkIDirective "d" None None [] [mkIInputValue "a" None (Some JNull) None None None]]).
Lemma roundtrip_needs_normal :
  decode_query (encode_query roundtrip_counterexample) <> Some roundtrip_counterexample.
Proof. vm_compute. discriminate. Qed.

(* ================================================================ parsed structures are normal *)
Lemma lookup_with_one {A} (f : json -> A) k es a : lookup_with f k es = LOne a -> exists v, a = f v.
Proof.
  induction es as [|[k' v] es IH]; cbn [lookup_with]; [discriminate|].
  destruct (String.eqb k k'); [|exact IH].
  destruct (lookup_with f k es); try discriminate. intro H. inversion H. exists v. reflexivity.
Qed.
Lemma nth_with_one {A} (f : json -> A) i l a : nth_with f i l = LOne a -> exists v, a = f v.
Proof.
  revert i. induction l as [|x l IH]; intros i; destruct i as [|i]; cbn [nth_with]; try discriminate.
  - intro H; inversion H; exists x; reflexivity.
  - apply IH.
Qed.
Lemma get_one {A} (f : json -> A) src i k a : get f src i k = LOne a -> exists v, a = f v.
Proof. destruct src; cbn [get]; [apply lookup_with_one|apply nth_with_one]. Qed.

Lemma opt_value_normal src i k dv : opt decode_value src i k = Some dv -> value_normal dv = true.
Proof.
  unfold opt, opt_field. destruct (get (opt_dec decode_value) src i k) as [| |a] eqn:E.
  - intro H. inversion H. reflexivity.
  - discriminate.
  - destruct (get_one _ _ _ _ _ E) as [v Hv]. subst a. intro H.
    unfold opt_dec, decode_value in H. destruct v; cbn [opt_map] in H; inversion H; try reflexivity.
    + rewrite <- norm_value_arr. cbn [value_normal]. rewrite norm_value_arr. rewrite <- norm_value_arr.
      apply norm_value_no_dup.
    + rewrite <- norm_value_obj. cbn [value_normal]. rewrite norm_value_obj. rewrite <- norm_value_obj.
      apply norm_value_no_dup.
Qed.

Ltac inv_bind H :=
  repeat match type of H with
         | opt_bind ?o ?f = Some _ =>
             let x := fresh "x" in let E := fresh "E" in
             destruct o as [x|] eqn:E; cbn [opt_bind] in H; [|discriminate H]
         end.

Lemma req_one {A} (dec : json -> option A) src i k a : req dec src i k = Some a -> exists v, dec v = Some a.
Proof.
  unfold req, req_field. destruct (get dec src i k) as [| |x] eqn:E; try discriminate.
  destruct (get_one _ _ _ _ _ E) as [v Hv]. subst x. intro H. exists v. exact H.
Qed.

Lemma decode_list_Forall {A} (dec : json -> option A) (P : A -> Prop) j l :
  (forall v x, dec v = Some x -> P x) -> decode_list dec j = Some l -> Forall P l.
Proof.
  intros H. unfold decode_list. destruct j; try discriminate. apply map_opt_Forall. exact H.
Qed.

Lemma dn_input_value_src b src x : decode_input_value_src b src = Some x -> input_value_normal x = true.
Proof.
  unfold decode_input_value_src. destruct (arity_ok src 6); [|discriminate]. intro H. inv_bind H.
  inversion H. unfold input_value_normal. cbn [iiv_default_value]. eapply opt_value_normal. eassumption.
Qed.
Lemma dn_input_value b j x : decode_input_value b j = Some x -> input_value_normal x = true.
Proof.
  unfold decode_input_value, of_source. intro H. inv_bind H. eapply dn_input_value_src. exact H.
Qed.
Lemma dn_input_values b src i k l :
  req (decode_list (decode_input_value b)) src i k = Some l -> forallb input_value_normal l = true.
Proof.
  intro H. destruct (req_one _ _ _ _ _ H) as [v Hv]. apply forallb_Forall.
  eapply decode_list_Forall; [|exact Hv]. intros v' x. apply dn_input_value.
Qed.

Lemma dn_field b j x : decode_field b j = Some x -> field_normal x = true.
Proof.
  unfold decode_field, of_source. intro H. inv_bind H. revert H.
  unfold decode_field_src. destruct (arity_ok x0 6); [|discriminate]. intro H. inv_bind H.
  inversion H. unfold field_normal. cbn [ifd_args]. eapply dn_input_values. eassumption.
Qed.
Lemma dn_fields b src i k l :
  req (decode_list (decode_field b)) src i k = Some l -> forallb field_normal l = true.
Proof.
  intro H. destruct (req_one _ _ _ _ _ H) as [v Hv]. apply forallb_Forall.
  eapply decode_list_Forall; [|exact Hv]. intros v' x. apply dn_field.
Qed.

Lemma dn_type j t : decode_type j = Some t -> type_normal t = true.
Proof.
  unfold decode_type. intro H. inv_bind H. cbv zeta in H.
  repeat match type of H with
         | (if ?c then _ else _) = Some _ => destruct c
         end; try discriminate;
    apply opt_map_some in H; destruct H as [y [Hy Ht]]; subst t; cbn [type_normal]; try reflexivity; revert Hy.
  - unfold decode_object_type_src. destruct (arity_ok _ 4); [|discriminate]. intro H. inv_bind H.
    inversion H. cbn [iob_fields]. eapply dn_fields. eassumption.
  - unfold decode_interface_type_src. destruct (arity_ok _ 5); [|discriminate]. intro H. inv_bind H.
    inversion H. cbn [iif_fields]. eapply dn_fields. eassumption.
  - unfold decode_input_object_type_src. destruct (arity_ok _ 3); [|discriminate]. intro H. inv_bind H.
    inversion H. cbn [iio_input_fields]. eapply dn_input_values. eassumption.
Qed.

Lemma dn_directive j x : decode_directive j = Some x -> directive_normal x = true.
Proof.
  unfold decode_directive, of_source. intro H. inv_bind H. revert H.
  unfold decode_directive_src. destruct (arity_ok x0 5); [|discriminate]. intro H. inv_bind H.
  inversion H. unfold directive_normal. cbn [idr_args]. eapply dn_input_values. eassumption.
Qed.

Theorem decode_normal j q : decode_query j = Some q -> query_normal q = true.
Proof.
  unfold decode_query, of_source. intro H. inv_bind H. revert H.
  unfold decode_query_src. destruct (arity_ok x 1); [|discriminate]. intro H. inv_bind H.
  inversion H. unfold query_normal. cbn [iq_schema].
  destruct (req_one _ _ _ _ _ E0) as [v Hv]. clear E0. revert Hv.
  unfold decode_schema, of_source. intro Hv. inv_bind Hv. revert Hv.
  unfold decode_schema_src. destruct (arity_ok _ 6); [|discriminate]. intro Hv. inv_bind Hv.
  inversion Hv. cbn [isch_types isch_directives]. apply andb_true_intro. split.
  - match goal with E : req (decode_list decode_type) _ _ _ = Some _ |- _ =>
      destruct (req_one _ _ _ _ _ E) as [v' Hv'] end.
    apply forallb_Forall. eapply decode_list_Forall; [|exact Hv']. intros v'' t. apply dn_type.
  - match goal with E : req (decode_list decode_directive) _ _ _ = Some _ |- _ =>
      destruct (req_one _ _ _ _ _ E) as [v' Hv'] end.
    apply forallb_Forall. eapply decode_list_Forall; [|exact Hv']. intros v'' t. apply dn_directive.
Qed.

Theorem roundtrip_parsed j q : decode_query j = Some q -> decode_query (encode_query q) = Some q.
Proof. intro H. apply roundtrip. eapply decode_normal. exact H. Qed.

(* ================================================================ lossless *)
Local Arguments opt_dec {A} dec j : simpl nomatch.
Local Arguments render_type_ref : simpl never.

Lemma render_type_ref_obj pol s t : exists es, render_type_ref pol s t = JObj es.
Proof. destruct t; cbn; eexists; reflexivity. Qed.

Lemma ll_out_ref pol s t : forall b, decode_out_ref b (render_type_ref pol s t) = Some (out_ref_of s t).
Proof.
  induction t as [n|c IH|c IH]; intro b.
  - unfold render_type_ref, out_ref_of, kind_of.
    destruct (type_by_name s n) as [[]|]; destruct pol; destruct b; reflexivity.
  - destruct (render_type_ref_obj pol s c) as [es E].
    assert (G : decode_out_ref b (render_type_ref pol s (TList c)) =
                opt_map OR_LIST (opt_dec (decode_out_ref true) (render_type_ref pol s c))) by (destruct b; reflexivity).
    rewrite G, E, opt_dec_obj, <- E, IH. reflexivity.
  - destruct (render_type_ref_obj pol s c) as [es E].
    assert (G : decode_out_ref b (render_type_ref pol s (TNonNull c)) =
                opt_map OR_NON_NULL (opt_dec (decode_out_ref true) (render_type_ref pol s c))) by (destruct b; reflexivity).
    rewrite G, E, opt_dec_obj, <- E, IH. reflexivity.
Qed.

Lemma ll_in_ref pol s t : is_input_named s (inner_type t) = true ->
  forall b, decode_in_ref b (render_type_ref pol s t) = Some (in_ref_of s t).
Proof.
  induction t as [n|c IH|c IH]; cbn [inner_type]; intros Hin b.
  - unfold render_type_ref, in_ref_of, kind_of. unfold is_input_named in Hin.
    destruct (type_by_name s n) as [[]|]; try discriminate; destruct pol; destruct b; reflexivity.
  - destruct (render_type_ref_obj pol s c) as [es E].
    assert (G : decode_in_ref b (render_type_ref pol s (TList c)) =
                opt_map IR_LIST (opt_dec (decode_in_ref true) (render_type_ref pol s c))) by (destruct b; reflexivity).
    rewrite G, E, opt_dec_obj, <- E, (IH Hin). reflexivity.
  - destruct (render_type_ref_obj pol s c) as [es E].
    assert (G : decode_in_ref b (render_type_ref pol s (TNonNull c)) =
                opt_map IR_NON_NULL (opt_dec (decode_in_ref true) (render_type_ref pol s c))) by (destruct b; reflexivity).
    rewrite G, E, opt_dec_obj, <- E, (IH Hin). reflexivity.
Qed.

Lemma opt_dec_in_ref pol s t b : is_input_named s (inner_type t) = true ->
  opt_dec (decode_in_ref b) (render_type_ref pol s t) = Some (Some (in_ref_of s t)).
Proof.
  intro H. destruct (render_type_ref_obj pol s t) as [es E]. rewrite E, opt_dec_obj, <- E, (ll_in_ref _ _ _ H). reflexivity.
Qed.

Lemma ll_input_value pol s b iv : is_input_named s (inner_type (iv_type iv)) = true ->
  decode_input_value b (render_input_value pol s iv) = Some (abstract_input_value pol s iv).
Proof.
  intro H. unfold decode_input_value, render_input_value, abstract_input_value, of_source.
  destruct (default_text iv) as [d|]; destruct pol; cbn; rewrite (opt_dec_in_ref _ _ _ _ H); reflexivity.
Qed.

Lemma ll_input_values pol s b ivs : wf_input_values s ivs = true ->
  decode_list (decode_input_value b) (JArr (map (render_input_value pol s) ivs)) =
  Some (map (abstract_input_value pol s) ivs).
Proof.
  unfold wf_input_values. intro H. apply andb_prop in H. destruct H as [_ H].
  apply decode_list_map. intros iv Hiv. apply ll_input_value.
  rewrite forallb_forall in H. apply H. exact Hiv.
Qed.

Lemma ll_field pol s b f : wf_input_values s (fd_args f) = true ->
  decode_field b (render_field pol s f) = Some (abstract_field pol s f).
Proof.
  intro H. unfold decode_field, render_field, abstract_field, of_source.
  destruct pol; cbn; rewrite (ll_input_values _ _ _ _ H), ll_out_ref; reflexivity.
Qed.

Lemma ll_fields pol s b fs : wf_fields s fs = true ->
  decode_list (decode_field b) (JArr (map (render_field pol s) fs)) = Some (map (abstract_field pol s) fs).
Proof.
  unfold wf_fields. intro H. apply andb_prop in H. destruct H as [_ H].
  apply decode_list_map. intros f Hf. apply ll_field.
  rewrite forallb_forall in H. specialize (H f Hf). apply andb_prop in H. apply H.
Qed.

Lemma ll_named kind n : decode_named_ref (render_named kind n) = Some (nref n).
Proof. reflexivity. Qed.
Lemma ll_nameds kind l : decode_list decode_named_ref (JArr (map (render_named kind) l)) = Some (map nref l).
Proof. apply decode_list_map. intros x _. apply ll_named. Qed.

Lemma ll_enum_value pol v : decode_enum_value (render_enum_value pol v) = Some (mkEnumValue v None (Some false) None).
Proof. destruct pol; reflexivity. Qed.

Local Arguments possible_object_names : simpl never.

Lemma ll_nameds_cons kind i l :
  decode_list decode_named_ref (JArr (render_named kind i :: map (render_named kind) l)) = Some (nref i :: map nref l).
Proof. apply (ll_nameds kind (i :: l)). Qed.

Lemma ll_type pol s t : wf_type s t = true -> decode_type (render_type pol s t) = Some (abstract_type pol s t).
Proof.
  intro H. destruct t as [n ifs fs|n ifs fs|n ms|n|n vs|n fs]; cbn [wf_type] in H.
  - apply andb_prop in H. destruct H as [H _].
    unfold decode_type, render_type, abstract_type. destruct pol; cbn;
      rewrite (ll_fields _ _ _ _ H), ll_nameds; reflexivity.
  - apply andb_prop in H. destruct H as [H _]. apply andb_prop in H. destruct H as [H _].
    unfold decode_type, render_type, abstract_type. destruct pol; [|destruct ifs as [|i ifs]]; cbn;
      rewrite (ll_fields _ _ _ _ H), ?ll_nameds_cons, ?ll_nameds; cbn; rewrite ?ll_nameds; reflexivity.
  - unfold decode_type, render_type, abstract_type. destruct pol; cbn; rewrite ll_nameds; reflexivity.
  - unfold decode_type, render_type, abstract_type. destruct pol; reflexivity.
  - unfold decode_type, render_type, abstract_type. destruct pol; cbn;
      (rewrite (decode_list_map decode_enum_value (render_enum_value _) (fun v => mkEnumValue v None (Some false) None));
       [reflexivity|intros x _; apply ll_enum_value]).
  - unfold decode_type, render_type, abstract_type. destruct pol; cbn;
      rewrite (ll_input_values _ _ _ _ H); reflexivity.
Qed.

Lemma ll_directive pol s d : wf_input_values s (dd_args d) = true ->
  decode_directive (render_directive pol s d) = Some (abstract_directive pol s d).
Proof.
  intro H. unfold decode_directive, render_directive, abstract_directive, of_source.
  destruct pol; cbn; rewrite (ll_input_values _ _ _ _ H);
    (rewrite (decode_list_map decode_location (fun l => JStr (loc_name l)) (fun l => l));
     [rewrite map_id; reflexivity|intros l _; apply loc_of_name_loc_name]).
Qed.

Theorem lossless pol s : wf_schema s = true -> decode_query (render pol s) = Some (abstract_normal pol s).
Proof.
  intro Hwf.
  assert (Ht : decode_list decode_type (JArr (map (render_type pol s) (type_defs s))) =
               Some (map (abstract_type pol s) (type_defs s))).
  { apply decode_list_map. intros t Hin. apply ll_type.
    pose proof (wf_types s Hwf) as H. rewrite forallb_forall in H. apply H. exact Hin. }
  assert (Hd : decode_list decode_directive (JArr (map (render_directive pol s) (directive_defs s))) =
               Some (map (abstract_directive pol s) (directive_defs s))).
  { apply decode_list_map. intros d Hin. apply ll_directive.
    pose proof (wf_directive_args s Hwf) as H. rewrite forallb_forall in H. apply H. exact Hin. }
  unfold decode_query, render, abstract_normal, of_source.
  destruct (root_type_name s OpMutation) as [m|]; destruct (root_type_name s OpSubscription) as [su|];
    destruct pol; cbn; rewrite Ht, Hd; reflexivity.
Qed.

(* ================================================================ recover *)
Lemma rb_out_ref s t : ty_of_out_ref (out_ref_of s t) = Some t.
Proof.
  induction t as [n|c IH|c IH]; cbn [out_ref_of ty_of_out_ref].
  - destruct (type_by_name s n) as [[]|]; reflexivity.
  - rewrite IH. reflexivity.
  - rewrite IH. reflexivity.
Qed.
Lemma rb_in_ref s t : ty_of_in_ref (in_ref_of s t) = Some t.
Proof.
  induction t as [n|c IH|c IH]; cbn [in_ref_of ty_of_in_ref].
  - destruct (type_by_name s n) as [[]|]; reflexivity.
  - rewrite IH. reflexivity.
  - rewrite IH. reflexivity.
Qed.

Lemma rb_iv pol s iv : rebuild_iv (abstract_input_value pol s iv) = Some (ess_iv_of iv).
Proof.
  unfold rebuild_iv, abstract_input_value, ess_iv_of. cbn [iiv_type_ref iiv_name iiv_default_value opt_bind].
  rewrite rb_in_ref. cbn [opt_bind]. destruct (default_text iv); reflexivity.
Qed.
Lemma rb_ivs pol s ivs : map_opt rebuild_iv (map (abstract_input_value pol s) ivs) = Some (map ess_iv_of ivs).
Proof. apply map_opt_map. intros x _. apply rb_iv. Qed.

Lemma rb_field pol s f : rebuild_field (abstract_field pol s f) = Some (ess_field_of f).
Proof.
  unfold rebuild_field, abstract_field, ess_field_of. cbn [ifd_args ifd_type_ref ifd_name].
  rewrite rb_ivs, rb_out_ref. reflexivity.
Qed.
Lemma rb_fields pol s fs : map_opt rebuild_field (map (abstract_field pol s) fs) = Some (map ess_field_of fs).
Proof. apply map_opt_map. intros x _. apply rb_field. Qed.

Lemma map_name_nref l : map ntr_name (map nref l) = l.
Proof. rewrite map_map. apply map_id. Qed.

Lemma type_by_name_name s n t : type_by_name s n = Some t -> td_name t = n.
Proof.
  induction s as [|x s IH]; cbn [type_by_name]; [discriminate|].
  destruct x as [sd|t'|dd|e]; try exact IH.
  destruct (name_eqb (td_name t') n) eqn:E; [|exact IH].
  intro H. inversion H. subst t'. apply String.eqb_eq. exact E.
Qed.

(* the possible types of a well-formed union are its members *)
Lemma union_possible s n ms : wf_type s (TDUnion n ms) = true -> possible_object_names s (TDUnion n ms) = ms.
Proof.
  cbn [wf_type]. intro H. apply andb_prop in H. destruct H as [_ H].
  unfold possible_object_names. induction ms as [|m ms IH]; [reflexivity|].
  cbn [forallb] in H. apply andb_prop in H. destruct H as [Hm H].
  cbn [flat_map]. rewrite (IH H).
  destruct (type_by_name s m) as [[m' a b|? ? ?|? ?|?|? ?|? ?]|] eqn:E; try discriminate.
  apply type_by_name_name in E. cbn [td_name] in E. subst m'. reflexivity.
Qed.

Lemma rb_type pol s t : wf_type s t = true -> rebuild_type (abstract_type pol s t) = Some (ess_type_of t).
Proof.
  intro H. destruct t as [n ifs fs|n ifs fs|n ms|n|n vs|n fs].
  - cbn [abstract_type rebuild_type iob_fields iob_name iob_interfaces ess_type_of].
    rewrite rb_fields, map_name_nref. reflexivity.
  - cbn [abstract_type rebuild_type iif_fields iif_name iif_interfaces ess_type_of].
    rewrite rb_fields. destruct pol; [|destruct ifs]; cbn [opt_bind]; rewrite ?map_name_nref; reflexivity.
  - cbn [abstract_type rebuild_type iun_name iun_possible_types ess_type_of].
    rewrite map_name_nref, (union_possible _ _ _ H). reflexivity.
  - reflexivity.
  - cbn [abstract_type rebuild_type ien_name ien_enum_values ess_type_of].
    rewrite map_map. cbn [iev_name]. rewrite map_id. reflexivity.
  - cbn [abstract_type rebuild_type iio_name iio_input_fields ess_type_of].
    rewrite rb_ivs. reflexivity.
Qed.

Lemma rb_directive pol s d : rebuild_directive (abstract_directive pol s d) = Some (ess_directive_of d).
Proof.
  unfold rebuild_directive, abstract_directive, ess_directive_of.
  cbn [idr_args idr_name idr_is_repeatable idr_locations]. rewrite rb_ivs. reflexivity.
Qed.

Theorem recover pol s : wf_schema s = true -> rebuild (abstract_normal pol s) = Some (essence_of s).
Proof.
  intro Hwf. unfold rebuild, abstract_normal, essence_of.
  cbn [iq_schema isch_types isch_directives isch_query_type isch_mutation_type isch_subscription_type].
  rewrite (map_opt_map rebuild_type (abstract_type pol s) ess_type_of).
  2:{ intros t Hin. apply rb_type. pose proof (wf_types s Hwf) as H. rewrite forallb_forall in H. apply H. exact Hin. }
  rewrite (map_opt_map rebuild_directive (abstract_directive pol s) ess_directive_of).
  2:{ intros d _. apply rb_directive. }
  cbn [opt_bind ntr_name nref].
  destruct (root_type_name s OpMutation); destruct (root_type_name s OpSubscription); reflexivity.
Qed.

(* the root names are those of the root operation OBJECT types of the schema (§3.3); the query
   root exists *)
Lemma recover_query_root s : wf_schema s = true ->
  exists t, root s OpQuery = Some t /\ e_query (essence_of s) = td_name t.
Proof.
  intro Hwf. pose proof (wf_query_root s Hwf) as H.
  destruct (root s OpQuery) as [t|] eqn:E; [|discriminate].
  exists t. split; [reflexivity|]. unfold essence_of, query_root_name, root_type_name. cbn [e_query]. rewrite E. reflexivity.
Qed.

Theorem recover_possible pol s : possible_of (abstract_normal pol s) = possible_of_schema s.
Proof.
  unfold possible_of, possible_of_schema, abstract_normal. cbn [iq_schema isch_types].
  induction (type_defs s) as [|t l IH]; [reflexivity|].
  cbn [map flat_map]. rewrite IH. f_equal.
  destruct t; cbn [abstract_type iif_name iif_possible_types iun_name iun_possible_types];
    rewrite ?map_name_nref; reflexivity.
Qed.

(* ================================================================ encode never repeats a key *)
Lemma nd_opt {A} (enc : A -> json) o :
  (forall x, o = Some x -> no_dup_keys (enc x) = true) -> no_dup_keys (enc_opt enc o) = true.
Proof. destruct o as [x|]; intro H; [apply H; reflexivity|reflexivity]. Qed.
Lemma nd_list {A} (enc : A -> json) l :
  (forall x, In x l -> no_dup_keys (enc x) = true) -> no_dup_keys (enc_list enc l) = true.
Proof.
  unfold enc_list. rewrite no_dup_keys_arr. induction l as [|x l IH]; intro H; [reflexivity|].
  cbn [map all_no_dup]. rewrite (H x (or_introl eq_refl)), IH; [reflexivity|].
  intros y Hy. apply H. right. exact Hy.
Qed.
Lemma nd_opt_str o : no_dup_keys (enc_opt JStr o) = true.
Proof. destruct o; reflexivity. Qed.
Lemma nd_opt_bool o : no_dup_keys (enc_opt JBool o) = true.
Proof. destruct o; reflexivity. Qed.

Lemma nd_named_ref r : no_dup_keys (encode_named_ref r) = true.
Proof. destruct r; reflexivity. Qed.
Lemma nd_out_ref r : no_dup_keys (encode_out_ref r) = true.
Proof.
  induction r as [r H1 H2| |x IH| |x IH] using out_ref_ind'; try reflexivity.
  - destruct r as [n|o|o|n|n|n|n|n]; try (exfalso; eapply H1; reflexivity); try (exfalso; eapply H2; reflexivity);
      destruct n; reflexivity.
  - change (encode_out_ref (OR_LIST (Some x))) with (tagged "LIST" [("ofType", encode_out_ref x)]).
    unfold tagged. rewrite no_dup_keys_obj. cbn. rewrite IH. reflexivity.
  - change (encode_out_ref (OR_NON_NULL (Some x))) with (tagged "NON_NULL" [("ofType", encode_out_ref x)]).
    unfold tagged. rewrite no_dup_keys_obj. cbn. rewrite IH. reflexivity.
Qed.
Lemma nd_in_ref r : no_dup_keys (encode_in_ref r) = true.
Proof.
  induction r as [r H1 H2| |x IH| |x IH] using in_ref_ind'; try reflexivity.
  - destruct r as [o|o|n|n|n]; try (exfalso; eapply H1; reflexivity); try (exfalso; eapply H2; reflexivity);
      destruct n; reflexivity.
  - change (encode_in_ref (IR_LIST (Some x))) with (tagged "LIST" [("ofType", encode_in_ref x)]).
    unfold tagged. rewrite no_dup_keys_obj. cbn. rewrite IH. reflexivity.
  - change (encode_in_ref (IR_NON_NULL (Some x))) with (tagged "NON_NULL" [("ofType", encode_in_ref x)]).
    unfold tagged. rewrite no_dup_keys_obj. cbn. rewrite IH. reflexivity.
Qed.

Lemma nd_opt_value o : value_normal o = true -> no_dup_keys (enc_opt enc_value o) = true.
Proof. destruct o as [v|]; [|reflexivity]. unfold enc_opt, enc_value. destruct v; cbn [value_normal]; intro H; try reflexivity; try discriminate; exact H. Qed.

Lemma nd_input_value x : input_value_normal x = true -> no_dup_keys (encode_input_value x) = true.
Proof.
  destruct x as [n d dv dep reason t]. unfold input_value_normal. cbn [iiv_default_value]. intro H.
  unfold encode_input_value. rewrite no_dup_keys_obj. cbn.
  rewrite !nd_opt_str, nd_opt_bool, (nd_opt_value _ H), (nd_opt encode_in_ref); [reflexivity|].
  intros r _. apply nd_in_ref.
Qed.
Lemma nd_input_values l : forallb input_value_normal l = true -> no_dup_keys (enc_list encode_input_value l) = true.
Proof.
  intro H. apply nd_list. intros x Hx. apply nd_input_value. rewrite forallb_forall in H. apply H. exact Hx.
Qed.
Lemma nd_named_refs l : no_dup_keys (enc_list encode_named_ref l) = true.
Proof. apply nd_list. intros x _. apply nd_named_ref. Qed.

Lemma nd_field x : field_normal x = true -> no_dup_keys (encode_field x) = true.
Proof.
  destruct x as [n d args dep reason t]. unfold field_normal. cbn [ifd_args]. intro H.
  unfold encode_field, tagged. rewrite no_dup_keys_obj. cbn.
  rewrite !nd_opt_str, nd_opt_bool, (nd_input_values _ H), nd_out_ref. reflexivity.
Qed.
Lemma nd_fields l : forallb field_normal l = true -> no_dup_keys (enc_list encode_field l) = true.
Proof.
  intro H. apply nd_list. intros x Hx. apply nd_field. rewrite forallb_forall in H. apply H. exact Hx.
Qed.
Lemma nd_enum_value x : no_dup_keys (encode_enum_value x) = true.
Proof.
  destruct x as [n d dep reason]. unfold encode_enum_value. rewrite no_dup_keys_obj. cbn.
  rewrite !nd_opt_str, nd_opt_bool. reflexivity.
Qed.

Lemma nd_type t : type_normal t = true -> no_dup_keys (encode_type t) = true.
Proof.
  destruct t as [x|x|x|x|x|x]; cbn [type_normal]; intro H; unfold encode_type, tagged; rewrite no_dup_keys_obj.
  - destruct x as [n d u]. cbn. rewrite !nd_opt_str. reflexivity.
  - destruct x as [n d fs is]. cbn [iob_fields] in H. cbn. rewrite nd_opt_str, (nd_fields _ H), nd_named_refs. reflexivity.
  - destruct x as [n d fs is ps]. cbn [iif_fields] in H. cbn.
    rewrite nd_opt_str, (nd_fields _ H), nd_named_refs, (nd_opt (enc_list encode_named_ref)); [reflexivity|].
    intros l _. apply nd_named_refs.
  - destruct x as [n d ps]. cbn. rewrite nd_opt_str, nd_named_refs. reflexivity.
  - destruct x as [n d vs]. cbn. rewrite nd_opt_str, (nd_list encode_enum_value); [reflexivity|].
    intros v _. apply nd_enum_value.
  - destruct x as [n d fs]. cbn [iio_input_fields] in H. cbn. rewrite nd_opt_str, (nd_input_values _ H). reflexivity.
Qed.

Lemma nd_directive x : directive_normal x = true -> no_dup_keys (encode_directive x) = true.
Proof.
  destruct x as [n d rep locs args]. unfold directive_normal. cbn [idr_args]. intro H.
  unfold encode_directive. rewrite no_dup_keys_obj. cbn.
  rewrite nd_opt_str, nd_opt_bool, (nd_input_values _ H), (nd_list encode_location); [reflexivity|].
  intros l _. reflexivity.
Qed.

Theorem encode_no_duplicates q : query_normal q = true -> no_dup_keys (encode_query q) = true.
Proof.
  destruct q as [[d qt mt st ts ds]]. unfold query_normal. cbn [iq_schema isch_types isch_directives].
  intro H. apply andb_prop in H. destruct H as [Ht Hd].
  unfold encode_query. rewrite no_dup_keys_obj. cbn.
  rewrite nd_opt_str, nd_named_ref, !(nd_opt encode_named_ref); try (intros r _; apply nd_named_ref).
  rewrite (nd_list encode_type), (nd_list encode_directive); [reflexivity| |].
  - intros x Hx. apply nd_directive. rewrite forallb_forall in Hd. apply Hd. exact Hx.
  - intros x Hx. apply nd_type. rewrite forallb_forall in Ht. apply Ht. exact Hx.
Qed.

(* ================================================================ shape *)
Lemma lookup_with_filter {A} (f : json -> A) k es :
  lookup_with f k es =
  match filter (fun kv => String.eqb k (fst kv)) es with
  | [] => LMissing
  | [(_, v)] => LOne (f v)
  | _ => LDup
  end.
Proof.
  induction es as [|[k' v] es IH]; [reflexivity|].
  cbn [lookup_with filter fst]. destruct (String.eqb k k'); [|exact IH].
  rewrite IH. destruct (filter (fun kv => String.eqb k (fst kv)) es) as [|[k1 v1] [|kv2 r]]; reflexivity.
Qed.

Lemma req_map_member {A} (dec : json -> option A) es i k a :
  req dec (SrcMap es) i k = Some a -> exists v, member k es = Some v /\ dec v = Some a.
Proof.
  unfold req, req_field, member. cbn [get]. rewrite lookup_with_filter.
  destruct (filter (fun kv => String.eqb k (fst kv)) es) as [|[k1 v1] [|kv2 r]]; try discriminate.
  intro H. exists v1. split; [reflexivity|exact H].
Qed.
Lemma opt_map_count {A} (dec : json -> option A) es i k a :
  opt dec (SrcMap es) i k = Some a -> Nat.leb (count_key k es) 1 = true.
Proof.
  unfold opt, opt_field, count_key. cbn [get]. rewrite lookup_with_filter.
  destruct (filter (fun kv => String.eqb k (fst kv)) es) as [|[k1 v1] [|kv2 r]]; try discriminate; reflexivity.
Qed.

Lemma schema_shape_ok j x : decode_schema j = Some x -> schema_shape j = true.
Proof.
  unfold decode_schema, of_source. intro H. inv_bind H. revert H. unfold decode_schema_src.
  destruct j as [| | | |l|es]; try discriminate; cbn [to_source] in E; inversion E; subst x0; cbn [arity_ok schema_shape].
  - destruct (Nat.eqb (List.length l) 6); [reflexivity|discriminate].
  - intro H. inv_bind H.
    repeat match goal with
           | E : req _ (SrcMap es) _ _ = Some _ |- _ =>
               apply req_map_member in E; let v := fresh "v" in let E1 := fresh "M" in let E2 := fresh "D" in
               destruct E as [v [E1 E2]]; rewrite E1
           | E : opt _ (SrcMap es) _ _ = Some _ |- _ => apply opt_map_count in E; rewrite E
           end.
    repeat match goal with
           | D : decode_list _ ?v = Some _ |- _ => unfold decode_list in D; destruct v; try discriminate D; clear D
           end.
    reflexivity.
Qed.

Theorem shape j q : decode_query j = Some q -> has_shape j = true.
Proof.
  unfold decode_query, of_source. intro H. inv_bind H. revert H. unfold decode_query_src.
  destruct j as [| | | |l|es]; try discriminate; cbn [to_source] in E; inversion E; subst x; cbn [arity_ok has_shape].
  - destruct l as [|sj [|y r]]; cbn [List.length Nat.eqb]; try discriminate.
    intro H. inv_bind H. unfold req, req_field in E0. cbn [get nth_with] in E0. eapply schema_shape_ok. exact E0.
  - intro H. inv_bind H. apply req_map_member in E0. destruct E0 as [v [M D]]. rewrite M.
    eapply schema_shape_ok. exact D.
Qed.

(* ================================================================ examples *)
(* the serde facts the model rests on, one closed instance each (each of these inputs was run
   through the real serde_json::from_str with the same outcome) *)
Section Examples.
  Let o := JObj.
  Let s := JStr.
  (* a repeated known key is an error, a repeated unknown key is not *)
  Example ex_dup_known : decode_named_ref (o [("name", s "A"); ("name", s "B")]) = None.
  Proof. reflexivity. Qed.
  Example ex_dup_unknown : decode_named_ref (o [("name", s "A"); ("x", JNum 1); ("x", JNum 2)]) = Some (mkNamedRef "A").
  Proof. reflexivity. Qed.
  Example ex_dup_option_null :
    decode_type (o [("kind", s "SCALAR"); ("name", s "A"); ("description", JNull); ("description", JNull)]) = None.
  Proof. reflexivity. Qed.
  (* null for a member that is not an Option, absent required member *)
  Example ex_null_required : decode_named_ref (o [("name", JNull)]) = None.
  Proof. reflexivity. Qed.
  Example ex_missing_required : decode_named_ref (o []) = None.
  Proof. reflexivity. Qed.
  (* the tag: absent, repeated, unknown, not a string; variant content in the same object *)
  Example ex_tag_missing : decode_out_ref false (o [("name", s "A")]) = None.
  Proof. reflexivity. Qed.
  Example ex_tag_twice : decode_out_ref false (o [("kind", s "SCALAR"); ("kind", s "SCALAR"); ("name", s "A")]) = None.
  Proof. reflexivity. Qed.
  Example ex_tag_unknown : decode_out_ref false (o [("kind", s "FOO"); ("name", s "A")]) = None.
  Proof. reflexivity. Qed.
  Example ex_tag_last : decode_out_ref false (o [("name", s "A"); ("ofType", JNull); ("kind", s "OBJECT")]) = Some (OR_OBJECT (mkNamedRef "A")).
  Proof. reflexivity. Qed.
  Example ex_list_without_oftype : decode_out_ref false (o [("kind", s "LIST")]) = Some (OR_LIST None).
  Proof. reflexivity. Qed.
  Example ex_input_ref_object_kind : decode_in_ref false (o [("kind", s "OBJECT"); ("name", s "A")]) = None.
  Proof. reflexivity. Qed.
  (* integer tags: only where the enum is read from buffered content *)
  Example ex_int_tag_direct : decode_out_ref false (o [("kind", JNum 1)]) = None.
  Proof. reflexivity. Qed.
  Example ex_int_tag_buffered :
    decode_out_ref false (o [("kind", s "LIST"); ("ofType", o [("kind", JNum 7); ("name", s "I")])]) =
    Some (OR_LIST (Some (OR_INTERFACE (mkNamedRef "I")))).
  Proof. reflexivity. Qed.
  Example ex_int_tag_range : decode_out_ref true (o [("kind", JNum 8); ("name", s "A")]) = None.
  Proof. reflexivity. Qed.
  Example ex_int_tag_type : decode_type (o [("kind", JNum 0); ("name", s "A")]) = None.
  Proof. reflexivity. Qed.
  (* the tag of the struct IntrospectionField is written, never read *)
  Example ex_field_kind_ignored :
    opt_map encode_field
      (decode_field false (o [("kind", JNum 1); ("kind", s "b"); ("name", s "f"); ("args", JArr []);
                              ("type", o [("kind", s "SCALAR"); ("name", s "A")])])) =
    Some (o [("kind", s "IntrospectionField"); ("name", s "f"); ("description", JNull); ("args", JArr []);
             ("isDeprecated", JNull); ("deprecationReason", JNull);
             ("type", o [("kind", s "SCALAR"); ("name", s "A")])]).
  Proof. reflexivity. Qed.
  (* positional forms *)
  Example ex_struct_array : decode_named_ref (JArr [s "A"]) = Some (mkNamedRef "A").
  Proof. reflexivity. Qed.
  Example ex_struct_array_long : decode_named_ref (JArr [s "A"; s "B"]) = None.
  Proof. reflexivity. Qed.
  Example ex_enum_array : decode_out_ref false (JArr [s "LIST"; JArr [s "SCALAR"; s "A"]]) = Some (OR_LIST (Some (OR_SCALAR (mkNamedRef "A")))).
  Proof. reflexivity. Qed.
  Example ex_query_array :
    decode_query (JArr [JArr [JNull; JArr [s "Q"]; JNull; JNull; JArr []; JArr []]]) =
    Some (mkIQuery (mkISchema None (mkNamedRef "Q") None None [] [])).
  Proof. reflexivity. Qed.
  (* DirectiveLocation *)
  Example ex_loc_string : decode_location (s "VARIABLE_DEFINITION") = Some LVariableDefinition.
  Proof. reflexivity. Qed.
  Example ex_loc_object : decode_location (o [("QUERY", JNull)]) = Some LQuery.
  Proof. reflexivity. Qed.
  Example ex_loc_object2 : decode_location (o [("QUERY", JNull); ("x", JNum 1)]) = None.
  Proof. reflexivity. Qed.
  (* serde_json::Value: the last of several members with one key survives *)
  Example ex_value_last_wins :
    opt_map iiv_default_value
      (decode_input_value false
         (o [("name", s "a");
             ("defaultValue", o [("z", o [("b", JNum 1)]); ("a", JNum 2); ("z", JNum 3); ("z", o [("k", JNum 1); ("k", JNum 2)])])])) =
    Some (Some (o [("a", JNum 2); ("z", o [("k", JNum 2)])])).
  Proof. reflexivity. Qed.
  (* the wrapper of a full GraphQL response is not accepted *)
  Example ex_data_wrapper :
    decode_query (o [("data", o [("__schema", o [("queryType", o [("name", s "Q")]); ("types", JArr []); ("directives", JArr [])])])]) = None.
  Proof. reflexivity. Qed.
End Examples.

(* the curated schemas: well-formed, printable defaults, and the theorems' conclusions hold by
   evaluation as well *)
From GTS Require Import PoolSchemas.
Definition pool_ok (p : option sdocument) : bool :=
  match p with
  | Some s =>
      wf_schema s && negb (has_unprintable_default s) &&
      forallb (fun pol =>
                 match decode_query (render pol s) with
                 | Some q => match rebuild q with Some _ => true | None => false end &&
                             no_dup_keys (encode_query q) && no_dup_keys (render pol s) &&
                             match decode_query (encode_query q) with Some _ => true | None => false end
                 | None => false
                 end) [PNull; PAbsent]
  | None => false
  end.
Example pools_ok :
  forallb pool_ok [pool_crate; pool_implicit; pool_minimal; pool_explicit_query_only; pool_pets; pool_knows_nothing] = true.
Proof. vm_compute. reflexivity. Qed.

(* C18_proofs.v — the helper queries of src/ast/ext.rs (name look-ups, root types, subtyping,
   possible types, type overlap, value comparison) agree with the declarative definitions of
   spec/SpecTypes.v on well-formed schemas. *)
From GT Require Import Ext Visitor.
From GTS Require Import Annot WfSchema SpecTypes.
From GTP Require Import VisitorFacts C07_proofs C06_proofs.

(* ================================================================ 0. small facts *)
Lemma n_eqb_iff a b : name_eqb a b = true <-> a = b.
Proof. unfold name_eqb. apply String.eqb_eq. Qed.
Lemma n_eqb_refl a : name_eqb a a = true.
Proof. apply n_eqb_iff. reflexivity. Qed.
Lemma n_mem_In x l : mem_name x l = true <-> In x l.
Proof.
  unfold mem_name. rewrite existsb_exists. split.
  - intros [y [Hy E]]. apply n_eqb_iff in E. subst y. exact Hy.
  - intro H. exists x. split; [exact H|apply n_eqb_refl].
Qed.

Lemma defines_type_defs s t : defines s t <-> In t (type_defs s).
Proof.
  unfold defines, type_defs. rewrite in_flat_map. split.
  - intro H. exists (SDType t). split; [exact H|left; reflexivity].
  - intros [x [Hx Ht]]. destruct x as [sd|t0|dd|ext]; try (destruct Ht).
    + subst t0. exact Hx.
    + destruct H.
Qed.

Lemma directive_defs_In s x : In (SDDirective x) s <-> In x (directive_defs s).
Proof.
  unfold directive_defs. rewrite in_flat_map. split.
  - intro H. exists (SDDirective x). split; [exact H|left; reflexivity].
  - intros [y [Hy Hx]]. destruct y as [sd|t0|dd|ext]; try (destruct Hx).
    + subst dd. exact Hy.
    + destruct H.
Qed.

Lemma find_first_none {A} (p : A -> bool) l :
  find_first p l = None <-> (forall x, In x l -> p x = false).
Proof.
  induction l as [|y r IH]; cbn [find_first].
  - split; [intros _ x []|reflexivity].
  - destruct (p y) eqn:E.
    + split; [discriminate|]. intro H. rewrite (H y (or_introl eq_refl)) in E. discriminate E.
    + rewrite IH. split.
      * intros H x [<-|Hx]; [exact E|apply H; exact Hx].
      * intros H x Hx. apply H. right. exact Hx.
Qed.

(* look-up by a unique key *)
Lemma find_first_key_iff {A} (f : A -> name) (l : list A) n x :
  nodup_names (map f l) = true ->
  (find_first (fun t => name_eqb (f t) n) l = Some x <-> In x l /\ f x = n).
Proof.
  intro Hu. split.
  - intro H. apply find_first_some in H. destruct H as [H1 H2]. apply n_eqb_iff in H2. split; assumption.
  - intros [Hx <-]. apply find_first_key; assumption.
Qed.

Lemma wf_uniq s : wf_schema s = true -> uniq_types s.
Proof. exact (wf_unique_types s). Qed.

Lemma wf_type_of s t : wf_schema s = true -> defines s t -> wf_type s t = true.
Proof.
  intros Hwf Ht. pose proof (wf_types s Hwf) as H. rewrite forallb_forall in H.
  apply H. apply defines_type_defs. exact Ht.
Qed.

(* ================================================================ 1. name look-ups *)
Lemma type_by_name_spec : forall s n t, wf_schema s = true ->
  (type_by_name s n = Some t <-> defines s t /\ td_name t = n).
Proof.
  intros s n t Hwf. rewrite type_by_name_find, defines_type_defs.
  apply find_first_key_iff. exact (wf_unique_types s Hwf).
Qed.

Lemma type_by_name_none_spec : forall s n,
  type_by_name s n = None <-> (forall t, defines s t -> td_name t <> n).
Proof.
  intros s n. rewrite type_by_name_find, find_first_none. split.
  - intros H t Ht E. apply defines_type_defs in Ht. apply n_eqb_iff in E.
    rewrite (H t Ht) in E. discriminate E.
  - intros H t Ht. destruct (name_eqb (td_name t) n) eqn:E; [|reflexivity].
    exfalso. apply n_eqb_iff in E. apply (H t); [apply defines_type_defs; exact Ht|exact E].
Qed.

Lemma directive_by_name_find s n :
  directive_by_name s n = find_first (fun x => name_eqb (dd_name x) n) (directive_defs s).
Proof.
  induction s as [|x r IH]; [reflexivity|].
  destruct x as [sd|t|dd|ext]; cbn [directive_by_name]; try exact IH.
  change (directive_defs (SDDirective dd :: r)) with (dd :: directive_defs r).
  cbn [find_first]. rewrite IH. reflexivity.
Qed.

Lemma directive_by_name_spec : forall s n x, wf_schema s = true ->
  (directive_by_name s n = Some x <-> In (SDDirective x) s /\ dd_name x = n).
Proof.
  intros s n x Hwf. rewrite directive_by_name_find, directive_defs_In.
  apply find_first_key_iff. exact (wf_unique_directives s Hwf).
Qed.

Lemma field_by_name_spec : forall s t n f, wf_schema s = true -> defines s t ->
  (field_by_name t n = Some f <->
   fd_name f = n /\ match t with TDObject _ _ fs | TDInterface _ _ fs => In f fs | _ => False end).
Proof.
  intros s t n f Hwf Ht. pose proof (wf_type_of s t Hwf Ht) as Hw.
  destruct t as [m ifs fs|m ifs fs|m types|m|m vs|m fs]; cbn [field_by_name];
    try (split; [discriminate|intros [_ []]]).
  - cbn [wf_type] in Hw. apply andb_prop in Hw. destruct Hw as [Hw _].
    unfold wf_fields in Hw. apply andb_prop in Hw. destruct Hw as [Hu _].
    rewrite (find_first_key_iff fd_name fs n f Hu). tauto.
  - cbn [wf_type] in Hw. apply andb_prop in Hw. destruct Hw as [Hw _].
    apply andb_prop in Hw. destruct Hw as [Hw _].
    unfold wf_fields in Hw. apply andb_prop in Hw. destruct Hw as [Hu _].
    rewrite (find_first_key_iff fd_name fs n f Hu). tauto.
Qed.

Lemma input_field_by_name_spec : forall s t n f, wf_schema s = true -> defines s t ->
  (input_field_by_name t n = Some f <->
   iv_name f = n /\ match t with TDInputObject _ fs => In f fs | _ => False end).
Proof.
  intros s t n f Hwf Ht. pose proof (wf_type_of s t Hwf Ht) as Hw.
  destruct t as [m ifs fs|m ifs fs|m types|m|m vs|m fs]; cbn [input_field_by_name];
    try (split; [discriminate|intros [_ []]]).
  cbn [wf_type] in Hw. unfold wf_input_values in Hw. apply andb_prop in Hw. destruct Hw as [Hu _].
  rewrite (find_first_key_iff iv_name fs n f Hu). tauto.
Qed.

Lemma type_map_get_spec : forall s n, wf_schema s = true -> type_map_get s n = type_by_name s n.
Proof. intros s n Hwf. apply type_map_get_by_name. exact (wf_uniq s Hwf). Qed.

(* ================================================================ 2. root operation types *)
Lemma roots_spec : forall s, wf_schema s = true ->
  query_type s = root s OpQuery /\ mutation_type s = root s OpMutation /\
  subscription_type s = root s OpSubscription.
Proof.
  intros s Hwf. pose proof (wf_query_entry_ok s Hwf) as Hq.
  unfold query_entry_ok in Hq.
  unfold query_type, mutation_type, subscription_type, root, root_name, schema_definition.
  destruct (find_schema_def s) as [sd|].
  - destruct (sd_query sd) as [q|]; [|discriminate Hq]. cbn [opt_bind]. repeat split; reflexivity.
  - cbn. repeat split; reflexivity.
Qed.

(* ================================================================ 3. values *)
Lemma value_compare_list_iff (l : list value) :
  Forall (fun a => forall b, value_compare a b = true <-> value_eq a b) l ->
  forall l',
  (Nat.eqb (List.length l) (List.length l') &&
   (fix go (x y : list value) : bool :=
      match x, y with
      | u :: x', v :: y' => value_compare u v && go x' y'
      | _, _ => true
      end) l l' = true) <-> Forall2 value_eq l l'.
Proof.
  intro IH. induction IH as [|a r Ha Hr IHr]; intros [|b r'].
  - split; [constructor|reflexivity].
  - split; [discriminate|intro H; inversion H].
  - split; [discriminate|intro H; inversion H].
  - cbn [List.length Nat.eqb]. specialize (IHr r'). split.
    + intro H. apply andb_prop in H. destruct H as [Hl H]. apply andb_prop in H. destruct H as [H1 H2].
      constructor; [apply Ha; exact H1|]. apply IHr. rewrite Hl, H2. reflexivity.
    + intro H. inversion H as [|? ? ? ? H1 H2]; subst. apply IHr in H2.
      apply andb_prop in H2. destruct H2 as [Hl H2]. apply Ha in H1. rewrite Hl, H1, H2. reflexivity.
Qed.

Lemma value_compare_obj_iff (l : list (name * value)) :
  Forall (fun kv => forall b, value_compare (snd kv) b = true <-> value_eq (snd kv) b) l ->
  forall l',
  (Nat.eqb (List.length l) (List.length l') &&
   (fix go (x y : list (name * value)) : bool :=
      match x, y with
      | (k, u) :: x', (k', v) :: y' => name_eqb k k' && value_compare u v && go x' y'
      | _, _ => true
      end) l l' = true) <->
  Forall2 (fun kv kv' : name * value => fst kv = fst kv' /\ value_eq (snd kv) (snd kv')) l l'.
Proof.
  intro IH. induction IH as [|[k a] r Ha Hr IHr]; intros [|[k' b] r'].
  - split; [constructor|reflexivity].
  - split; [discriminate|intro H; inversion H].
  - split; [discriminate|intro H; inversion H].
  - cbn [List.length Nat.eqb]. specialize (IHr r'). cbn [snd] in Ha. split.
    + intro H. apply andb_prop in H. destruct H as [Hl H]. apply andb_prop in H. destruct H as [H1 H2].
      apply andb_prop in H1. destruct H1 as [Hk H1].
      constructor.
      * cbn [fst snd]. split; [apply n_eqb_iff; exact Hk|apply Ha; exact H1].
      * apply IHr. rewrite Hl, H2. reflexivity.
    + intro H. inversion H as [|? ? ? ? H1 H2]; subst. apply IHr in H2.
      apply andb_prop in H2. destruct H2 as [Hl H2]. cbn [fst snd] in H1. destruct H1 as [Hk H1].
      apply Ha in H1. apply n_eqb_iff in Hk. rewrite Hl, Hk, H1, H2. reflexivity.
Qed.

Lemma value_compare_spec : forall a b, value_compare a b = true <-> value_eq a b.
Proof.
  intro a. induction a as [n|z|x|str|x| |n|l IH|l IH] using value_ind'; intro b.
  - destruct b; cbn [value_compare]; try (split; [discriminate|intro H; inversion H]).
    rewrite n_eqb_iff. split; [intros ->; constructor|intro H; inversion H; reflexivity].
  - destruct b; cbn [value_compare]; try (split; [discriminate|intro H; inversion H]).
    rewrite Z.eqb_eq. split; [intros ->; constructor|intro H; inversion H; reflexivity].
  - destruct b; cbn [value_compare]; try (split; [discriminate|intro H; inversion H]).
    split; [intro H; constructor; exact H|intro H; inversion H; assumption].
  - destruct b; cbn [value_compare]; try (split; [discriminate|intro H; inversion H]).
    rewrite String.eqb_eq. split; [intros ->; constructor|intro H; inversion H; reflexivity].
  - destruct b; cbn [value_compare]; try (split; [discriminate|intro H; inversion H]).
    rewrite Bool.eqb_true_iff. split; [intros ->; constructor|intro H; inversion H; reflexivity].
  - destruct b; cbn [value_compare]; try (split; [discriminate|intro H; inversion H]).
    split; [intros _; constructor|reflexivity].
  - destruct b; cbn [value_compare]; try (split; [discriminate|intro H; inversion H]).
    rewrite n_eqb_iff. split; [intros ->; constructor|intro H; inversion H; reflexivity].
  - destruct b as [| | | | | | |l'|]; cbn [value_compare]; try (split; [discriminate|intro H; inversion H]).
    rewrite (value_compare_list_iff l IH l').
    split; [intro H; constructor; exact H|intro H; inversion H; assumption].
  - destruct b as [| | | | | | | |l']; cbn [value_compare]; try (split; [discriminate|intro H; inversion H]).
    rewrite (value_compare_obj_iff l IH l').
    split; [intro H; constructor; exact H|intro H; inversion H; assumption].
Qed.

Lemma variables_in_use_spec : forall v x, In x (variables_in_use v) <-> var_leaf x v.
Proof.
  intros v x. induction v as [n|z|b|str|b| |n|l IH|l IH] using value_ind';
    cbn [variables_in_use]; try (split; [intros []|intro H; inversion H]; fail).
  - split; [intros [<-|[]]; constructor|intro H; inversion H; left; reflexivity].
  - rewrite in_flat_map. rewrite Forall_forall in IH. split.
    + intros [u [Hu Hx]]. apply (vl_list x l u Hu). apply IH; assumption.
    + intro H. inversion H as [|l0 u Hu Hx|]; subst. exists u. split; [exact Hu|apply IH; assumption].
  - rewrite in_flat_map. rewrite Forall_forall in IH. split.
    + intros [[k u] [Hu Hx]]. apply (vl_object x l k u Hu). apply (IH (k, u) Hu). exact Hx.
    + intro H. inversion H as [| |l0 k u Hu Hx]; subst. exists (k, u).
      split; [exact Hu|apply (IH (k, u) Hu); exact Hx].
Qed.

Lemma iv_is_required_spec : forall iv,
  iv_is_required iv = true <-> is_non_null (iv_type iv) = true /\ iv_default iv = None.
Proof.
  intro iv. unfold iv_is_required. destruct (iv_type iv); cbn [is_non_null];
    try (split; [discriminate|intros [H _]; discriminate H]).
  destruct (iv_default iv); cbn [is_none]; split; try discriminate; try tauto.
  intros [_ H]; discriminate H.
Qed.

(* ================================================================ 4. possible types, overlap *)
Lemma rel_possible_object s t o :
  td_is_abstract t = true ->
  (In o (type_defs s) /\ td_is_object o = true /\ rel t o = true <-> possible_object s t o).
Proof.
  intro Ha. unfold possible_object. rewrite defines_type_defs.
  destruct t as [m ifs fs|m ifs fs|m types|m|m vs|m fs]; try discriminate Ha; cbn [rel];
    rewrite n_mem_In; tauto.
Qed.

Lemma possible_types_spec : forall s t o, wf_schema s = true -> defines s t ->
  (In o (possible_types s t) <-> possible_object s t o).
Proof.
  intros s t o Hwf Ht. destruct (td_is_abstract t) eqn:Ha.
  - rewrite (C06_proofs.possible_types_spec s (wf_uniq s Hwf) t o Ha).
    apply rel_possible_object. exact Ha.
  - unfold possible_object.
    destruct t as [m ifs fs|m ifs fs|m types|m|m vs|m fs]; try discriminate Ha;
      cbn [possible_types]; (split; [intros []|intros [_ [_ []]]]).
Qed.

Lemma rel_runtime_object s t o :
  uniq_types s -> In t (type_defs s) -> td_is_composite t = true ->
  (In o (type_defs s) /\ td_is_object o = true /\ rel t o = true <-> runtime_object s t o).
Proof.
  intros Hu Ht Hc. unfold runtime_object.
  destruct (composite_cases t Hc) as [Ha|Ho].
  - rewrite (rel_possible_object s t o Ha).
    split; [intro H; right; exact H|]. intros [[H _]|H]; [|exact H].
    rewrite (object_not_abstract t H) in Ha. discriminate Ha.
  - split.
    + intros [H1 [H2 H3]]. left. split; [exact Ho|].
      apply (type_defs_inj s o t Hu H1 Ht). symmetry. apply rel_object_name; assumption.
    + intros [[_ ->]|H].
      * split; [exact Ht|]. split; [exact Ho|]. apply rel_object_self. exact Ho.
      * exfalso. destruct H as [_ [_ H]]. destruct t; try discriminate Ho. exact H.
Qed.

Lemma do_types_overlap_spec : forall s a b, wf_schema s = true -> defines s a -> defines s b ->
  td_is_composite a = true -> td_is_composite b = true ->
  (do_types_overlap s a b = true <-> overlap_spec s a b).
Proof.
  intros s a b Hwf Ha Hb Ca Cb. pose proof (wf_uniq s Hwf) as Hu.
  apply defines_type_defs in Ha. apply defines_type_defs in Hb.
  rewrite (C06_proofs.do_types_overlap_spec s Hu a b Ha Hb Ca Cb).
  unfold overlap_spec, common. apply or_iff_compat_l. split.
  - intros [o [H1 [H2 [H3 H4]]]]. exists o. split.
    + apply (rel_runtime_object s a o Hu Ha Ca). repeat split; assumption.
    + apply (rel_runtime_object s b o Hu Hb Cb). repeat split; assumption.
  - intros [o [H1 H2]].
    apply (rel_runtime_object s a o Hu Ha Ca) in H1. apply (rel_runtime_object s b o Hu Hb Cb) in H2.
    exists o. tauto.
Qed.

Lemma overlap_spec_sym s a b : overlap_spec s a b -> overlap_spec s b a.
Proof.
  intros [E|[o [H1 H2]]]; [left; symmetry; exact E|right; exists o; split; assumption].
Qed.

Lemma do_types_overlap_sym : forall s a b, wf_schema s = true -> defines s a -> defines s b ->
  td_is_composite a = true -> td_is_composite b = true ->
  do_types_overlap s a b = do_types_overlap s b a.
Proof.
  intros s a b Hwf Ha Hb Ca Cb. apply eq_true_iff_eq.
  rewrite (do_types_overlap_spec s a b Hwf Ha Hb Ca Cb), (do_types_overlap_spec s b a Hwf Hb Ha Cb Ca).
  split; apply overlap_spec_sym.
Qed.

(* ================================================================ 5. subtyping *)
(* the named-type test: member of a union / declared implementer of an interface *)
Lemma possible_type_member s tx ty :
  wf_schema s = true -> defines s tx -> defines s ty ->
  (td_is_abstract ty && is_possible_type ty tx = true <->
   member_or_implementer s (td_name tx) (td_name ty)).
Proof.
  intros Hwf Hx Hy. pose proof (wf_uniq s Hwf) as Hu. split.
  - intro H. apply andb_prop in H. destruct H as [Ha Hp].
    exists tx, ty. repeat split; try assumption.
    destruct ty as [m ifs fs|m ifs fs|m types|m|m vs|m fs]; try discriminate Ha;
      cbn [is_possible_type td_name] in *.
    + apply n_mem_In. exact Hp.
    + apply existsb_exists in Hp. destruct Hp as [y [Hy' E]]. apply n_eqb_iff in E. subst y. exact Hy'.
  - intros [tx' [ty' [Hx' [Hy' [Ex [Ey H]]]]]].
    assert (tx' = tx).
    { apply (type_defs_inj s tx' tx Hu); [apply defines_type_defs; exact Hx'|apply defines_type_defs; exact Hx|exact Ex]. }
    assert (ty' = ty).
    { apply (type_defs_inj s ty' ty Hu); [apply defines_type_defs; exact Hy'|apply defines_type_defs; exact Hy|exact Ey]. }
    subst tx' ty'.
    destruct ty as [m ifs fs|m ifs fs|m types|m|m vs|m fs]; try (exfalso; exact H);
      cbn [td_is_abstract is_possible_type td_name andb] in *.
    + apply n_mem_In. exact H.
    + apply existsb_exists. exists (td_name tx). split; [exact H|apply n_eqb_refl].
Qed.

Lemma member_defined s x y : member_or_implementer s x y ->
  exists tx ty, defines s tx /\ defines s ty /\ td_name tx = x /\ td_name ty = y.
Proof. intros [tx [ty [H1 [H2 [H3 [H4 _]]]]]]. exists tx, ty. tauto. Qed.

Lemma is_named_subtype_spec : forall s x y, wf_schema s = true ->
  (is_named_subtype s x y = true <-> x = y \/ member_or_implementer s x y).
Proof.
  intros s x y Hwf. unfold is_named_subtype.
  destruct (name_eqb x y) eqn:E.
  { apply n_eqb_iff in E. split; [intros _; left; exact E|reflexivity]. }
  assert (Hne : x <> y) by (intro H; apply n_eqb_iff in H; rewrite H in E; discriminate E).
  split.
  - destruct (type_by_name s x) as [tx|] eqn:Ex; [|discriminate].
    destruct (type_by_name s y) as [ty|] eqn:Ey; [|discriminate].
    apply (type_by_name_spec s x tx Hwf) in Ex. apply (type_by_name_spec s y ty Hwf) in Ey.
    destruct Ex as [Hx <-]. destruct Ey as [Hy <-].
    intro H. right. apply (possible_type_member s tx ty Hwf Hx Hy). exact H.
  - intros [H|H]; [contradiction|].
    destruct (member_defined s x y H) as [tx [ty [Hx [Hy [Ex Ey]]]]].
    rewrite (proj2 (type_by_name_spec s x tx Hwf) (conj Hx Ex)).
    rewrite (proj2 (type_by_name_spec s y ty Hwf) (conj Hy Ey)).
    subst x y. apply (possible_type_member s tx ty Hwf Hx Hy). exact H.
Qed.

(* fuel-free equation *)
Definition named_subtype (s : sdocument) (x y : name) : bool :=
  match type_by_name s x, type_by_name s y with
  | Some sub_t, Some super_t =>
      td_is_abstract super_t && (td_is_interface sub_t || td_is_object sub_t)
      && is_possible_type super_t sub_t
  | _, _ => false
  end.

Lemma is_subtype_unfold s a b :
  is_subtype s a b =
  if ty_eqb a b then true else
  match a, b with
  | TNonNull a', TNonNull b' => is_subtype s a' b'
  | _, TNonNull _ => false
  | TNonNull a', _ => is_subtype s a' b
  | TList a', TList b' => is_subtype s a' b'
  | TNamed x, TNamed y => named_subtype s x y
  | _, _ => false
  end.
Proof.
  unfold is_subtype at 1.
  destruct (ty_size a + ty_size b) as [|k] eqn:Ek; [pose proof (ty_size_pos a); lia|].
  cbn [is_subtype_fuel]. destruct (ty_eqb a b); [reflexivity|].
  destruct b as [y|bi|bi]; destruct a as [x|ai|ai];
    cbn [is_non_null is_list_type of_type ty_size inner_type] in *; try reflexivity;
    apply is_subtype_fuel_enough; cbn [ty_size]; lia.
Qed.

Lemma ty_eqb_iff a : forall b, ty_eqb a b = true <-> a = b.
Proof.
  induction a as [x|a IH|a IH]; intros [y|b|b]; cbn [ty_eqb]; try (split; discriminate).
  - rewrite n_eqb_iff. split; [intros ->; reflexivity|intro H; injection H as ->; reflexivity].
  - rewrite IH. split; [intros ->; reflexivity|intro H; injection H as ->; reflexivity].
  - rewrite IH. split; [intros ->; reflexivity|intro H; injection H as ->; reflexivity].
Qed.

Lemma is_subtype_refl : forall s a, is_subtype s a a = true.
Proof.
  intros s a. rewrite is_subtype_unfold. rewrite (proj2 (ty_eqb_iff a a) eq_refl). reflexivity.
Qed.

Lemma named_subtype_spec s x y : wf_schema s = true ->
  (named_subtype s x y = true <->
   (exists tx, defines s tx /\ td_name tx = x /\ (td_is_object tx = true \/ td_is_interface tx = true)) /\
   member_or_implementer s x y).
Proof.
  intro Hwf. unfold named_subtype. split.
  - destruct (type_by_name s x) as [tx|] eqn:Ex; [|discriminate].
    destruct (type_by_name s y) as [ty|] eqn:Ey; [|discriminate].
    apply (type_by_name_spec s x tx Hwf) in Ex. apply (type_by_name_spec s y ty Hwf) in Ey.
    destruct Ex as [Hx <-]. destruct Ey as [Hy <-].
    intro H. apply andb_prop in H. destruct H as [H Hp]. apply andb_prop in H. destruct H as [Ha Hk].
    split.
    + exists tx. split; [exact Hx|]. split; [reflexivity|].
      apply orb_prop in Hk. tauto.
    + apply (possible_type_member s tx ty Hwf Hx Hy). rewrite Ha, Hp. reflexivity.
  - intros [[tx0 [Hx0 [Ex0 Hk]]] H].
    destruct (member_defined s x y H) as [tx [ty [Hx [Hy [Ex Ey]]]]].
    rewrite (proj2 (type_by_name_spec s x tx Hwf) (conj Hx Ex)).
    rewrite (proj2 (type_by_name_spec s y ty Hwf) (conj Hy Ey)).
    assert (tx0 = tx).
    { apply (type_defs_inj s tx0 tx (wf_uniq s Hwf));
        [apply defines_type_defs; exact Hx0|apply defines_type_defs; exact Hx|congruence]. }
    subst tx0 x y.
    apply (possible_type_member s tx ty Hwf Hx Hy) in H. apply andb_prop in H. destruct H as [Ha Hp].
    rewrite Ha, Hp. destruct Hk as [-> | ->]; [rewrite orb_true_r|]; reflexivity.
Qed.

Lemma is_subtype_spec : forall s a b, wf_schema s = true ->
  (is_subtype s a b = true <-> subtype_spec s a b).
Proof.
  intros s a b Hwf. revert b.
  induction a as [x|a IH|a IH]; intro b; rewrite is_subtype_unfold;
    destruct (ty_eqb _ b) eqn:E.
  all: try (apply ty_eqb_iff in E; subst b; split; [intros _; apply st_refl|reflexivity]).
  all: assert (Hne : forall t, t = b -> ty_eqb t b = true) by (intros t ->; apply ty_eqb_iff; reflexivity).
  - (* named *)
    destruct b as [y|b|b].
    + rewrite (named_subtype_spec s x y Hwf). split.
      * intros [H1 H2]. apply st_named; assumption.
      * intro H. inversion H as [t| | | |x' y' H1 H2]; subst.
        -- rewrite (Hne _ eq_refl) in E. discriminate E.
        -- split; assumption.
    + split; [discriminate|]. intro H. inversion H.
    + split; [discriminate|]. intro H. inversion H.
  - (* list *)
    destruct b as [y|b|b].
    + split; [discriminate|]. intro H. inversion H.
    + rewrite IH. split.
      * intro H. apply st_list. exact H.
      * intro H. inversion H as [t| | |a' b' H1|]; subst; [|exact H1].
        rewrite (Hne _ eq_refl) in E. discriminate E.
    + split; [discriminate|]. intro H. inversion H.
  - (* non-null *)
    destruct b as [y|b|b].
    + rewrite IH. split.
      * intro H. apply st_nonnull_left; [reflexivity|exact H].
      * intro H. inversion H; subst. assumption.
    + rewrite IH. split.
      * intro H. apply st_nonnull_left; [reflexivity|exact H].
      * intro H. inversion H; subst. assumption.
    + rewrite IH. split.
      * intro H. apply st_nonnull_both. exact H.
      * intro H. inversion H as [t|a' b' H1|a' b' Hn H1| |]; subst.
        -- rewrite (Hne _ eq_refl) in E. discriminate E.
        -- exact H1.
        -- discriminate Hn.
Qed.

(* ---- transitivity ---- *)
Lemma wf_implements_of s t : wf_schema s = true -> defines s t ->
  (td_is_object t = true \/ td_is_interface t = true) ->
  forall i, In i (td_interfaces t) ->
  exists super fs, defines s (TDInterface i super fs) /\
                   forall j, In j super -> In j (td_interfaces t).
Proof.
  intros Hwf Ht Hk i Hi. pose proof (wf_type_of s t Hwf Ht) as Hw.
  assert (Hi' : wf_implements s (td_interfaces t)
                  (match t with TDObject _ _ fs | TDInterface _ _ fs => fs | _ => [] end) = true).
  { destruct t as [m ifs fs|m ifs fs|m types|m|m vs|m fs]; cbn [td_interfaces wf_type] in *.
    - apply andb_prop in Hw. apply Hw.
    - apply andb_prop in Hw. destruct Hw as [Hw _]. apply andb_prop in Hw. apply Hw.
    - destruct Hk as [Hk|Hk]; discriminate Hk.
    - destruct Hk as [Hk|Hk]; discriminate Hk.
    - destruct Hk as [Hk|Hk]; discriminate Hk.
    - destruct Hk as [Hk|Hk]; discriminate Hk. }
  unfold wf_implements in Hi'. apply andb_prop in Hi'. destruct Hi' as [_ Hall].
  rewrite forallb_forall in Hall. specialize (Hall i Hi).
  destruct (type_by_name s i) as [ti|] eqn:Ei; [|discriminate Hall].
  destruct ti as [m ifs fs|m super fs|m types|m|m vs|m fs]; try discriminate Hall.
  apply andb_prop in Hall. destruct Hall as [_ Hsup].
  apply (type_by_name_spec s i _ Hwf) in Ei. destruct Ei as [Hd En]. cbn [td_name] in En. subst m.
  exists super, fs. split; [exact Hd|].
  intros j Hj. rewrite forallb_forall in Hsup. apply n_mem_In. apply Hsup. exact Hj.
Qed.

Lemma member_trans s x y z : wf_schema s = true ->
  (exists tx, defines s tx /\ td_name tx = x /\ (td_is_object tx = true \/ td_is_interface tx = true)) ->
  member_or_implementer s x y ->
  (exists ty, defines s ty /\ td_name ty = y /\ (td_is_object ty = true \/ td_is_interface ty = true)) ->
  member_or_implementer s y z ->
  member_or_implementer s x z.
Proof.
  intros Hwf [tx [Hx [Ex Kx]]] Hxy [ty [Hy [Ey Ky]]] Hyz.
  pose proof (wf_uniq s Hwf) as Hu.
  assert (Huniq : forall p q, defines s p -> defines s q -> td_name p = td_name q -> p = q).
  { intros p q Hp Hq. apply (type_defs_inj s p q Hu); apply defines_type_defs; assumption. }
  destruct Hxy as [tx' [ty' [Hx' [Hy' [Ex' [Ey' Hm1]]]]]].
  assert (tx' = tx) by (apply Huniq; congruence).
  assert (ty' = ty) by (apply Huniq; congruence). subst tx' ty'.
  destruct Hyz as [ty' [tz [Hy'' [Hz [Ey'' [Ez Hm2]]]]]].
  assert (ty' = ty) by (apply Huniq; congruence). subst ty'.
  (* ty is an interface: it is abstract (a super type) and an object or interface (a sub type) *)
  destruct ty as [m ifs fs|m ifs fs|m types|m|m vs|m fs];
    try (exfalso; exact Hm1); try (destruct Ky as [Ky|Ky]; discriminate Ky).
  cbn [td_name] in *. subst m.
  destruct tz as [k ifs' fs'|k ifs' fs'|k types|k|k vs|k fs']; try (exfalso; exact Hm2).
  - (* z an interface: declared transitively by tx *)
    cbn [td_interfaces td_name] in *. subst k.
    destruct (wf_implements_of s tx Hwf Hx Kx y Hm1) as [super [fs0 [Hd Hsup]]].
    assert (E : TDInterface y super fs0 = TDInterface y ifs fs) by (apply Huniq; [exact Hd|exact Hy|reflexivity]).
    injection E as -> ->.
    exists tx, (TDInterface z ifs' fs'). repeat split; try assumption.
    cbn [td_name]. apply Hsup. exact Hm2.
  - (* z a union: its members are object types, y is an interface *)
    exfalso. pose proof (wf_type_of s _ Hwf Hz) as Hw. cbn [wf_type] in Hw.
    apply andb_prop in Hw. destruct Hw as [_ Hall]. rewrite forallb_forall in Hall.
    specialize (Hall y Hm2).
    rewrite (proj2 (type_by_name_spec s y _ Hwf) (conj Hy eq_refl)) in Hall. discriminate Hall.
Qed.

Lemma subtype_spec_nonnull_super s b c :
  subtype_spec s b c -> is_non_null c = true -> is_non_null b = true.
Proof. intros H. inversion H; subst; cbn [is_non_null]; congruence. Qed.

Lemma subtype_spec_trans s : wf_schema s = true ->
  forall a b, subtype_spec s a b -> forall c, subtype_spec s b c -> subtype_spec s a c.
Proof.
  intros Hwf a b Hab. induction Hab as [t|a b Hab IH|a b Hn Hab IH|a b Hab IH|x y Hk Hm]; intros c Hbc.
  - exact Hbc.
  - inversion Hbc as [t|a' c' H1|a' c' Hn' H1| |]; subst.
    + apply st_nonnull_both. exact Hab.
    + apply st_nonnull_both. apply IH. exact H1.
    + apply st_nonnull_left; [exact Hn'|]. apply IH. exact H1.
  - destruct (is_non_null c) eqn:Hc.
    + rewrite (subtype_spec_nonnull_super s b c Hbc Hc) in Hn. discriminate Hn.
    + apply st_nonnull_left; [exact Hc|]. apply IH. exact Hbc.
  - inversion Hbc as [t| | |a' c' H1|]; subst.
    + apply st_list. exact Hab.
    + apply st_list. apply IH. exact H1.
  - inversion Hbc as [t| | | |y' z Hk' Hm']; subst.
    + apply st_named; assumption.
    + apply st_named; [exact Hk|]. apply (member_trans s x y z Hwf Hk Hm Hk' Hm').
Qed.

Lemma is_subtype_trans : forall s a b c, wf_schema s = true ->
  is_subtype s a b = true -> is_subtype s b c = true -> is_subtype s a c = true.
Proof.
  intros s a b c Hwf H1 H2.
  apply (is_subtype_spec s a b Hwf) in H1. apply (is_subtype_spec s b c Hwf) in H2.
  apply (is_subtype_spec s a c Hwf). apply (subtype_spec_trans s Hwf a b H1 c H2).
Qed.

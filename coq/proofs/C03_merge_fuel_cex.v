(* C03_merge_fuel_cex.v — why the FIRST fuel constant of theories/Merge.v (4*(nf+2)*(4+3*ng)+16) was too small.
   [mrun] uses its fuel as a bound on the nesting depth of calls.  The document

     fragment A on T { t{t{t{t{t{t{t{t{t{t{t{t{t{ ...A }}}}}}}}}}}}}      (13 nested fields)
                       t{t{t{t{t{t{t{t{t{t{t{t{ ...A }}}}}}}}}}}} }       (12 nested fields)

   over the pool schema `minimal` (type T { a b t: T l: [T] }) has nf = 25 fields, ng = 1
   fragment, all node positions distinct; merge_fuel = 4*(25+2)*(4+3*1)+16 = 772, but comparing
   the two top-level fields of A walks the two cycles of coprime lengths 13 and 12 through
   13*12 = 156 distinct pairs of fields before the memo [ms_being] cuts the search, at 3 to 5
   nested calls per pair: the depth needed is 776.  The real code has no fuel and terminates.

   The lemmas below use explicit fuel, so they are independent of the constant; the constant of
   theories/Merge.v has since been corrected to dominate [merge_fuel'] (C03_merge_fuel_proofs.v),
   the former value is kept here as [cex_old_constant]. *)
From GT Require Import Visitor Validate Merge.
From GTS Require Import SpecLin WfSchema SpecRules PoolSchemas.
From GTP Require Import C03_merge_fuel_proofs.

Module Cex.
  Open Scope N_scope.
  Definition sch : sdocument := match pool_minimal with Some s => s | None => [] end.
  Definition fld (p : N) (ss : list selection) : selection :=
    SField (p, 1) None "t" [] [] ((p, 1), (p, 1)) ss.
  Definition spr (p : N) (n : name) : selection := SSpread (p, 2) n [].
  (* k nested fields  t { t { ... inner } } *)
  Fixpoint nest (k : nat) (base : N) (inner : list selection) : list selection :=
    match k with O => inner | S k' => [fld base (nest k' (base + 1) inner)] end.
  Definition cex_sels : list selection := nest 13 101 [spr 100 "A"] ++ nest 12 201 [spr 200 "A"].
  Definition cex_doc : document := [DFrag (mkFragment (1, 1) "A" "T" [] ((1, 1), (1, 1)) cex_sels)].
  Close Scope N_scope.

  (* ---------------------------------------------------------------- PART 1: explicit fuel *)
  Lemma cex_schema_wf : wf_schema sch = true.
  Proof. vm_compute. reflexivity. Qed.

  Lemma cex_size : doc_fields cex_doc = 25 /\ List.length (fragments_of cex_doc) = 1.
  Proof. vm_compute. split; reflexivity. Qed.

  Lemma cex_positions_unique : NoDup (map node_pos (doc_selections cex_doc)).
  Proof.
    vm_compute.
    repeat (constructor; [intro H; cbn [In] in H; repeat (destruct H as [H|H]; [discriminate H|]); exact H|]).
    constructor.
  Qed.

  (* the selection set of the fragment is a selection set of the document *)
  Lemma cex_selset : In (Enter (NSelectionSet ((1, 1)%N, (1, 1)%N) cex_sels)) (lin_document cex_doc).
  Proof. vm_compute. right. right. left. reflexivity. Qed.

  (* the depth needed: exactly 776 > 4*(nf+2)*(4+3*ng)+16 = 772 *)
  Lemma cex_depth :
    mrun 775 sch cex_doc (CWithinSelectionSet (type_by_name sch "T") cex_sels) (mkMS [] [] []) = None /\
    mrun 776 sch cex_doc (CWithinSelectionSet (type_by_name sch "T") cex_sels) (mkMS [] [] []) <> None.
  Proof. split; [vm_compute; reflexivity|vm_compute; discriminate]. Qed.

  Lemma cex_old_constant : 4 * (doc_fields cex_doc + 2) * (4 + 3 * List.length (fragments_of cex_doc)) + 16 = 772.
  Proof. vm_compute. reflexivity. Qed.

  Lemma cex_new_constant : merge_fuel' cex_doc = 7507.
  Proof. vm_compute. reflexivity. Qed.

  (* with the corrected constant the model answers on this document *)
  Lemma cex_now_ok : r_oof (snd (run_rule R_OverlappingFieldsCanBeMerged sch cex_doc ctx0)) = false.
  Proof. vm_compute. reflexivity. Qed.
End Cex.

Print Assumptions Cex.cex_depth.

(* C12_proofs.v — iteration-order independence: wherever the Rust code iterates a hash container to
   emit errors, enumerating the container in another order yields a permutation of the same errors. *)
From GT Require Import Visitor Validate.
From GTS Require Import SpecCollect.
From Coq Require Import Permutation.
From GTP Require Import TraceFacts RuleFacts C19_proofs C11_proofs.

(* ================================================================ counting rules *)
Lemma flat_map_perm {A B} (g : A -> list B) l l' :
  Permutation l l' -> Permutation (flat_map g l) (flat_map g l').
Proof. intro H. apply Permutation_flat_map. exact H. Qed.

(* UniqueOperationNames / UniqueFragmentNames: findings_counter.into_iter() *)
Lemma counts_finish_perm : forall r st st', Permutation st st' ->
  Permutation (counts_finish r st) (counts_finish r st').
Proof. intros r st st' H. unfold counts_finish. apply flat_map_perm. exact H. Qed.

(* ================================================================ unique_argument_names *)
Lemma cnt_perm k l l' : Permutation l l' -> cnt k l = cnt k l'.
Proof.
  intro H. induction H as [|x l l' _ IH|x y l|l l' l'' _ IH1 _ IH2].
  - reflexivity.
  - rewrite !cnt_cons, IH. reflexivity.
  - rewrite !cnt_cons. lia.
  - rewrite IH1. exact IH2.
Qed.

Lemma distinct_keys_perm l l' : Permutation l l' ->
  Permutation (distinct_keys l []) (distinct_keys l' []).
Proof.
  intro H. apply NoDup_Permutation; try apply distinct_keys_NoDup.
  intro k. rewrite !distinct_keys_In. split; intros [Hin Hn]; (split; [|exact Hn]).
  - apply (Permutation_in _ H). exact Hin.
  - apply (Permutation_in _ (Permutation_sym H)). exact Hin.
Qed.

(* the counting table of a permuted list is a permutation of the counting table *)
Lemma count_tab_perm l l' : Permutation l l' -> Permutation (count_tab l) (count_tab l').
Proof.
  intro H. unfold count_tab, tab.
  rewrite (map_ext (fun k => (k, cnt k l)) (fun k => (k, cnt k l'))).
  - apply Permutation_map. apply distinct_keys_perm. exact H.
  - intro k. rewrite (cnt_perm k l l' H). reflexivity.
Qed.

Lemma fold_left_map_fn' {A B C} (f : A -> B -> A) (g : C -> B) l a :
  fold_left (fun a x => f a (g x)) l a = fold_left f (map g l) a.
Proof. revert a. induction l as [|x r IH]; intro a; cbn [fold_left map]; [reflexivity|apply IH]. Qed.

Lemma uan_counts_tab (args : list argument) :
  fold_left (fun m (a : argument) => count_incr (fst a) m) args [] = count_tab (map fst args).
Proof.
  unfold argument. rewrite (fold_left_map_fn' (fun m n => count_incr n m) fst args []).
  fold (incr_all (map fst args) []). apply incr_all_nil.
Qed.

(* UniqueArgumentNames: found_args.iter() *)
Lemma uan_errors_perm : forall p args args', Permutation args args' ->
  Permutation (uan_errors p args) (uan_errors p args').
Proof.
  intros p args args' H. unfold uan_errors. cbv zeta. rewrite !uan_counts_tab.
  apply flat_map_perm. apply count_tab_perm. apply Permutation_map. exact H.
Qed.

(* ================================================================ no_unused_variables / no_undefined_variables *)
(* the reachability walk reads only the used-variables and spreads maps of the state *)
Lemma vars_walk_ext fuel : forall st st' pick from acc visited,
  vs_used st = vs_used st' -> vs_spreads st = vs_spreads st' ->
  vars_walk fuel st pick from acc visited = vars_walk fuel st' pick from acc visited.
Proof.
  induction fuel as [|fuel IH]; intros st st' pick from acc visited Hu Hs; [reflexivity|].
  cbn [vars_walk]. destruct (existsb (scope_eqb from) visited); [reflexivity|].
  rewrite <- Hu, <- Hs.
  generalize (fold_left (fun a v => if pick v then set_add v a else a)
                (match as_get scope_eqb from (vs_used st) with Some l => l | None => [] end) acc).
  generalize (visited ++ [from]).
  generalize (match as_get scope_eqb from (vs_spreads st) with Some l => l | None => [] end).
  intro l. induction l as [|sp r IHl]; intros v a; [reflexivity|].
  rewrite (IH st st' pick (ScFrag sp) a v Hu Hs).
  destruct (vars_walk fuel st' pick (ScFrag sp) a v) as [[a' v']|]; [apply IHl|reflexivity].
Qed.

(* a fold that appends per-entry errors (or raises the out-of-fuel flag) reports the concatenation
   of the per-entry errors *)
Lemma fold_res_errors {E X} (w : E -> option X) (g : E -> X -> list verror) l : forall res,
  r_errors (fold_left (fun (res : rule_result) (e : E) =>
                         match w e with
                         | Some x => mkRes (r_errors res ++ g e x) (r_oof res)
                         | None => mkRes (r_errors res) true
                         end) l res)
  = r_errors res ++ flat_map (fun e => match w e with Some x => g e x | None => [] end) l.
Proof.
  induction l as [|e r IH]; intro res; cbn [fold_left flat_map]; [rewrite app_nil_r; reflexivity|].
  rewrite IH. destruct (w e) as [x|]; cbn [r_errors app]; [rewrite app_assoc|]; reflexivity.
Qed.

Definition nuv_entry_errors (d : document) (st : vars_state) (entry : (nat * option name) * list name) : list verror :=
  match vars_walk (vars_fuel d) st (fun v => mem_name v (snd entry)) (ScOp (fst (fst entry)) (snd (fst entry))) [] [] with
  | Some (used, _) => flat_map (fun v => if mem_name v used then [] else [err R_NoUnusedVariables []]) (snd entry)
  | None => []
  end.

Lemma nuv_finish_errors d st :
  r_errors (nuv_finish d st) = flat_map (nuv_entry_errors d st) (vs_defined st).
Proof.
  unfold nuv_finish.
  rewrite (fold_left_ext_fn _
    (fun (res : rule_result) (e : (nat * option name) * list name) =>
       match vars_walk (vars_fuel d) st (fun v => mem_name v (snd e)) (ScOp (fst (fst e)) (snd (fst e))) [] [] with
       | Some x => mkRes (r_errors res ++
                          flat_map (fun v => if mem_name v (fst x) then [] else [err R_NoUnusedVariables []]) (snd e))
                         (r_oof res)
       | None => mkRes (r_errors res) true
       end)).
  - rewrite (fold_res_errors
      (fun e : (nat * option name) * list name =>
         vars_walk (vars_fuel d) st (fun v => mem_name v (snd e)) (ScOp (fst (fst e)) (snd (fst e))) [] [])
      (fun e x => flat_map (fun v => if mem_name v (fst x) then [] else [err R_NoUnusedVariables []]) (snd e))).
    cbn [r_errors app]. apply flat_map_ext. intro e. unfold nuv_entry_errors.
    destruct (vars_walk _ _ _ _ _ _) as [[u vis]|]; reflexivity.
  - intros res e. destruct (vars_walk _ _ _ _ _ _) as [[u vis]|]; reflexivity.
Qed.

Lemma nuv_entry_errors_ext d st st' e :
  vs_used st = vs_used st' -> vs_spreads st = vs_spreads st' ->
  nuv_entry_errors d st e = nuv_entry_errors d st' e.
Proof. intros Hu Hs. unfold nuv_entry_errors. rewrite (vars_walk_ext _ st st' _ _ _ _ Hu Hs). reflexivity. Qed.

(* NoUnusedVariables: iteration over defined_variables (outer map) *)
Lemma nuv_finish_perm : forall d st defs', Permutation (vs_defined st) defs' ->
  Permutation (r_errors (nuv_finish d st))
              (r_errors (nuv_finish d (mkVars (vs_scope st) defs' (vs_seen st) (vs_used st) (vs_spreads st)))).
Proof.
  intros d st defs' H. rewrite !nuv_finish_errors. cbn [vs_defined].
  rewrite (flat_map_ext (nuv_entry_errors d (mkVars (vs_scope st) defs' (vs_seen st) (vs_used st) (vs_spreads st)))
                        (nuv_entry_errors d st)).
  - apply flat_map_perm. exact H.
  - intro e. symmetry. apply nuv_entry_errors_ext; reflexivity.
Qed.

Definition nudv_entry_errors (d : document) (st : vars_state) (entry : (nat * option name) * list name) : list verror :=
  match vars_walk (vars_fuel d) st (fun v => negb (mem_name v (snd entry))) (ScOp (fst (fst entry)) (snd (fst entry))) [] [] with
  | Some (undefined, _) => map (fun _ => err R_NoUndefinedVariables []) undefined
  | None => []
  end.

Lemma nudv_finish_errors d st :
  r_errors (nudv_finish d st) = flat_map (nudv_entry_errors d st) (vs_defined st).
Proof.
  unfold nudv_finish.
  rewrite (fold_left_ext_fn _
    (fun (res : rule_result) (e : (nat * option name) * list name) =>
       match vars_walk (vars_fuel d) st (fun v => negb (mem_name v (snd e))) (ScOp (fst (fst e)) (snd (fst e))) [] [] with
       | Some x => mkRes (r_errors res ++ map (fun _ => err R_NoUndefinedVariables []) (fst x)) (r_oof res)
       | None => mkRes (r_errors res) true
       end)).
  - rewrite (fold_res_errors
      (fun e : (nat * option name) * list name =>
         vars_walk (vars_fuel d) st (fun v => negb (mem_name v (snd e))) (ScOp (fst (fst e)) (snd (fst e))) [] [])
      (fun e x => map (fun _ => err R_NoUndefinedVariables []) (fst x))).
    cbn [r_errors app]. apply flat_map_ext. intro e. unfold nudv_entry_errors.
    destruct (vars_walk _ _ _ _ _ _) as [[u vis]|]; reflexivity.
  - intros res e. destruct (vars_walk _ _ _ _ _ _) as [[u vis]|]; reflexivity.
Qed.

Lemma nudv_entry_errors_ext d st st' e :
  vs_used st = vs_used st' -> vs_spreads st = vs_spreads st' ->
  nudv_entry_errors d st e = nudv_entry_errors d st' e.
Proof. intros Hu Hs. unfold nudv_entry_errors. rewrite (vars_walk_ext _ st st' _ _ _ _ Hu Hs). reflexivity. Qed.

(* NoUndefinedVariables: iteration over defined_variables (outer map) *)
Lemma nudv_finish_perm : forall d st defs', Permutation (vs_defined st) defs' ->
  Permutation (r_errors (nudv_finish d st))
              (r_errors (nudv_finish d (mkVars (vs_scope st) defs' (vs_seen st) (vs_used st) (vs_spreads st)))).
Proof.
  intros d st defs' H. rewrite !nudv_finish_errors. cbn [vs_defined].
  rewrite (flat_map_ext (nudv_entry_errors d (mkVars (vs_scope st) defs' (vs_seen st) (vs_used st) (vs_spreads st)))
                        (nudv_entry_errors d st)).
  - apply flat_map_perm. exact H.
  - intro e. symmetry. apply nudv_entry_errors_ext; reflexivity.
Qed.

(* the out-of-fuel flag of both folds is order-independent too *)
Lemma fold_res_oof {E X} (w : E -> option X) (g : E -> X -> list verror) l : forall res,
  r_oof (fold_left (fun (res : rule_result) (e : E) =>
                      match w e with
                      | Some x => mkRes (r_errors res ++ g e x) (r_oof res)
                      | None => mkRes (r_errors res) true
                      end) l res)
  = r_oof res || existsb (fun e => match w e with Some _ => false | None => true end) l.
Proof.
  induction l as [|e r IH]; intro res; cbn [fold_left existsb]; [rewrite orb_false_r; reflexivity|].
  rewrite IH. destruct (w e) as [x|]; cbn [r_oof orb]; [reflexivity|].
  rewrite orb_true_r. reflexivity.
Qed.

(* ================================================================ no_unused_fragments *)
(* NoUnusedFragments: the fragment definitions are enumerated at Leave(Document) *)
Lemma nuf_finish_perm : forall (in_use names names' : list name), Permutation names names' ->
  Permutation (flat_map (fun n => if mem_name n in_use then [] else [err R_NoUnusedFragments []]) names)
              (flat_map (fun n => if mem_name n in_use then [] else [err R_NoUnusedFragments []]) names').
Proof. intros in_use names names' H. apply flat_map_perm. exact H. Qed.

(* C05_proofs.v — OverlappingFieldsCanBeMerged: lemmas for properties/C05.v *)
From GTP Require Export C05_base_proofs.
